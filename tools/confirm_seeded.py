#!/venv/bin/python
"""
Confirm a candidate seeded breakage independently and, if it holds up, store it as
/verif/seeded/<id>/ (patch.diff, the demonstration, NOTES.md, meta.json).

  tools/confirm_seeded.py <candidate dir> <seeded id> <property> ["needs ..."]

The candidate dir holds patch.diff, demo_test.py (and NOTES.md) as written by a breaker
agent. In a fresh scratch worktree of /repo (outside /repo and /verif, removed afterwards):
 1. the demonstration passes on the unchanged tree,
 2. the patch applies,
 3. the repository's whole test-suite passes with the patch (timing tests that fail are
    re-run alone once, the machine may be busy),
 4. the demonstration fails with the patch.
"""

import json
import os
import re
import shutil
import subprocess
import sys
import time

VERIF = os.path.dirname(os.path.dirname(os.path.abspath(__file__)))
PY = '/venv/bin/python'


def sh(cmd, cwd, timeout=1500):
    proc = subprocess.run(cmd, cwd=cwd, shell=True, capture_output=True, text=True,
                          timeout=timeout, check=False)
    return proc.returncode, (proc.stdout + proc.stderr)


def summary_line(out):
    lines = [ln for ln in out.splitlines() if re.search(r'\d+ (passed|failed|error)', ln)]
    return lines[-1].strip() if lines else out.strip().splitlines()[-1] if out.strip() else ''


def main(argv):
    cand, sid, prop = argv[0], argv[1], argv[2]
    needs = argv[3] if len(argv) > 3 else ''
    wt = f"/tmp/confirm-{sid}"
    sh(f"git -C /repo worktree remove --force {wt}", '/')
    shutil.rmtree(wt, ignore_errors=True)
    rc, out = sh(f"git -C /repo worktree add --detach {wt} HEAD", '/')
    if rc:
        print(out)
        return 2
    ran = []
    ok = True
    try:
        demo = 'demo_test.py'
        shutil.copy(os.path.join(cand, demo), os.path.join(wt, demo))
        cmd_demo = f"{PY} -m pytest -q -p no:cacheprovider --timeout=300 {demo}"
        rc, out = sh(cmd_demo, wt)
        ran.append({'cmd': cmd_demo, 'tree': 'unchanged', 'exit': rc, 'summary': summary_line(out)})
        if rc != 0:
            # one retry: real-time demos on a busy machine
            rc, out = sh(cmd_demo, wt)
            ran.append({'cmd': cmd_demo, 'tree': 'unchanged (retry)', 'exit': rc,
                        'summary': summary_line(out)})
        if rc != 0:
            ok = False
            print("demo does not pass on the unchanged tree:\n" + out[-2000:])
        rc, out = sh(f"git apply {os.path.join(cand, 'patch.diff')}", wt)
        if rc != 0:
            print("patch does not apply: " + out)
            return 2
        cmd_suite = (f"{PY} -m pytest -q -p no:cacheprovider --timeout=900 "
                     "--continue-on-collection-errors tests")
        rc, out = sh(cmd_suite, wt)
        line = summary_line(out)
        ran.append({'cmd': cmd_suite, 'tree': 'patched', 'exit': rc, 'summary': line})
        if rc != 0:
            failed = sorted(set(re.findall(r'^FAILED (\S+)', out, flags=re.M)))
            still = []
            for test in failed:
                if 'test_executor' in test:
                    continue    # the baseline's two flaky tests
                rc2, out2 = sh(f"{PY} -m pytest -q -p no:cacheprovider --timeout=900 '{test}'", wt)
                ran.append({'cmd': f'pytest {test} (alone, after a failure in the busy full run)',
                            'tree': 'patched', 'exit': rc2, 'summary': summary_line(out2)})
                if rc2 != 0:
                    still.append(test)
            if still or not failed:
                ok = False
                print(f"test-suite fails with the patch: {still or line}")
        rc, out = sh(cmd_demo, wt)
        ran.append({'cmd': cmd_demo, 'tree': 'patched', 'exit': rc, 'summary': summary_line(out)})
        if rc == 0:
            ok = False
            print("demo passes with the patch (no demonstration)")
    finally:
        sh(f"git -C /repo worktree remove --force {wt}", '/')
        shutil.rmtree(wt, ignore_errors=True)
    for r in ran:
        print(f"  [{r['tree']}] exit={r['exit']} {r['summary']}  <- {r['cmd'][:80]}")
    if not ok:
        print(f"{sid}: NOT confirmed")
        return 1
    dest = os.path.join(VERIF, 'seeded', sid)
    os.makedirs(dest, exist_ok=True)
    for fn in ('patch.diff', 'demo_test.py', 'NOTES.md'):
        if os.path.exists(os.path.join(cand, fn)):
            shutil.copy(os.path.join(cand, fn), os.path.join(dest, fn))
    with open(os.path.join(dest, 'patch.diff'), encoding='utf-8') as f:
        files = sorted(set(re.findall(r'^\+\+\+ b/(\S+)', f.read(), flags=re.M)))
    meta = {
        'id': sid, 'property': prop, 'files': files,
        'needs_to_manifest': needs,
        'origin': 'fresh sub-agent given only the property text and a scratch worktree',
        'confirmed': ran, 'confirmed_at_repo_commit': sh('git -C /repo rev-parse --short HEAD', '/')[1].strip(),
        'confirmed_on': time.strftime('%Y-%m-%d'),
    }
    with open(os.path.join(dest, 'meta.json'), 'w', encoding='utf-8') as f:
        json.dump(meta, f, indent=1)
    print(f"{sid}: confirmed, stored in {dest}")
    return 0


if __name__ == '__main__':
    sys.exit(main(sys.argv[1:]))
