#!/venv/bin/python
"""
Run the registered checks against the seeded breakages kept in /verif/seeded/<id>/.

Each directory holds patch.diff (a change to xitop/edzed that breaks one property while
still passing the repository's own tests), a demonstration and meta.json
({"property": "C07", ...}). For every one a scratch copy of /repo's working tree is made
outside /repo and /verif, the patch applied there, the property's check is run against the
copy (VERIF_REPO) with evidence and replays redirected into the scratch directory, and the
copy is removed. /repo itself is never touched.

  tools/seeded.py [--tier quick|thorough] [--also C01,C08] [id ...]

Writes seeded/RESULTS.json: per id the exit code, the violation signatures, wall time.
Exit 0 iff every seeded change was detected (exit code 1 + VIOLATION line) by the check of
its property.
"""

import json
import os
import shutil
import subprocess
import sys
import time

VERIF = os.path.dirname(os.path.dirname(os.path.abspath(__file__)))
SEEDED = os.path.join(VERIF, 'seeded')
SCRATCH = os.environ.get('VERIF_SCRATCH', '/tmp/verif-seeded')
REPO = os.environ.get('VERIF_REPO_SRC', '/repo')


def run_one(sid, tier, extra_props=()):
    sdir = os.path.join(SEEDED, sid)
    with open(os.path.join(sdir, 'meta.json'), encoding='utf-8') as f:
        meta = json.load(f)
    props = [meta['property']] + [p for p in meta.get('also_breaks', []) if p != meta['property']]
    props += [p for p in extra_props if p not in props]
    work = os.path.join(SCRATCH, f"{sid}-{os.getpid()}")
    shutil.rmtree(work, ignore_errors=True)
    os.makedirs(work)
    out = {'property': meta['property'], 'checks': {}}
    try:
        repo = os.path.join(work, 'repo')
        os.makedirs(repo)
        shutil.copytree(os.path.join(REPO, 'edzed'), os.path.join(repo, 'edzed'),
                        ignore=shutil.ignore_patterns('__pycache__'))
        proc = subprocess.run(['patch', '-p1', '-s', '-d', repo, '-i',
                               os.path.join(sdir, 'patch.diff')],
                              capture_output=True, text=True, check=False)
        if proc.returncode != 0:
            out['error'] = f"patch does not apply: {proc.stdout} {proc.stderr}"
            return out
        for prop in props:
            env = dict(os.environ, VERIF_REPO=repo,
                       VERIF_EVIDENCE_DIR=os.path.join(work, 'evidence'),
                       VERIF_REPLAY_DIR=os.path.join(work, 'replays'))
            env.pop('PYTHONHASHSEED', None)
            t0 = time.time()
            proc = subprocess.run(
                ['timeout', '3000', os.path.join(VERIF, 'check'), prop, '--tier', tier],
                capture_output=True, text=True, env=env, cwd=VERIF, check=False)
            sigs = []
            for line in proc.stdout.splitlines():
                if line.startswith('#   signature='):
                    sigs.append(line.split()[1].split('=', 1)[1])
            out['checks'][prop] = {
                'exit': proc.returncode,
                'violation_lines': sum(1 for ln in proc.stdout.splitlines()
                                       if ln.startswith('VIOLATION ')),
                'signatures': sigs,
                'wall_s': round(time.time() - t0, 1),
                'tier': tier,
            }
            if proc.returncode not in (0, 1):
                out['checks'][prop]['tail'] = proc.stdout[-1500:] + proc.stderr[-500:]
        main = out['checks'][meta['property']]
        out['detected'] = main['exit'] == 1 and main['violation_lines'] > 0
        # a change may (also, or only) break a clause that another property's check owns:
        # meta.json lists those under also_breaks; detected_by names every check that raised
        out['detected_by'] = [p for p in props if out['checks'][p]['exit'] == 1
                              and out['checks'][p]['violation_lines'] > 0]
        if not out['detected'] and any(p in meta.get('also_breaks', [])
                                       for p in out['detected_by']):
            out['detected'] = True
        return out
    finally:
        shutil.rmtree(work, ignore_errors=True)


def main(argv):
    tier = 'quick'
    extra = ()
    ids = []
    it = iter(argv)
    for a in it:
        if a == '--tier':
            tier = next(it)
        elif a == '--also':
            extra = tuple(next(it).split(','))
        else:
            ids.append(a)
    if not ids:
        ids = sorted(d for d in os.listdir(SEEDED)
                     if os.path.isfile(os.path.join(SEEDED, d, 'meta.json')))
    res_path = os.path.join(SEEDED, 'RESULTS.json')
    rc = 0
    for sid in ids:
        res = run_one(sid, tier, extra)
        main_chk = res.get('checks', {}).get(res['property'], {})
        print(f"{sid}: property={res['property']} detected={res.get('detected')} "
              f"exit={main_chk.get('exit')} sigs={main_chk.get('signatures')} "
              f"{main_chk.get('wall_s')}s {res.get('error', '')}", flush=True)
        if not res.get('detected'):
            rc = 1
        # several invocations may run at the same time: merge under a lock
        import fcntl
        with open(res_path + '.lock', 'w') as lock:
            fcntl.flock(lock, fcntl.LOCK_EX)
            try:
                with open(res_path, encoding='utf-8') as f:
                    results = json.load(f)
            except (OSError, ValueError):
                results = {}
            results[sid] = res
            with open(res_path, 'w', encoding='utf-8') as f:
                json.dump(results, f, indent=1, sort_keys=True)
    return rc


if __name__ == '__main__':
    sys.exit(main(sys.argv[1:]))
