#!/usr/bin/env python3
"""Regenerate MANIFEST.json from the table below (run after adding a check)."""

import json
import os

VERIF = os.path.dirname(os.path.dirname(os.path.abspath(__file__)))

TECH = ("deterministic simulation with fault injection: real edzed code on a virtual-time "
        "asyncio loop, seeded search over schedules/faults/histories, ")
NOTE = ("trusts the virtual loop's model of asyncio scheduling (FIFO ready queue, timers never "
        "early, arbitrary order of equal deadlines, bounded wake-up latency) and the reference "
        "model/oracle written from the documentation; sampling, not proof")

# id: (level, text, technique tail)
BUILT = {
    'C03': ('exploration',
            "seeded search over generated FSM classes x event histories x delivery paths "
            "(external, block-to-block, chained from entry actions, zero-length timers) inside a "
            "running circuit; each event is compared with a reference FSM interpreter: result, "
            "state, output, exact action/event order and the fsm_event_data every action reads",
            "refinement against an executable reference FSM interpreter"),
    'C12': ('exploration',
            "seeded search over OutputAsync mode x guard_time x stop_data x stop_timeout "
            "(generous/tight) x arrival patterns of 1-6 puts on a virtual time grid (the first "
            "6000 run indices walk mode x guard x stop_data x patterns of <=3 puts systematically) "
            "x scripted coroutine durations, failures and slow cancellation x stop instant x "
            "loop knobs; a post-mortem monitor over the recorded history checks exactly-once "
            "results carrying the original data, mode discipline (FIFO/no overlap, cancel only "
            "for a newer put, newest completes, immediate start), guard time, the output as "
            "active-run count, stop_data last and the clean-up bound",
            "history monitor (exactly-once, ordering, mode discipline) over simulated runs"),
    'C08': ('fault_enumeration',
            "fault site (block x phase) x termination cause x instant are walked systematically "
            "for the first 1500 run indices and sampled beyond, over generated circuits of "
            "lifecycle probes and library blocks, with both entry points (run_forever task, "
            "edzed.run with supporting coroutines, SIGTERM handler called directly); pass-through "
            "wrappers record start/stop/stop_async/init_async calls; after the end the loop is "
            "inspected for unfinished tasks and live timers and run one more virtual hour",
            "fault-site x cause x instant enumeration with post-mortem task/timer leak inspection"),
    'C07': ('exploration',
            "seeded search over TimeDate/TimeSpan configurations (numeric interval sets incl. "
            "microsecond and end-of-day endpoints), start and reconfig instants on a "
            "sub-millisecond grid around boundaries, wake-up latency, callback and clock-read "
            "cost, stalls, forward/backward clock jumps and DST-like offset changes over 1-4 "
            "virtual days incl. year end and leap day; ~100-300 exact probes per run compare every "
            "output with an independent calendar predicate outside the guard band; the real "
            "cron task (sleep/wake/reset/reload logic incl. its blocking sub-millisecond sleep) "
            "runs on the virtual wall clock",
            "independent calendar-predicate oracle sampled by exact probes"),
    'C04': ('exploration',
            "seeded search over timed FSM / Timer / InputExp configurations, event histories "
            "placed before/at/after predicted expirations, and schedules (latency, cost, tie "
            "order, stalls); a timed reference model is used as a monitor that consumes the "
            "observed order of ties and checks every delivery, the single pending timer, its "
            "deadline and silence after stop",
            "timed reference-model monitor"),
}

# technique tail for checks whose level text is taken from the module (LEVEL, RULE)
TAILS = {
    'C01': "fixed-point and per-evaluation oracle against an executable CBlock reference model at every quiescent point",
    'C02': "predictive output-event model for sequential senders, chaining monitor for combinational senders",
    'C05': "initialisation model + wait_init() contract + metamorphic creation-order permutation",
    'C06': "crash-point enumeration over the storage journal, restart on a fresh virtual loop, persistence reference model",
    'C09': "competing error sources at chosen virtual instants, ground-truth delivery order recorded at the fault site",
    'C10': "brute-force consistency oracle for cyclic networks, bounded-evaluation monitor",
    'C11': "re-entry monitor around SBlock.event, event-flow reference model, follow-up delivery to every block",
    'C14': "ExtEvent.send at every lifecycle phase of the simulated circuit, delivered-iff-running oracle",
    'C15': "connection biconditional and frozen-structure invariants checked at every quiescent point and lifecycle instant",
    'C16': "dictionary-operation reference model for filter pipelines in live deliveries, initialisation-race rule",
    'C17': "input validation reference model over put histories, restart from (tampered) storage, expiry ties consumed as observed",
    'C18': "repeat monitor consuming the observed order of ties (exact in the latency-free stratum)",
    'C20': "accumulator reference model over event histories incl. restart from out-of-range stored values",
}


def module_consts(pid):
    """LEVEL and RULE of checks/<pid>.py without importing it."""
    import ast
    path = os.path.join(VERIF, 'checks', pid.lower() + '.py')
    out = {}
    with open(path, encoding='utf-8') as f:
        tree = ast.parse(f.read())
    for node in tree.body:
        if isinstance(node, ast.Assign) and isinstance(node.targets[0], ast.Name) \
                and node.targets[0].id in ('LEVEL', 'RULE', 'LEVEL_TEXT'):
            out[node.targets[0].id] = ast.literal_eval(node.value)
    return out


NOT_APPLICABLE = {
    'C13': "pure parsing/membership functions of their arguments: no schedule, clock, fault or "
           "interleaving is involved, so deterministic simulation has nothing to decide "
           "(DESIGN.md section 5)",
    'C19': "pure string/number conversion functions: no schedule, clock, fault or interleaving "
           "is involved (DESIGN.md section 5)",
}


# checks that were validated on the unchanged tree (clean long runs, determinism self-test)
READY = {'C01','C02','C05','C06','C09','C10','C11','C14','C15','C16','C17','C18','C20'}


def main():
    props = [json.loads(line) for line in open(os.path.join(VERIF, 'properties.jsonl'))]
    checks = []
    na = []
    for p in props:
        pid = p['id']
        have = os.path.exists(os.path.join(VERIF, 'checks', pid.lower() + '.py'))
        if have and pid not in BUILT and pid in TAILS and pid in READY:
            consts = module_consts(pid)
            BUILT[pid] = (consts['LEVEL'],
                          consts.get('LEVEL_TEXT') or ("seeded search; " + consts['RULE']),
                          TAILS[pid])
        if pid in BUILT and have:
            level, text, tail = BUILT[pid]
            checks.append({
                "property_id": pid,
                "quick_cmd": f"timeout 1200 ./check {pid} --tier quick",
                "thorough_cmd": f"timeout 14400 ./check {pid} --tier thorough",
                "evidence_file": f"/verif/evidence/{pid}.json",
                "replay_cmd_template": f"./check {pid} --replay {{path}}",
                "engine": "simkit",
                "level_claimed": {"category": level, "text": text,
                                  "design_ref": f"DESIGN.md section 4, {pid}"},
                "level_note": NOTE,
                "technique": TECH + tail,
            })
        else:
            na.append({"property_id": pid, "reason": NOT_APPLICABLE.get(
                pid, "check not built yet in this round; planned as deterministic simulation "
                     "(DESIGN.md section 4)")})
    manifest = {
        "version": 1,
        "setup_cmd": "timeout 900 ./check selftest-smoke",
        "hooks": {
            "guard": "EDZED_VERIF",
            "enable": "no source hooks exist: all seams are attached from /verif at import time "
                      "(simkit/seams.py); the guard name is reserved for future hooks",
            "baseline_off_cmd": "cd /repo && /venv/bin/python -m pytest -ra -q -p no:cacheprovider "
                                "--timeout=900 --continue-on-collection-errors",
            "source_commits": [],
            "add_only": True,
        },
        "engines": [{
            "name": "simkit", "path": "/verif/simkit",
            "serves_properties": [c['property_id'] for c in checks],
            "kind_free_text": "deterministic simulation: virtual-time asyncio event loop, seeded "
                              "scheduler and fault injector, reference-model oracles, plan "
                              "minimiser and replay",
        }],
        "checks": checks,
        "not_applicable": na,
        "notes": "Entry point ./check <ID> [--tier quick|thorough]; VERIF_SEED selects the seed "
                 "block; exit 0 held / 1 VIOLATION / 2 harness error. ./check <ID> --replay <file> "
                 "re-executes a recorded plan. See DESIGN.md.",
    }
    with open(os.path.join(VERIF, 'MANIFEST.json'), 'w', encoding='utf-8') as f:
        json.dump(manifest, f, indent=1)
    print(f"{len(checks)} checks, {len(na)} not claimed")


if __name__ == '__main__':
    main()
