#!/venv/bin/python
"""Debug helper: replay a C07 plan with cron debug messages, print log + trace merged."""
import sys, os, json, logging
sys.path.insert(0, os.path.dirname(os.path.dirname(os.path.abspath(__file__))))
from simkit import seams
edzed = seams.install()
from checks import c07
logging.getLogger('edzed').setLevel(logging.DEBUG)
doc = json.load(open(sys.argv[1]))
plan = doc['plan']
lo = float(sys.argv[2]) if len(sys.argv) > 2 else None
hi = float(sys.argv[3]) if len(sys.argv) > 3 else None
# timestamp log records with virtual time
recs = []
class H(logging.Handler):
    def emit(self, record):
        recs.append((seams.S.loop._ns, record.getMessage()))
logging.getLogger('edzed').handlers[:] = [H()]
orig_cron_init = edzed.blocklib.cron.Cron.__init__
def init(self, *a, **k):
    orig_cron_init(self, *a, **k)
    self.debug = True
edzed.blocklib.cron.Cron.__init__ = init
res = c07.execute(plan, trace=True)
o = plan['knobs']['origin_ns']
items = [((ns - o) / 1e9, 'LOG', m) for ns, m in recs] + [(t[1] / 1e9, t[2], t[3]) for t in res['trace']]
items.sort(key=lambda x: x[0])
for t, k, m in items:
    if (lo is None or t >= lo) and (hi is None or t <= hi):
        print(f"{t:16.6f} {k} {m}")
print(res['violations'][:3])
