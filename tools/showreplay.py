#!/usr/bin/env python3
import json, sys
d = json.load(open(sys.argv[1]))
p = d['plan']
print("SIG", d['signature']); print("MSG", d['message'][:400])
print("PLAN", json.dumps({k: v for k, v in p.items()}, default=str)[:3000])
n = int(sys.argv[2]) if len(sys.argv) > 2 else 80
for t in d['trace'][:n]:
    print(f"{t[1]/1e9:12.6f} {t[2]} {json.dumps(t[3])[:200]}")
