"""
C05 - after start-up every block has a valid output, taken from the documented sources.

One plan = one circuit configuration executed under 2-4 creation-order permutations (each
permutation is a complete run of the real edzed code on its own virtual loop, same knobs).

Circuit: 1-5 blocks from
  * InitProbe (AddonPersistence + AddonAsync + SBlock variants) whose four initialisation
    sources are scripted independently (absent / sets the output / sets it only when still
    uninitialised / leaves the block uninitialised / raises / sets UNDEF; init_async ending
    at d relative to its init_timeout T: no await, 0, T-0.3, T-1ms, T, T+1ms, T+0.3, never;
    T in {0.5, 1, 2, 0, -1}); every routine may send events ('put', 'nop', unknown type,
    failing handler) to later blocks before or after its own action; receivers may echo an
    event back into the routine that is still on the stack; on_output events;
  * library blocks: Input (initdef / saved state / event-only), ValuePoll (sync/async func,
    UNDEF results, slow first value, initdef or not, T<=0), InitAsync (result / UNDEF /
    raising / slow coroutine, initdef or not, with or without the IfNotIitialized filter;
    the documented name NotIfInitialized is looked up first), Timer and a small FSM with
    on_enter events (both also restored from saved state);
  * FuncBlocks (some raise or return UNDEF in the first evaluation), _not_ shortcuts;
  * blocks with asynchronous clean-up (Repeat, OutputAsync, probe with stop_async);
  * senders that swallow exceptions: emissions from _restore_state (the library only logs
    errors of a restore), a persistent Counter restoring its state with an on_output event,
    emissions wrapped in try/except ('catch'); every 8th index (index % 8 == 3) is the stratum
    "destination whose init_regular/init_from_value raises but which gets a valid output
    (saved state / later put), run early by an event of a swallowing sender";
  * a marker probe that is always restored from saved state (public-API landmark for the
    first synchronous pass);
plus external events during the asynchronous phase and 1-4 wait_init() callers (created
with the task, after the first yield, in the middle of the asynchronous phase, after the
start-up; some cancelled).

Oracle
  (a) models/init_model.py (monitor over the call log of the probes): each routine at most
      once; saved state used iff available and first; init_async started iff defined, T > 0
      and the block uninitialised after the first synchronous pass; never cancelled before
      its own T, the whole phase within the largest T; init_regular by the simulator only
      after the block's init_async; initdef iff still uninitialised directly after
      init_regular; an event reaching a block while none of its own routines is on the stack
      finds the synchronous steps done.
  (b) wait_init(): returns normally => at that very moment no block (S or C) is UNDEF,
      is_ready() and error is None; start-up failed => every caller gets EdzedInvalidState
      and the simulation task ends with the error; running fine => every caller returned.
  (c) consistency of the verdict: a failing first evaluation => failure; an init_regular /
      init_from_value that raised => failure for every creation order, whoever ran the routine
      (the simulator, or an event that made the synchronous steps run early) and whatever the
      sender of that event does with the exception (a state restore only logs it, a relay may
      catch it); a failure needs a
      witnessed cause (a raising routine/handler/function or a block that is still UNDEF);
      a failure by an uninitialised block only after every block's routines were run.
  (d) library blocks: Input puts (saved state, else initdef, before any event), ValuePoll
      output == last acquired value else initdef, InitAsync output == result / initdef / None
      and no output event in the last case.
  (e) metamorphic: the verdict (success/failure) is the same for all creation orders (only
      compared when the recorded interleaving of asynchronous happenings is the same).

Known finding on the unchanged tree (F3, genuine): signature
  C05/wait-init-returned/first-evaluation-failed - _init_done is set *before* the first
  evaluation pass; when that pass fails (FuncBlock raises / returns UNDEF, or its output event
  hits a failing handler) while a block with asynchronous clean-up exists (ValuePoll, Repeat,
  OutputAsync, any stop_async), the clean-up needs more loop iterations than wait_init()'s
  wake-up, so wait_init() returns normally with error set, is_ready() false, CBlocks UNDEF.
  Minimised replay: known/C05-F3-wait-init-first-evaluation-failed.json.

Sensitivity: 3000 plans each (VERIF_RUNS=3000) against a mutated scratch copy of the tree with
the candidate repair of F3 applied; signatures abbreviated.
  M1  sync_2 checks "not initialized" inside its first loop      caught  failed-before-all-sources,
                                                                         creation-order/verdict-differs
  M2  early initialisation on a pending event skipped             caught  event-before-sync-steps/*,
                                                                         source/input, verdict-differs
  M3  _init_done.set() moved before _init_sblocks_sync_2          missed on the repaired tree: equivalent
      there (no await between set() and the end of the first evaluation, and the repaired
      wait_init() checks the error); on the unchanged tree caught: wait-init-returned/error-set
  M4  init_async started for initialised blocks                   caught  async-although-initialized
  M5  _run_tasks sorted ascending                                 missed: equivalent under the property
      (every routine still gets at least its own T, the phase still ends within the largest T;
      only the documented "may wait longer" disappears)
  M6  initdef applied although initialised                        caught  initdef-although-initialized,
                                                                         source/valuepoll|initasync|input
  M7  every init task waited for its full T (not the remainder)   caught  async-phase-exceeds-max-timeout
  M9  early initialisation runs one step only (full=False)        caught  event-before-sync-steps/regular
  M10 init_async started with init_timeout <= 0                   caught  async-with-nonpositive-timeout
  M11 InitAsync.init_regular overwrites the coroutine's result    caught  source/initasync
  M12 asynchronous phase before the first synchronous pass        caught  order/restore-not-first,
                                                                         async-although-initialized
  M13 early initialisation only after step 1 (0 < steps < 2);     caught  event-before-sync-steps/restore*
      needs the emitter to be created before the receiver
  M14 error of the first evaluation swallowed                     caught  wait-init-returned/undef-output,
                                                                         first-evaluation-failed-but-running
  M15 saved state ignored when initdef is given                   caught  restore-not-used, source/input
  M16 wait_init() returns as soon as _init_done is set            caught  wait-init-returned/first-evaluation-failed
  M17 AddonAsyncInit.init_async forgets the acquired value        caught  source/valuepoll
  M18 init_regular skipped for initialised blocks                 caught  regular-not-run
  M19 init tasks cancelled at 0.9 x init_timeout                  caught  async-cancelled-before-timeout
  M22 wait_init() waits for ALL_COMPLETED                         caught  wait-init-never-returned/*
  M23 early initialisation without _enable_event (Input/FSM       caught  failed-before-all-sources,
      initdef is an event to itself; needs emitter before Input)          verdict-differs, source/input
  M24 step counter not advanced after an early initialisation     caught  routine-twice/regular
  M25 a cancelled wait_init() caller cancels the simulation       caught  spurious-failure, ...
  M26 _init_done set 0.5 s late when async blocks exist           missed: not a violation (the property
      does not bound how soon wait_init() returns)
"""

from __future__ import annotations

import asyncio
import collections
import hashlib
import json
import random

from simkit import seams
from simkit.runner import Run, PlanError, canon, gen_knobs
from simkit.storage import SimStorage
from models import init_model
from checks import fsmlib

edzed = seams.install()

PROP = 'C05'
LEVEL = 'exploration'
RUNS = {'quick': 16000, 'thorough': 400000}
CHUNK = 100
RULE = ("one run = one generated configuration (1-5 scripted init probes / Input / ValuePoll / "
        "InitAsync / Timer / FSM, 0-3 FuncBlocks (some failing in the first evaluation, some with "
        "output events), 0-2 async-stop blocks, a marker probe; init-time event topology acyclic "
        "apart from echoes; 0-2 external events; 1-4 wait_init() callers incl. a late one) "
        "executed under 2-4 creation-order permutations with identical knobs; every 8th index "
        "is the stratum 'failing first evaluation x async-stop block', every index = 3 mod 8 the "
        "stratum 'raising init routine run early by an event of an exception-swallowing sender "
        "(restore path, persistent Counter, catching relay)'; non-trivial = in some "
        "permutation an init_async routine ran, or an event from another block was delivered "
        "during the start-up, or the start-up failed; "
        "a third of the ValuePoll/InitAsync initdef values are falsy (0, False, '', 0.0), a fifth "
        "of the FuncBlocks have constants only or no inputs; "
        "distinct = hash of (block kinds, per block routine/outcome sequence, handler records, "
        "async outcomes, waiter outcomes, verdict) of every permutation, times and values removed")
REACH_EXPECTED = [
    'startup_success', 'startup_failure', 'failure_uninitialized', 'failure_first_evaluation',
    'first_eval_fail_with_async_stop', 'async_completed', 'async_timeout',
    'async_completed_between_own_and_max_timeout', 'async_skipped_nonpositive_timeout',
    'async_skipped_initialized', 'async_routine_failed', 'sync_steps_forced_by_event',
    'event_with_own_routine_on_stack', 'event_during_async_phase', 'ext_event_during_async_phase',
    'restore_used', 'initdef_used', 'initdef_skipped_initialized', 'event_only_block_initialized',
    'vpoll_value_in_time', 'vpoll_initdef_after_timeout', 'initasync_result', 'initasync_failed',
    'initasync_event_filtered', 'waiter_cancelled', 'waiter_late', 'waiter_mid_async',
    'waiter_refused', 'perm_verdicts_compared', 'perm_verdicts_compared_failure',
    'async_tie_at_timeout', 'init_routine_raised', 'init_raise_early_by_event',
    'init_raise_early_swallowing_sender']
ASSUMPTIONS = [
    "scripted init_async routines react to cancellation at once",
    "time bounds: not cancelled earlier than T - (1us + 40 x per-callback cost); phase ends "
    "within max T + (1us + 4 x latency + 400 x per-callback cost)",
    "saved state never expires here (expiration is C06's subject)",
    "event filters are only exercised, their semantics is C16's subject",
]


class Injected(Exception):
    """Raised by scripted user code."""


# --------------------------------------------------------------------------- generation

def wchoice(rng, pairs):
    total = sum(w for _v, w in pairs)
    x = rng.random() * total
    for v, w in pairs:
        x -= w
        if x < 0:
            return v
    return pairs[-1][0]


T_GRID = [0.5, 1.0, 2.0]


def gen_T(rng):
    if rng.random() < 0.13:
        return rng.choice([0, -1, 0.0])
    return rng.choice(T_GRID)


def gen_d(rng, T):
    base = T if T > 0 else 0.5
    return rng.choice([None, 0.0, 0.1, round(base - 0.3, 3), round(base - 0.001, 6), base,
                       round(base + 0.001, 6), round(base + 0.3, 3), 'never',
                       round(base - 0.3, 3), 0.1])


def _safe(act, faults):
    if not faults and act in ('raise', 'set_undef'):
        return 'leave'
    return act


def gen_probe(rng, name, flags):
    faults = flags['faults']
    b = {'kind': 'probe', 'name': name, 'persist': None, 'async': None,
         'regular': {'act': 'leave', 'emit': []}, 'ifv': None, 'stop_async': None,
         'on_output': []}
    if rng.random() < 0.4:
        b['persist'] = {'stored': rng.random() < 0.75, 'emit': [],
                        'act': _safe(wchoice(rng, [('set', 6), ('leave', 2.5), ('raise', 1),
                                                    ('set_undef', .5)]), faults)}
    if flags['async'] and rng.random() < 0.6:
        T = gen_T(rng)
        b['async'] = {'T': T, 'd': gen_d(rng, T), 'emit': [],
                      'act': _safe(wchoice(rng, [('set_if_uninit', 4), ('set', 3), ('leave', 1.5),
                                                  ('raise', 1), ('set_undef', .5)]), faults)}
    b['regular']['act'] = _safe(wchoice(rng, [('leave', 4.5), ('set_if_uninit', 2.5), ('set', 2.5),
                                              ('raise', .4)]), faults)
    if rng.random() < 0.45:
        b['ifv'] = {'initdef': rng.random() < 0.8, 'emit': [],
                    'act': _safe(wchoice(rng, [('set', 8.5), ('leave', 1), ('raise', .4)]), faults)}
    if flags['astop'] and rng.random() < 0.3:
        b['stop_async'] = {'dur': rng.choice([0.0, 0.05, 0.3]), 'timeout': rng.choice([1.0, 1.0, 0])}
    return b


def gen_lib(rng, kind, name, flags):
    if kind == 'input':
        b = {'kind': 'input', 'name': name, 'initdef': rng.random() < 0.5, 'persist': None,
             'on_output': []}
        if rng.random() < 0.3:
            b['persist'] = {'stored': rng.random() < 0.7}
        return b
    if kind == 'vpoll':
        return {'kind': 'vpoll', 'name': name, 'async': rng.random() < 0.5,
                'undef_calls': rng.choice([0, 0, 1, 3, 6, 30]),
                'first_delay': rng.choice([0.0, 0.0, 0.25, 0.65, 1.15, 3.3]),
                'interval': 0.13, 'T': gen_T(rng), 'initdef': rng.random() < 0.55,
                'on_output': [], **_gen_idv(rng)}
    if kind == 'initasync':
        T = gen_T(rng)
        return {'kind': 'initasync', 'name': name, 'T': T, 'd': gen_d(rng, T),
                'initdef': rng.random() < 0.5,
                'result': wchoice(rng, [('ok', 7), ('undef', 1), ('raise', 1.5)]),
                'dest': None, 'filter': rng.random() < 0.5, **_gen_idv(rng)}
    if kind == 'timer':
        b = {'kind': 'timer', 'name': name, 'initdef': rng.choice([None, None, 'on']),
             'persist': None}
        if rng.random() < 0.3:
            b['persist'] = {'stored': rng.random() < 0.7, 'state': rng.choice(['on', 'off'])}
        return b
    if kind == 'fsm':
        b = {'kind': 'fsm', 'name': name, 'initdef': rng.choice([None, 'a', 'b']), 'persist': None,
             'enter_a': [], 'enter_b': []}
        if rng.random() < 0.3:
            b['persist'] = {'stored': rng.random() < 0.7, 'state': rng.choice(['a', 'b'])}
        return b
    raise ValueError(kind)


ACCEPTS = {'probe': ['put', 'put', 'put', 'nop'], 'input': ['put'], 'timer': ['start'],
           'fsm': ['go']}


def guaranteed_source(b):
    """Conservative: does the block certainly get a valid output without foreign events?"""
    k = b['kind']
    if k == 'probe':
        p = b.get('persist')
        if p and p['stored'] and p['act'] == 'set':
            return True
        if b['regular']['act'] in ('set', 'set_if_uninit'):
            return True
        i = b.get('ifv')
        if i and i['initdef'] and i['act'] == 'set' and b['regular']['act'] != 'raise':
            return True
        return False
    if k == 'input':
        return bool(b['initdef'] or (b.get('persist') and b['persist']['stored']))
    if k == 'vpoll':
        return bool(b['initdef']) or (b['undef_calls'] == 0 and not b['async'])
    return True


def gen_swallow_scenario(rng):
    """
    Stratum: a destination whose init_regular / init_from_value raises although the block gets
    a valid output (saved state, or a later 'put'), and whose synchronous steps are run early
    by an event from a sender that swallows exceptions: a persistent Counter restoring its
    state (library code: errors of a restore are only logged), a probe emitting from its
    _restore_state, or a relay that catches. Must fail for every creation order.
    """
    def plain(name):
        return {'kind': 'probe', 'name': name, 'persist': None, 'async': None,
                'regular': {'act': 'leave', 'emit': []}, 'ifv': None, 'stop_async': None,
                'on_output': []}
    dest = plain('dx')
    senders = []
    variant = rng.choice(['regular', 'regular', 'ifv'])
    bad = rng.choice(['raise', 'raise', 'set_undef'])
    if variant == 'regular':
        dest['regular']['act'] = bad
        dest['persist'] = {'stored': True, 'act': 'set', 'emit': []}
    else:
        dest['ifv'] = {'initdef': True, 'act': 'raise', 'emit': []}
        late = plain('sl')      # gives the destination its valid output afterwards
        late['regular'] = {'act': 'set', 'emit': [{'dest': 'dx', 'etype': 'put', 'pos': 'post',
                                                    'echo': False}]}
        senders.append(late)
    for k in range(rng.randint(1, 2)):
        how = rng.choice(['counter', 'restore', 'catch-regular', 'catch-restore', 'catch-ifv'])
        et = rng.choice(['put', 'nop'])
        em = {'dest': 'dx', 'etype': et, 'pos': rng.choice(['pre', 'post']), 'echo': False}
        if how == 'counter':
            senders.append({'kind': 'counter', 'name': f"cn{k}", 'stored': True, 'on_output': ['dx']})
            continue
        snd = plain(f"sw{k}")
        snd['regular']['act'] = 'set'
        if how in ('restore', 'catch-restore'):
            snd['persist'] = {'stored': True, 'act': rng.choice(['set', 'leave']), 'emit': [em]}
        elif how == 'catch-regular':
            snd['regular']['emit'].append(em)
        else:
            snd['regular']['act'] = 'leave'
            snd['ifv'] = {'initdef': True, 'act': 'set', 'emit': [em]}
        if how.startswith('catch'):
            em['catch'] = True
        senders.append(snd)
    rng.shuffle(senders)
    return senders + [dest]


def gen(rng, tier, index=0):
    f3_stratum = index % 8 == 0
    swallow_stratum = index % 8 == 3
    flags = {
        'emit': rng.random() < 0.7, 'async': rng.random() < 0.7, 'faults': rng.random() < 0.3,
        'lib': rng.random() < 0.6, 'cblocks': rng.random() < 0.5 or f3_stratum,
        'astop': rng.random() < 0.4 or f3_stratum, 'ext': rng.random() < 0.3,
        'echo': rng.random() < 0.3, 'repair': rng.random() < 0.85,
    }
    n = rng.randint(1, 5)
    blocks = []
    for i in range(n):
        kind = 'probe'
        if flags['lib'] and rng.random() < 0.45:
            kind = wchoice(rng, [('input', 3), ('vpoll', 3), ('initasync', 2.5), ('timer', 1.5),
                                 ('fsm', 2)])
        name = f"{kind[:2]}{i}"
        blocks.append(gen_probe(rng, name, flags) if kind == 'probe'
                      else gen_lib(rng, kind, name, flags))
    acc = [i for i, b in enumerate(blocks) if b['kind'] in ACCEPTS]
    putacc = [i for i in acc if blocks[i]['kind'] in ('probe', 'input')]

    def later(i, pool):
        return [j for j in pool if j > i]

    # ---- emissions from init routines, on_output events
    for i, b in enumerate(blocks):
        if b['kind'] == 'probe':
            has_echo = False
            for rkey in ('persist', 'async', 'regular', 'ifv'):
                sp = b.get(rkey)
                if sp is None or not flags['emit']:
                    continue
                while rng.random() < 0.35 and later(i, acc) and len(sp['emit']) < 2:
                    j = rng.choice(later(i, acc))
                    dk = blocks[j]['kind']
                    et = rng.choice(ACCEPTS[dk])
                    if flags['faults'] and dk == 'probe' and rng.random() < 0.15:
                        et = rng.choice(['unknown', 'boom'])
                    em = {'dest': blocks[j]['name'], 'etype': et,
                          'pos': rng.choice(['pre', 'post']), 'echo': False}
                    if flags['faults'] and rng.random() < 0.3:
                        em['catch'] = True      # a relay that catches what the delivery raises
                    if flags['echo'] and dk == 'probe' and et in ('put', 'nop') and rng.random() < 0.5:
                        em['echo'] = True
                        has_echo = True
                    sp['emit'].append(em)
            if flags['emit'] and not has_echo and rng.random() < 0.25 and later(i, putacc):
                b['on_output'] = sorted({blocks[rng.choice(later(i, putacc))]['name']
                                         for _ in range(rng.randint(1, 2))})
        elif b['kind'] in ('input', 'vpoll'):
            if rng.random() < 0.4 and later(i, putacc):
                b['on_output'] = [blocks[rng.choice(later(i, putacc))]['name']]
        elif b['kind'] == 'initasync':
            if later(i, putacc) and rng.random() < 0.85:
                b['dest'] = blocks[rng.choice(later(i, putacc))]['name']
        elif b['kind'] == 'fsm':
            for key in ('enter_a', 'enter_b'):
                if rng.random() < 0.5 and later(i, putacc):
                    b[key] = [blocks[rng.choice(later(i, putacc))]['name']]

    # ---- repair pass: most configurations should be able to start
    if flags['repair']:
        for i, b in enumerate(blocks):
            if guaranteed_source(b):
                continue
            incoming = False
            for a in blocks[:i]:
                if a['kind'] == 'probe' and any(
                        em['dest'] == b['name'] and em['etype'] == 'put'
                        for em in a['regular']['emit']) and a['regular']['act'] != 'raise':
                    incoming = True
            if incoming:
                continue
            earlier = [a for a in blocks[:i] if a['kind'] == 'probe' and a['regular']['act'] != 'raise']
            r = rng.random()
            if earlier and r < 0.4 and b['kind'] in ('probe', 'input'):
                a = rng.choice(earlier)
                a['regular']['emit'].append({'dest': b['name'], 'etype': 'put',
                                             'pos': rng.choice(['pre', 'post']), 'echo': False})
            elif b['kind'] == 'probe':
                if r < 0.7 and b['regular']['act'] != 'raise':
                    b['regular']['act'] = rng.choice(['set', 'set_if_uninit'])
                else:
                    b['ifv'] = dict(b.get('ifv') or {'emit': []}, initdef=True, act='set')
                    if b['regular']['act'] == 'raise':
                        b['regular']['act'] = 'leave'
            elif b['kind'] in ('input', 'vpoll'):
                b['initdef'] = True

    # ---- combinational blocks, async-stop blocks
    cblocks = []
    if flags['cblocks']:
        for k in range(rng.randint(1, 3)):
            pool = [b['name'] for b in blocks] + [c['name'] for c in cblocks]
            ins = [rng.choice(pool) for _ in range(rng.randint(1, 2))]
            if rng.random() < 0.2:
                src = rng.choice(blocks)['name']
                ins[0] = f"_not_{src}"
            if rng.random() < 0.2:
                # no block-connected input at all: constants only, or no inputs
                ins = [{'const': rng.choice([0, 1, None, 'k'])} for _ in range(rng.randint(0, 2))]
            mode = 'ok'
            if (flags['faults'] and rng.random() < 0.3) or (f3_stratum and k == 0):
                mode = rng.choice(['raise1', 'raise1', 'undef1'])
            cb = {'kind': 'cblock', 'name': f"fb{k}", 'inputs': ins, 'mode': mode, 'on_output': [],
                  'out_etype': 'put'}
            probes = [b['name'] for b in blocks if b['kind'] == 'probe']
            if probes and rng.random() < 0.2:
                cb['on_output'] = [rng.choice(probes)]
                if flags['faults'] and rng.random() < 0.3:
                    cb['out_etype'] = 'boom'
            cblocks.append(cb)
    astops = []
    if flags['astop']:
        for k in range(rng.randint(1, 2)):
            kind = rng.choice(['repeat', 'oasync'])
            a = {'kind': kind, 'name': f"{kind[:3]}{k}"}
            if kind == 'repeat':
                if not putacc:
                    a = {'kind': 'oasync', 'name': f"oas{k}"}
                else:
                    a['dest'] = blocks[rng.choice(putacc)]['name']
            astops.append(a)
    extra = gen_swallow_scenario(rng) if swallow_stratum else []
    marker = {'kind': 'probe', 'name': 'zmark', 'sentinel': True,
              'persist': {'stored': True, 'act': 'set', 'emit': []}, 'async': None,
              'regular': {'act': 'leave', 'emit': []}, 'ifv': None, 'stop_async': None,
              'on_output': []}
    allblocks = blocks + extra + cblocks + astops + [marker]

    # ---- external events during the start-up, waiters
    ext = []
    if flags['ext'] and acc:
        for _ in range(rng.randint(1, 2)):
            j = rng.choice(acc)
            ext.append({'t': rng.choice([0.05, 0.35, 0.85, 1.45, 2.55]), 'blk': blocks[j]['name'],
                        'etype': rng.choice(ACCEPTS[blocks[j]['kind']])})
        ext.sort(key=lambda e: e['t'])
    waiters = [{'at': rng.choice(['create', 'yield']), 'cancel': None}]
    for _ in range(wchoice(rng, [(0, 5), (1, 3), (2, 1.5), (3, .5)])):
        at = rng.choice(['create', 'yield', 0.05, 0.35, 0.85, 1.45])
        cancel = None
        if rng.random() < 0.3:
            cancel = rng.choice([0.0, 0.2, 0.6, 1.2])
        waiters.append({'at': at, 'cancel': cancel})
    perm_seeds = [None] + [rng.randrange(1 << 30) for _ in range(rng.randint(1, 3))]
    knobs = gen_knobs(rng, latency=True, cost=True, ties=True)
    return {'knobs': knobs, 'blocks': allblocks, 'ext': ext, 'waiters': waiters,
            'perm_seeds': perm_seeds}


# --------------------------------------------------------------------------- probe classes

class Ctx:
    """Recording context of one permutation run."""

    def __init__(self, run, plan):
        self.run = run
        self.plan = plan
        self.log = []
        self.nest = collections.Counter()       # own init routines on the stack
        self.evdepth = collections.Counter()    # event deliveries in progress
        self.circuit = None
        self.blocks = {}
        self.plan_kinds = {b['name']: b['kind'] for b in plan['blocks']}
        self.causes = []            # possible causes of a start-up failure (harness-known)
        self.calc_fault = None      # a FuncBlock failed in its first evaluation
        self.vp_last = {}
        self.iac = {}
        self.echoed = set()
        self.emitting = []          # emissions of probe routines in progress (innermost last)
        self.last_src = {}          # block -> source of the event being delivered
        self.sets = collections.defaultdict(list)   # library blocks: values given to set_output
        self.delivered = collections.defaultdict(list)  # dest -> [source]

    def rec(self, kind, name, **kw):
        loop = self.run.loop
        circuit = self.circuit
        e = {'i': len(self.log), 's': loop.steps, 't': loop._ns - self.run.knobs['origin_ns'],
             'k': kind, 'b': name,
             'err': circuit is not None and circuit.error is not None}
        e.update(kw)
        self.log.append(e)
        self.run.log(kind, name, kw)
        return e

    # ---- scripted routines
    def rbegin(self, blk, which):
        forced = self.evdepth[blk.name] > 0
        trig = None
        if forced:
            src = self.last_src.get(blk.name)
            trig = [src, self.plan_kinds.get(src)]
            if self.emitting and self.emitting[-1][0] == src:
                trig += [self.emitting[-1][1], self.emitting[-1][2]]
        self.rec('rb', blk.name, r=which, forced=forced, init=blk.is_initialized(), trig=trig)

    def rend(self, blk, which, out, exc=None):
        self.rec('re', blk.name, r=which, out=out, init=blk.is_initialized(), exc=exc)

    def sync_routine(self, blk, which):
        name = blk.name
        spec = blk.x_spec.get({'restore': 'persist'}.get(which, which)) or {}
        self.rbegin(blk, which)
        self.nest[name] += 1
        try:
            self.script(blk, which, spec)
        except BaseException as err:
            self.nest[name] -= 1
            self.rend(blk, which, 'exc', type(err).__name__)
            raise
        self.nest[name] -= 1
        self.rend(blk, which, 'ok')

    async def async_routine(self, blk):
        name = blk.name
        spec = blk.x_spec['async']
        self.rbegin(blk, 'async')
        try:
            d = spec.get('d')
            if d == 'never':
                await asyncio.sleep(1e6)
            elif d is not None:
                await asyncio.sleep(d)
            self.nest[name] += 1
            try:
                self.script(blk, 'async', spec)
            finally:
                self.nest[name] -= 1
        except asyncio.CancelledError:
            term = self.circuit.error is not None
            self.rend(blk, 'async', 'cancel-term' if term else 'cancel')
            raise
        except Exception as err:
            self.rend(blk, 'async', 'exc', type(err).__name__)
            raise
        self.rend(blk, 'async', 'ok')

    def script(self, blk, which, spec):
        for em in spec.get('emit', ()):
            if em.get('pos') == 'pre':
                self.emit(blk, which, em)
        act = spec.get('act', 'leave')
        tag = f"{which}:{blk.name}"
        if act == 'set':
            blk.set_output(tag)
        elif act == 'set_if_uninit':
            if not blk.is_initialized():
                blk.set_output(tag)
        elif act == 'raise':
            if which in ('regular', 'ifv'):
                self.causes.append(f"{which}-raise:{blk.name}")
            self.run.fired(f"fault:user_fn_raises:{which}")
            raise Injected(f"{which} of {blk.name}")
        elif act == 'set_undef':
            if which in ('regular', 'ifv'):
                self.causes.append(f"{which}-undef:{blk.name}")
            self.run.fired(f"fault:user_fn_sets_undef:{which}")
            blk.set_output(edzed.UNDEF)
        elif act != 'leave':
            raise PlanError(f"unknown act {act}")
        for em in spec.get('emit', ()):
            if em.get('pos') != 'pre':
                self.emit(blk, which, em)

    def emit(self, blk, which, em):
        ev = blk.x_events.get((which, em['dest'], em['etype']))
        if ev is None:
            raise PlanError('emission without event object')
        self.rec('emit', blk.name, r=which, dest=em['dest'], et=em['etype'])
        self.emitting.append((blk.name, which, bool(em.get('catch'))))
        try:
            ev.send(blk, value=f"ev:{blk.name}:{which}")
        except Exception as err:
            if em.get('catch'):
                self.rec('emit-swallowed', blk.name, r=which, dest=em['dest'],
                         exc=type(err).__name__)
                # (the delivery may have aborted the simulation: failing handler, recursion)
                self.causes.append(f"emit-swallowed:{blk.name}:{which}:{type(err).__name__}")
                return
            self.rec('emit-exc', blk.name, r=which, dest=em['dest'], exc=type(err).__name__)
            if which in ('regular', 'ifv'):
                self.causes.append(f"emit-exc:{blk.name}:{which}")
            raise
        finally:
            self.emitting.pop()

    # ---- event handlers of the probes
    def handler(self, blk, etype, value, source):
        name = blk.name
        self.rec('h', name, et=etype, src=source, nest=self.nest[name], init=blk.is_initialized())
        if etype == 'boom':
            self.causes.append(f"handler-raise:{name}")
            src = self.plan_kinds.get(source)
            if src == 'cblock' and self.calc_fault is None:
                # an output event of a combinational block: this is the first evaluation
                self.calc_fault = source
            self.run.fired('fault:user_fn_raises:event_handler')
            raise Injected(f"handler of {name}")
        if etype == 'put':
            blk.set_output(value if value is not None else f"put:{name}")
        echo = blk.x_echo.get(source)
        if echo is not None and (name, source) not in self.echoed:
            self.echoed.add((name, source))
            echo.send(blk, value=f"echo:{name}")
        return etype

    # ---- observation of event deliveries (all SBlocks)
    def hook(self, phase, blk, etype, payload):
        name = blk.name
        if phase == 'pre':
            self.evdepth[name] += 1
            src = payload.get('source')
            self.last_src[name] = src
            self.rec('ep', name, et=canon(etype), src=src, init=blk.is_initialized())
            self.delivered[name].append(src)
        else:
            self.evdepth[name] -= 1
            self.rec('eo', name, et=canon(etype), out='ok' if phase == 'post' else 'exc',
                     init=blk.is_initialized(),
                     exc=type(payload).__name__ if phase == 'exc' else None)


def make_probe_class(has_async, has_ifv, has_stop):
    ns = {}

    def _restore_state(self, state, /):
        self.x_ctx.sync_routine(self, 'restore')
    ns['_restore_state'] = _restore_state

    def init_regular(self):
        self.x_ctx.sync_routine(self, 'regular')
    ns['init_regular'] = init_regular
    if has_ifv:
        def init_from_value(self, value, /):
            self.x_ctx.sync_routine(self, 'ifv')
        ns['init_from_value'] = init_from_value
    if has_async:
        async def init_async(self):
            await self.x_ctx.async_routine(self)
        ns['init_async'] = init_async
    if has_stop:
        async def stop_async(self):
            await asyncio.sleep(self.x_spec['stop_async']['dur'])
        ns['stop_async'] = stop_async

    def _event_put(self, *, value=None, source=None, **_data):
        return self.x_ctx.handler(self, 'put', value, source)

    def _event_nop(self, *, value=None, source=None, **_data):
        return self.x_ctx.handler(self, 'nop', value, source)

    def _event_boom(self, *, value=None, source=None, **_data):
        return self.x_ctx.handler(self, 'boom', value, source)
    ns.update(_event_put=_event_put, _event_nop=_event_nop, _event_boom=_event_boom)
    return type(f"InitProbe{int(has_async)}{int(has_ifv)}{int(has_stop)}",
                (edzed.AddonPersistence, edzed.AddonAsync, edzed.SBlock), ns)


PROBE_CLASSES = {(a, i, s): make_probe_class(a, i, s)
                 for a in (False, True) for i in (False, True) for s in (False, True)}


class MiniFSM(edzed.FSM):
    STATES = ['a', 'b']
    EVENTS = [['go', ['a'], 'b'], ['back', ['b'], 'a']]


INIT_FILTER = getattr(edzed, 'NotIfInitialized', None) or getattr(edzed, 'IfNotIitialized', None)


# --------------------------------------------------------------------------- build

def build(ctx, plan, order, storage):
    blocks = plan['blocks']
    names = [b['name'] for b in blocks]
    if len(set(names)) != len(names):
        raise PlanError('duplicate names')
    by_name = {b['name']: b for b in blocks}
    sblock_kinds = ('probe', 'input', 'vpoll', 'initasync', 'timer', 'fsm', 'repeat', 'oasync')

    def need(name, kinds):
        b = by_name.get(name)
        if b is None or b['kind'] not in kinds:
            raise PlanError(f"dangling reference {name}")
        return name

    def put_events(dests):
        return [edzed.Event(need(d, ('probe', 'input')), 'put') for d in dests]

    def mk_vpfunc(b):
        name = b['name']
        calls = {'n': 0}

        def result():
            n = calls['n']
            if n <= b.get('undef_calls', 0):
                return edzed.UNDEF
            val = f"v{n}:{name}"
            ctx.vp_last[name] = val
            ctx.rec('vp-value', name, value=val)
            return val
        if b.get('async'):
            async def afunc():
                calls['n'] += 1
                if calls['n'] == 1 and b.get('first_delay'):
                    await asyncio.sleep(b['first_delay'])
                return result()
            return afunc

        def func():
            calls['n'] += 1
            return result()
        return func

    def mk_iacoro(b):
        name = b['name']

        async def coro():
            try:
                d = b.get('d')
                if d == 'never':
                    await asyncio.sleep(1e6)
                elif d is not None:
                    await asyncio.sleep(d)
            except asyncio.CancelledError:
                ctx.iac[name] = 'cancel'
                raise
            res = b.get('result', 'ok')
            ctx.iac[name] = res
            ctx.rec('iac', name, out=res)
            if res == 'raise':
                raise Injected(f"init_coro of {name}")
            if res == 'undef':
                return edzed.UNDEF
            return f"res:{name}"
        return coro

    def mk_calc(b):
        name = b['name']
        calls = {'n': 0}

        def func(*args):
            calls['n'] += 1
            if calls['n'] == 1 and b['mode'] in ('raise1', 'undef1'):
                ctx.calc_fault = name
                ctx.causes.append(f"calc-{b['mode']}:{name}")
                ctx.run.fired('fault:user_fn_raises:calc_output')
                ctx.rec('calc-fault', name, mode=b['mode'])
                if b['mode'] == 'raise1':
                    raise Injected(f"calc_output of {name}")
                return edzed.UNDEF
            return f"c:{name}"      # constant: feedback through output events cannot oscillate
        return func

    async def ocoro(value):
        return value

    made = {}
    try:
        for idx in order:
            b = blocks[idx]
            kind, name = b['kind'], b['name']
            if kind == 'probe':
                a, i, s = b.get('async'), b.get('ifv'), b.get('stop_async')
                cls = PROBE_CLASSES[(a is not None, i is not None, s is not None)]
                kw = {}
                if a is not None:
                    kw['init_timeout'] = a['T']
                if i is not None and i.get('initdef'):
                    kw['initdef'] = f"initdef:{name}"
                if s is not None:
                    kw['stop_timeout'] = s['timeout']
                p = b.get('persist')
                if p is not None:
                    kw['persistent'] = True
                events = {}
                echo_wanted = []
                for rkey, which in (('persist', 'restore'), ('async', 'async'),
                                    ('regular', 'regular'), ('ifv', 'ifv')):
                    sp = b.get(rkey)
                    for em in (sp or {}).get('emit', ()):
                        need(em['dest'], tuple(ACCEPTS))
                        key = (which, em['dest'], em['etype'])
                        if key not in events:
                            events[key] = edzed.Event(em['dest'], em['etype'])
                        if em.get('echo'):
                            echo_wanted.append(em['dest'])
                if b.get('on_output'):
                    kw['on_output'] = put_events(b['on_output'])
                blk = cls(name, x_ctx=ctx, x_spec=b, x_events=events, x_echo={}, x_kind='probe', **kw)
                blk.x_echo_wanted = echo_wanted
                if p is not None and p.get('stored'):
                    storage[blk.key] = f"stored:{name}"
            elif kind == 'input':
                kw = {}
                if b.get('initdef'):
                    kw['initdef'] = f"initdef:{name}"
                if b.get('persist') is not None:
                    kw['persistent'] = True
                if b.get('on_output'):
                    kw['on_output'] = put_events(b['on_output'])
                blk = edzed.Input(name, x_kind='input', **kw)
                if b.get('persist') and b['persist'].get('stored'):
                    storage[blk.key] = f"stored:{name}"
            elif kind == 'vpoll':
                kw = {}
                if b.get('initdef'):
                    kw['initdef'] = _idv(b, name)
                if b.get('on_output'):
                    kw['on_output'] = put_events(b['on_output'])
                blk = edzed.ValuePoll(name, func=mk_vpfunc(b), interval=b['interval'],
                                      init_timeout=b['T'], x_kind='vpoll', **kw)
            elif kind == 'initasync':
                kw = {}
                if b.get('initdef'):
                    kw['initdef'] = _idv(b, name)
                    if 'initdef_val' in b:
                        ctx.run.fired('reach:falsy_initdef')
                if b.get('dest'):
                    need(b['dest'], ('probe', 'input'))
                    filt = None
                    if b.get('filter') and INIT_FILTER is not None:
                        filt = INIT_FILTER(b['dest'])
                    kw['on_output'] = edzed.Event(b['dest'], 'put', efilter=filt)
                blk = edzed.InitAsync(name, init_coro=[mk_iacoro(b)], init_timeout=b['T'],
                                      x_kind='initasync', **kw)
            elif kind == 'timer':
                kw = {}
                if b.get('initdef'):
                    kw['initdef'] = b['initdef']
                if b.get('persist') is not None:
                    kw['persistent'] = True
                blk = edzed.Timer(name, x_kind='timer', **kw)
                if b.get('persist') and b['persist'].get('stored'):
                    storage[blk.key] = [b['persist']['state'], None, {}]
            elif kind == 'fsm':
                kw = {}
                if b.get('initdef'):
                    kw['initdef'] = b['initdef']
                if b.get('persist') is not None:
                    kw['persistent'] = True
                if b.get('enter_a'):
                    kw['on_enter_a'] = put_events(b['enter_a'])
                if b.get('enter_b'):
                    kw['on_enter_b'] = put_events(b['enter_b'])
                blk = MiniFSM(name, x_kind='fsm', **kw)
                if b.get('persist') and b['persist'].get('stored'):
                    storage[blk.key] = [b['persist']['state'], None, {}]
            elif kind == 'cblock':
                ins = []
                for inp in b['inputs']:
                    if isinstance(inp, dict):
                        val = inp.get('const')      # a string would be a block name
                        ins.append(edzed.Const(val) if isinstance(val, str) else val)
                        continue
                    ref = inp[5:] if inp.startswith('_not_') else inp
                    if ref not in by_name:
                        raise PlanError(f"dangling input {inp}")
                    ins.append(inp)
                kw = {}
                if b.get('on_output'):
                    kw['on_output'] = [edzed.Event(need(d, ('probe',)), b.get('out_etype', 'put'))
                                       for d in b['on_output']]
                blk = edzed.FuncBlock(name, func=mk_calc(b), x_kind='cblock', **kw)
                if ins:
                    blk.connect(*ins)
                if not any(isinstance(i, str) for i in b['inputs']):
                    ctx.run.fired('reach:cblock_without_block_inputs')
            elif kind == 'repeat':
                blk = edzed.Repeat(name, dest=need(b['dest'], ('probe', 'input')), etype='put',
                                   interval=1.0, x_kind='repeat')
            elif kind == 'counter':
                blk = edzed.Counter(name, persistent=True, x_kind='counter',
                                    on_output=put_events(b.get('on_output', [])))
                if b.get('stored'):
                    storage[blk.key] = 5
            elif kind == 'oasync':
                blk = edzed.OutputAsync(name, coro=ocoro, mode='wait', on_error=None,
                                        stop_timeout=2.0, x_kind='oasync')
            else:
                raise PlanError(f"unknown kind {kind}")
            made[name] = blk
        # echo events (receiver -> emitter), created when all names are known
        for name, blk in made.items():
            for dest in getattr(blk, 'x_echo_wanted', ()):
                made[dest].x_echo[name] = edzed.Event(name, 'put')
    except PlanError:
        raise
    except Exception as err:
        raise PlanError(f"build failed: {type(err).__name__}: {err}") from None
    return made


def instrument(ctx, made, circuit):
    """Pass-through observers (instance attributes) on the blocks."""
    for blk in list(circuit.getblocks(edzed.SBlock)):
        if not hasattr(blk, 'x_kind'):
            blk.x_kind = 'auto'
        fsmlib.hook_events(blk, ctx.hook)
        if blk.x_kind in ('probe', 'auto'):
            continue
        orig_set = blk.set_output

        def set_output(value, blk=blk, orig_set=orig_set):
            ctx.sets[blk.name].append(value)
            orig_set(value)
            ctx.rec('set', blk.name, init=blk.is_initialized())
        blk.set_output = set_output
        if blk.x_kind in ('vpoll', 'initasync'):
            orig_ia = blk.init_async

            async def init_async(blk=blk, orig_ia=orig_ia):
                ctx.rec('rb', blk.name, r='async', forced=False, init=blk.is_initialized())
                try:
                    await orig_ia()
                except asyncio.CancelledError:
                    term = circuit.error is not None
                    ctx.rec('re', blk.name, r='async', out='cancel-term' if term else 'cancel',
                            init=blk.is_initialized())
                    raise
                except Exception as err:
                    ctx.rec('re', blk.name, r='async', out='exc', init=blk.is_initialized(),
                            exc=type(err).__name__)
                    raise
                ctx.rec('re', blk.name, r='async', out='ok', init=blk.is_initialized())
            blk.init_async = init_async


def make_specs(plan):
    specs = {}
    for b in plan['blocks']:
        k = b['kind']
        if k == 'probe':
            p, a, i = b.get('persist'), b.get('async'), b.get('ifv')
            specs[b['name']] = {
                'persist_avail': bool(p and p.get('stored')),
                'has_async': a is not None, 'T': float(a['T']) if a else 0.0,
                'has_ifv': i is not None, 'initdef': bool(i and i.get('initdef')),
                'sentinel': bool(b.get('sentinel')), 'lib': False}
        elif k in ('vpoll', 'initasync'):
            specs[b['name']] = {'persist_avail': False, 'has_async': True, 'T': float(b['T']),
                                'has_ifv': True, 'initdef': bool(b.get('initdef')),
                                'sentinel': False, 'lib': True}
    return specs


# --------------------------------------------------------------------------- one permutation

def permutation(n, seed):
    order = list(range(n))
    if seed is not None:
        random.Random(seed).shuffle(order)
    return order


def run_perm(plan, order, pidx):
    run = Run(plan['knobs'])
    ctx = Ctx(run, plan)
    out = {'verdict': None, 'interleaving': None, 'beh': None}
    try:
        loop = run.loop
        storage = SimStorage(clock=lambda: loop._ns)
        made = build(ctx, plan, order, storage)
        circuit = edzed.get_circuit()
        ctx.circuit = circuit
        ctx.blocks = made
        circuit.set_persistent_data(storage)
        instrument(ctx, made, circuit)
        specs = make_specs(plan)
        all_T = [sp['T'] for sp in specs.values() if sp['has_async'] and sp['T'] > 0]
        horizon = max(all_T + [0.0]) + 1.0
        has_astop = any(b['kind'] in ('repeat', 'oasync', 'vpoll')
                        or (b['kind'] == 'probe' and b.get('stop_async')
                            and b['stop_async']['timeout'] > 0)
                        for b in plan['blocks'])
        info = {'simtask': None, 'waiters': [], 'verdict': None, 'final_undef': None}

        def snapshot():
            undef = sorted(blk.name for blk in circuit.getblocks() if blk.output is edzed.UNDEF)
            return undef, circuit.is_ready(), circuit.error, info['simtask'].done()

        async def waiter(w, wid, label):
            rec = {'id': wid, 'label': label, 'outcome': 'pending', 'started_ns': loop._ns}
            info['waiters'].append(rec)
            try:
                await circuit.wait_init()
            except asyncio.CancelledError:
                rec['outcome'] = 'cancelled'
                ctx.rec('waiter', f"w{wid}", out='cancelled', label=label)
                raise
            except edzed.EdzedInvalidState as err:
                rec['outcome'] = 'refused'
                rec['snap'] = snapshot()
                ctx.rec('waiter', f"w{wid}", out='refused', label=label, msg=str(err)[:60])
                return
            except Exception as err:    # pylint: disable=broad-except
                rec['outcome'] = 'error'
                rec['exc'] = f"{type(err).__name__}: {err}"
                ctx.rec('waiter', f"w{wid}", out='error', label=label, exc=type(err).__name__)
                return
            rec['outcome'] = 'returned'
            undef, ready, err, simdone = rec['snap'] = snapshot()
            ctx.rec('waiter', f"w{wid}", out='returned', label=label, undef=undef, ready=ready,
                    error=err, simdone=simdone)
            if undef or not ready or err is not None or simdone:
                if err is not None and ctx.calc_fault is not None:
                    site = 'first-evaluation-failed'
                elif err is not None:
                    site = 'error-set'
                elif undef:
                    site = 'undef-output'
                else:
                    site = 'not-ready'
                run.violate(
                    f"C05/wait-init-returned/{site}",
                    f"wait_init() (caller {label}) returned normally although "
                    f"error={err!r}, is_ready()={ready}, simulation task done={simdone}, "
                    f"UNDEF outputs={undef}; async-stop block present={has_astop}")
            else:
                check_library_outputs(run, ctx, plan, made, label)

        tasks = []

        def start_waiter(w, wid, label):
            t = loop.create_task(waiter(w, wid, label))
            tasks.append(t)
            if w.get('cancel') is not None:
                run.at(run.now() + w['cancel'], t.cancel)
                run.fired('reach:waiter_cancel_planned')
            return t

        def do_ext(e):
            blk = made.get(e['blk'])
            if blk is None:
                raise PlanError('ext event to a missing block')
            in_async = any(x['k'] == 'rb' and x['r'] == 'async' for x in ctx.log) and not any(
                x['k'] == 'rb' and x['r'] == 'regular' and not x['forced'] for x in ctx.log)
            try:
                res = edzed.ExtEvent(blk, e['etype']).send(f"ext:{e['blk']}")
                ctx.rec('ext', e['blk'], et=e['etype'], res=canon(res))
                if in_async:
                    run.fired('reach:ext_event_during_async_phase')
            except edzed.EdzedInvalidState:
                ctx.rec('ext', e['blk'], et=e['etype'], res='refused')
            except Exception as err:    # pylint: disable=broad-except
                ctx.rec('ext', e['blk'], et=e['etype'], res=f"exc:{type(err).__name__}")

        async def main():
            simtask = asyncio.create_task(circuit.run_forever())
            info['simtask'] = simtask
            wl = plan['waiters']
            for wid, w in enumerate(wl):
                if w['at'] == 'create':
                    start_waiter(w, wid, 'create')
            await asyncio.sleep(0)
            for wid, w in enumerate(wl):
                if w['at'] == 'yield':
                    start_waiter(w, wid, 'yield')
                elif w['at'] != 'create':
                    if not isinstance(w['at'], (int, float)):
                        raise PlanError('bad waiter')
                    run.at(w['at'], start_waiter, w, wid, 'timed')
            for e in plan['ext']:
                run.at(e['t'], do_ext, e)
            await asyncio.wait([simtask], timeout=horizon)
            failed = simtask.done() or circuit.error is not None
            info['verdict'] = 'failure' if failed else 'success'
            ctx.rec('verdict', '', verdict=info['verdict'], error=circuit.error)
            if failed:
                await asyncio.wait([simtask], timeout=3.0)
                info['task_done_after_failure'] = simtask.done()
            else:
                await asyncio.sleep(0.01)
            # a late caller
            late = start_waiter({'cancel': None}, len(wl), 'late')
            await asyncio.wait([late], timeout=1.0)
            info['final_undef'] = snapshot()
            for rec in info['waiters']:
                rec['final'] = rec['outcome']   # (the shutdown below releases everybody)
            try:
                await circuit.shutdown()
            except (Exception, asyncio.CancelledError):     # pylint: disable=broad-except
                pass
            for t in tasks:
                if not t.done():
                    t.cancel()

        run.run(main())
        if isinstance(run.main_exc, PlanError):
            raise run.main_exc
        if run.main_exc is not None and run.harness_error is None:
            run.harness_error = f"main raised {type(run.main_exc).__name__}: {run.main_exc}"
        if run.harness_error is None and info['verdict'] is not None:
            judge(run, ctx, plan, specs, made, info, has_astop, out)
        res = run.result()
        out.update(res=res, trace=run.trace, verdict=info['verdict'])
        return out
    finally:
        run.close()


def _gen_idv(rng):
    """A third of the initdef values of ValuePoll/InitAsync are falsy (valid outputs all the same)."""
    if rng.random() < 0.35:
        return {'initdef_val': rng.choice([0, False, '', 0.0])}
    return {}


def _idv(b, name):
    return b['initdef_val'] if 'initdef_val' in b else f"initdef:{name}"


def check_library_outputs(run, ctx, plan, made, label):
    """(d) outputs of library blocks when wait_init() has just returned normally."""
    for b in plan['blocks']:
        name = b['name']
        blk = made[name]
        if b['kind'] == 'vpoll':
            want = ctx.vp_last.get(name)
            if want is None:
                want = _idv(b, name) if b.get('initdef') else None
                if want is not None:
                    run.fired('reach:vpoll_initdef_after_timeout')
            else:
                run.fired('reach:vpoll_value_in_time')
            if want is not None and blk.output != want:
                run.violate('C05/source/valuepoll',
                            f"{name}: output {blk.output!r} when wait_init() returned ({label}); "
                            f"expected {want!r} (last acquired value, else initdef)")
        elif b['kind'] == 'initasync':
            res = ctx.iac.get(name)
            if res == 'ok':
                want = f"res:{name}"
                run.fired('reach:initasync_result')
            else:
                want = _idv(b, name) if b.get('initdef') else None
                run.fired('reach:initasync_failed')
            if blk.output != want or type(blk.output) is not type(want):
                run.violate('C05/source/initasync',
                            f"{name}: output {blk.output!r} when wait_init() returned ({label}); "
                            f"coroutine outcome {res}, expected {want!r}")
            dest = b.get('dest')
            if dest:
                n = ctx.delivered[dest].count(name)
                if want is None and n:
                    run.violate('C05/source/initasync-event',
                                f"{name}: coroutine failed and no initdef, yet {n} output event(s) "
                                f"were sent to {dest}")
                if want is not None and n > 1:
                    run.violate('C05/source/initasync-event',
                                f"{name}: {n} output events sent to {dest}")
                if want is not None and n == 0:
                    if b.get('filter') and INIT_FILTER is not None:
                        run.fired('reach:initasync_event_filtered')
                    else:
                        run.violate('C05/source/initasync-event',
                                    f"{name}: output {want!r} set but no output event reached {dest}")
        elif b['kind'] == 'input':
            sets = ctx.sets.get(name, [])
            stored = bool(b.get('persist') and b['persist'].get('stored'))
            own = {f"stored:{name}", f"initdef:{name}"}
            first = f"stored:{name}" if stored else (f"initdef:{name}" if b.get('initdef') else None)
            msg = None
            if first is not None and (not sets or sets[0] != first):
                msg = f"first value must come from {first!r}; values set: {sets}"
            elif [v for v in sets[1:] if v in own] or (first is None and sets and sets[0] in own):
                msg = f"own source applied when already initialised; values set: {sets}"
            elif sets and blk.output != sets[-1]:
                msg = f"output {blk.output!r} is not the last value set {sets[-1]!r}"
            if msg:
                run.violate('C05/source/input', f"{name}: {msg}")


# --------------------------------------------------------------------------- verdict

def judge(run, ctx, plan, specs, made, info, has_astop, out):
    knobs = run.knobs
    slack_early = 1_000 + knobs['cost_ns'] * 40
    slack_late = 1_000 + knobs['latency_ns'] * 4 + knobs['cost_ns'] * 400
    viol, facts, minfo = init_model.analyse(ctx.log, specs, slack_early_ns=slack_early,
                                            slack_late_ns=slack_late)
    for clause, msg in viol:
        run.violate(f"C05/{clause}", msg)
    for key, n in facts.items():
        run.fired(f"reach:{key}", n)
    verdict = info['verdict']
    undef, ready, err, simdone = info['final_undef']
    circuit = ctx.circuit
    sblock_undef = [n for n in undef if isinstance(circuit.findblock(n), edzed.SBlock)]
    log = ctx.log
    # blocks that got their first valid output only after the simulator had registered its
    # error (e.g. a ValuePoll whose first value arrives during the clean-up) were
    # uninitialised when the start-up failed
    first_init = {}
    for e in log:
        if e.get('init') and e['k'] in ('re', 'eo', 'set') and e['b'] not in first_init:
            first_init[e['b']] = e
    sblock_undef += sorted(n for n, e in first_init.items() if e['err'] and n not in sblock_undef)
    regular_missing = [n for n, sp in specs.items() if not sp['lib']
                       and not any(e['k'] == 'rb' and e['b'] == n and e['r'] == 'regular' for e in log)]
    # ---- (b) the callers of wait_init()
    for rec in info['waiters']:
        lab = rec['label']
        rec['outcome'] = rec.get('final', rec['outcome'])
        if rec['outcome'] == 'error':
            run.violate('C05/wait-init-raised/wrong-exception',
                        f"wait_init() ({lab}) raised {rec['exc']} instead of EdzedInvalidState")
        elif rec['outcome'] == 'pending':
            run.violate(f"C05/wait-init-never-returned/{verdict}",
                        f"wait_init() ({lab}) still pending although the start-up verdict is {verdict}")
        elif rec['outcome'] == 'refused':
            run.fired('reach:waiter_refused')
            if verdict == 'success':
                run.violate('C05/wait-init-raised/although-running',
                            f"wait_init() ({lab}) raised EdzedInvalidState, the simulation runs fine")
        elif rec['outcome'] == 'returned':
            if verdict == 'failure' and not any(v[0].startswith('C05/wait-init-returned')
                                                for v in run.violations):
                run.violate('C05/wait-init-returned/startup-failed',
                            f"wait_init() ({lab}) returned normally, but the start-up failed: {err!r}")
        elif rec['outcome'] == 'cancelled':
            run.fired('reach:waiter_cancelled')
        if lab == 'late' and rec['outcome'] in ('returned', 'refused'):
            run.fired('reach:waiter_late')
        if lab == 'timed' and rec['outcome'] in ('returned', 'refused'):
            t_rel = rec['started_ns'] - knobs['origin_ns']
            ab = [e for e in log if e['k'] == 'rb' and e['r'] == 'async']
            ae = [e for e in log if e['k'] == 're' and e['r'] == 'async']
            if ab and ab[0]['t'] <= t_rel and (not ae or t_rel <= max(e['t'] for e in ae)):
                run.fired('reach:waiter_mid_async')
    # ---- (c) consistency of the verdict
    # an init_regular / init_from_value that raised: the block cannot be initialised, the
    # start-up must fail - whoever ran the routine (the simulator, or an event that made the
    # synchronous steps run early) and whatever the sender of that event does with exceptions
    for e in log:
        if not (e['k'] == 're' and e['r'] in ('regular', 'ifv') and e['out'] == 'exc'):
            continue
        rb = next(x for x in log if x['k'] == 'rb' and x['b'] == e['b'] and x['r'] == e['r'])
        trig = rb.get('trig')
        run.fired('reach:init_routine_raised')
        if not rb['forced']:
            how = 'by-simulator'
        else:
            how = 'early-by-event'
            swallowing = bool(trig) and (trig[1] == 'counter' or (
                len(trig) > 2 and (trig[2] == 'restore' or trig[3])))
            if swallowing:
                how = 'early-by-event-from-swallowing-sender'
                run.fired('reach:init_raise_early_swallowing_sender')
            run.fired('reach:init_raise_early_by_event')
        if verdict == 'success':
            run.violate(
                f"C05/init-routine-raised-but-started/{e['r']}/{how}",
                f"{e['b']}: {'init_regular' if e['r'] == 'regular' else 'init_from_value'} raised "
                f"{e.get('exc')} ({how}, trigger {trig}), output valid={e['b'] not in undef}; "
                "the start-up succeeded and wait_init() returned normally")
            break
    if verdict == 'success':
        run.fired('reach:startup_success')
        if undef or not ready or err is not None or simdone:
            run.violate('C05/running-but-invalid',
                        f"after the start-up: UNDEF={undef}, is_ready()={ready}, error={err!r}")
        if ctx.calc_fault is not None:
            run.violate('C05/first-evaluation-failed-but-running',
                        f"FuncBlock {ctx.calc_fault} failed in the first evaluation, the simulation "
                        "keeps running")
        if regular_missing:
            run.violate('C05/regular-not-run',
                        f"start-up succeeded but init_regular was never called for {regular_missing}")
    else:
        run.fired('reach:startup_failure')
        if not info.get('task_done_after_failure'):
            run.violate('C05/failed-but-task-alive',
                        f"error {err!r} is set, the simulation task did not end within 3 s")
        if ctx.calc_fault is not None:
            run.fired('reach:failure_first_evaluation')
            if has_astop:
                run.fired('reach:first_eval_fail_with_async_stop')
        if not ctx.causes and not sblock_undef:
            run.violate('C05/spurious-failure',
                        f"the start-up failed with {err!r} although no routine, handler or function "
                        "raised and every sequential block is initialised")
        if not ctx.causes and sblock_undef:
            run.fired('reach:failure_uninitialized')
            if regular_missing:
                run.violate('C05/failed-before-all-sources',
                            f"start-up failed for uninitialised {sblock_undef} although the "
                            f"initialisation of {regular_missing} (possible event sources) was "
                            "not run yet")
    # ---- reach: events during the asynchronous phase, event-only blocks
    a_open = 0
    for e in log:
        if e['k'] == 'rb' and e['r'] == 'async':
            a_open += 1
        elif e['k'] == 're' and e['r'] == 'async':
            a_open -= 1
        elif e['k'] == 'h' and a_open > 0 and e['s'] > (minfo['s1'] or 0):
            run.fired('reach:event_during_async_phase')
    for b in plan['blocks']:
        if b['kind'] == 'probe' and not b.get('sentinel') and verdict == 'success':
            nm = b['name']
            own = any(e['k'] == 're' and e['b'] == nm and e['init'] for e in log)
            if not own:
                run.fired('reach:event_only_block_initialized')
        a = b.get('async') if b['kind'] == 'probe' else (b if b['kind'] == 'initasync' else None)
        if a and a['T'] > 0 and a.get('d') == a['T'] and any(
                e['k'] == 'rb' and e['b'] == b['name'] and e['r'] == 'async' for e in log):
            run.fired('reach:async_tie_at_timeout')     # routine ends in the instant of its time-out
    # ---- interleaving signature (for the metamorphic comparison) and behaviour
    inter = []
    seen_vp = set()
    for e in log:
        if e['k'] == 're' and e['r'] == 'async':
            inter.append(('async', e['b'], e['out']))
        elif e['k'] == 'ext':
            inter.append(('ext', e['b'], e['res'] if e['res'] == 'refused' else 'sent'))
        elif e['k'] == 'vp-value' and e['b'] not in seen_vp:
            seen_vp.add(e['b'])
            inter.append(('vp', e['b']))
        elif e['k'] == 'iac':
            inter.append(('iac', e['b'], e['out']))
        elif minfo['i2'] is not None and e['i'] == minfo['i2']:
            inter.append(('sync2',))
    out['interleaving'] = inter
    seqs = collections.defaultdict(list)
    for e in log:
        if e['k'] == 'rb':
            seqs[e['b']].append(f"{e['r']}{'!' if e['forced'] else ''}")
        elif e['k'] == 're':
            seqs[e['b']].append(f"/{e['out']}{'+' if e['init'] else '-'}")
        elif e['k'] == 'h':
            seqs[e['b']].append(f"h:{e['et']}:{min(e['nest'], 1)}")
    out['beh'] = [sorted(b['kind'] for b in plan['blocks']), verdict,
                  sorted((n, s) for n, s in seqs.items()),
                  sorted((r['label'], r['outcome']) for r in info['waiters'])]
    out['nontrivial'] = bool(
        any(e['k'] == 'rb' and e['r'] == 'async' for e in log)
        or any(e['k'] == 'ep' and e['src'] is not None for e in log)
        or verdict == 'failure')


# --------------------------------------------------------------------------- execute

def execute(plan, trace=False):
    try:
        blocks = plan['blocks']
        seeds = plan['perm_seeds']
        n = len(blocks)
        if not blocks or not seeds:
            raise PlanError('empty plan')
    except (KeyError, TypeError) as err:
        raise PlanError(f"malformed plan: {err}") from None
    outs = []
    orders = []
    for pidx, seed in enumerate(seeds):
        order = permutation(n, seed)
        if order in orders:
            continue
        orders.append(order)
        outs.append(run_perm(plan, order, pidx))
    # ---- combine
    violations = []
    stats = collections.Counter()
    full_trace = []
    harness = None
    steps = 0
    sim_seconds = 0.0
    for pidx, out in enumerate(outs):
        res = out['res']
        for v in res['violations']:
            if v[0] not in [x[0] for x in violations]:
                violations.append([v[0], f"[creation order {orders[pidx]}] {v[1]}"])
        stats.update(res['stats'])
        harness = harness or res['harness_error']
        steps += res['steps']
        sim_seconds += res['sim_seconds']
        full_trace.append([pidx, 'order', orders[pidx]])
        full_trace.extend(out['trace'])
    # ---- (e) metamorphic: the verdict does not depend on the creation order
    verdicts = [o['verdict'] for o in outs]
    if harness is None and len(outs) > 1 and None not in verdicts:
        if len(set(verdicts)) > 1:
            ref = outs[0]
            for pidx, o in enumerate(outs[1:], start=1):
                if o['verdict'] == ref['verdict']:
                    continue
                if o['interleaving'] == ref['interleaving']:
                    names = [b['name'] for b in blocks]
                    violations.append([
                        'C05/creation-order/verdict-differs',
                        f"start-up verdict {ref['verdict']} with creation order "
                        f"{[names[i] for i in orders[0]]}, but {o['verdict']} with "
                        f"{[names[i] for i in orders[pidx]]} (same knobs, same interleaving of "
                        "asynchronous happenings)"])
                    full_trace.append(['VIOLATION', 'C05/creation-order/verdict-differs', pidx])
                    break
                stats['perm_verdict_differs_interleaving_differs'] += 1
        else:
            stats['reach:perm_verdicts_compared'] += 1
            if verdicts[0] == 'failure':
                stats['reach:perm_verdicts_compared_failure'] += 1
    digest = hashlib.sha256(
        json.dumps(full_trace, sort_keys=True, default=str).encode()).hexdigest()
    beh = None
    if any(o.get('nontrivial') for o in outs):
        beh = hashlib.sha256(json.dumps(canon([o['beh'] for o in outs]),
                                        sort_keys=True).encode()).hexdigest()[:16]
    res = {'violations': violations[:20], 'harness_error': harness, 'digest': digest,
           'behaviour': beh, 'stats': dict(stats), 'steps': steps, 'sim_seconds': sim_seconds,
           'trace_len': len(full_trace)}
    if trace:
        res['trace'] = full_trace
    return res
