"""
C20 - Counter arithmetic is exact and stays within the modulo range.

Real code: edzed.Counter in a running circuit on the virtual loop; events arrive externally
(ExtEvent) and from another block (Event sent by a Sender block); optional persistent storage
(SimStorage) with pre-stored / tampered out-of-range values and a real restart (second
simulation from the storage the first one left behind, possibly with a changed modulo).
Oracle: models/counter_model.py (exact rational accumulator), predictive, stepped event by
event: return value, output, range; put without value / unknown event: reported to the caller,
counter unchanged, simulation still running and the next event works; modulo 0 refused.

Sensitivity (quick tier against a mutated scratch copy of /repo; "caught" = exit 1):

  mutant                                                         result   first signature
  M1 dec adds (DESIGN)                                           caught   C20/wrong-return
  M2 reset uses the unreduced initdef (DESIGN)                   caught   C20/out-of-range
  M3 restore bypasses the modulo (DESIGN)                        caught   C20/initial-value/restored
  M4 init_from_value bypasses the modulo (initdef unreduced)     caught   C20/initial-value/initdef
  M5 modulo == 0 check removed                                   caught   C20/modulo-zero-accepted
  M6 put reduces only when value >= M (negative values kept)     caught   C20/out-of-range
  M7 inc ignores 'amount' when the counter is at 0               caught   C20/wrong-return
  M8 events return the value before the reduction                caught   C20/wrong-return
  M9 put(value=None default) -> a missing value stores None      caught   C20/missing-value-not-reported
  M10 reduction with int(): output % int(mod) for float modulo   caught   C20/wrong-return
  M11 restore also overwrites initdef (a later 'reset' returns   caught   C20/wrong-return
      to the restored value; needs persistent restore + reset)
  C20-s8 (seeded) no early initialisation between the two init   caught   C20/init-event-aborted-start
      passes: 'inc' from an earlier-created block's init routine
  M12 put handler takes **data and reads data['value'] (the      caught   C20/missing-value-stopped-simulation
      KeyError is raised inside the handler -> simulation aborted)
"""

from __future__ import annotations

import asyncio
from fractions import Fraction

from simkit import seams
from simkit.runner import Run, PlanError, canon, gen_knobs
from simkit.storage import SimStorage
from models.counter_model import CounterModel, Refused, MissingValue, UnknownEvent
from checks import fsmlib

edzed = seams.install()

PROP = 'C20'
LEVEL = 'exploration'
RUNS = {'quick': 150000, 'thorough': 6000000}
CHUNK = 1000
RULE = ("one run = one Counter configuration (modulo in {None,1,2,7,10,2.5}, initdef default / "
        "inside / outside the range, persistent or not, optionally a pre-stored value) driven by "
        "1-12 events inc/dec/put/reset with and without amount (small, negative, huge integers or "
        "multiples of 0.5), puts without value, unknown events, ignored extra data items, sent "
        "externally or by another block; 35% of the persistent runs restart from the storage left "
        "behind (untouched / tampered to an out-of-range value / entry deleted), possibly with a "
        "changed modulo or initdef, and continue with 0-4 events; 25% of the simulations also "
        "receive 1-3 well-formed events while the circuit is being initialised: from the "
        "initialisation routine of a block created before the Counter, of one created after it, "
        "or from an asynchronous initialisation routine (between the two initialisation passes). "
        "Run indices 0..2903 sweep all "
        "(modulo x 4 initdefs x ordered pairs of 11 basic events), indices 2904..34847 all triples, "
        "each followed by a random tail; the rest is random. non-trivial = at least one arithmetic "
        "event was processed; distinct = hash of (modulo, initdef class, per event: kind, amount "
        "given, route, wrapped up/down/not, error kind; restart shape)")
REACH_EXPECTED = ['wrapped_up', 'wrapped_down', 'initdef_out_of_range', 'put_without_value',
                  'unknown_event', 'prestored_out_of_range', 'restart', 'restart_tampered',
                  'restart_modulo_changed', 'float_modulo', 'big_int', 'modulo_zero_refused',
                  'via_block', 'reset_after_change', 'ignored_extra_item', 'half_amount',
                  'init_event_pre', 'init_event_post', 'init_event_async',
                  'init_event_to_unrestored_counter']
ASSUMPTIONS = [
    "events sent to the Counter during the initialisation of the circuit: the Counter first "
    "completes its own initialisation (restored value, else initdef), then handles the event "
    "(docs/blocks.rst, initialization rules); order: asynchronous routines, then the regular "
    "routines in the order of block creation",
    "numbers are integers of any size, or (in 'dyadic' runs) multiples of 0.5 with magnitude "
    "below 2**40, so that Python's own arithmetic is exact and equality with the rational model "
    "is demanded without tolerance; huge integers are not combined with the float modulo 2.5 "
    "(the documentation warns about rounding errors of floats)",
    "only positive modulo values (as the property states); non-numeric values are not sent",
    "a put without value is only sent externally and directly to the Counter: sent through "
    "another block the TypeError is raised inside that block's handler, which is documented to "
    "abort the simulation",
]

MODULOS = [None, 1, 2, 7, 10, 2.5]
SWEEP_SYMS = [('inc', None), ('inc', 2), ('inc', -3), ('dec', None), ('dec', 2), ('dec', -3),
              ('put', 0), ('put', 5), ('put', -4), ('put', 12), ('reset', None)]
SWEEP_INIT = [None, 3, 12, -5]
N_PAIRS = len(MODULOS) * len(SWEEP_INIT) * len(SWEEP_SYMS) ** 2
N_TRIPLES = len(MODULOS) * len(SWEEP_INIT) * len(SWEEP_SYMS) ** 3

SMALL = [-13, -7, -3, -2, -1, 0, 1, 1, 2, 3, 5, 7, 9, 10, 11, 20, 70]
BIG = [2 ** 31, 2 ** 63, 2 ** 64 + 1, 10 ** 30, -10 ** 30, -(2 ** 63) - 1, 2 ** 200 + 17,
       -(2 ** 100), 10 ** 18 + 3]
HALVES = [0.5, 1.5, -0.5, -2.5, 2.5, 7.5, 12.5, 1000000.5, -99.5, 5.0, 2.0]


def _sym_op(sym):
    ev, arg = sym
    data = {}
    if arg is not None:
        data['value' if ev == 'put' else 'amount'] = arg
    return {'ev': ev, 'data': data, 'via': 'ext', 'yield': False}


def _number(rng, style, big_ok):
    r = rng.random()
    if style == 'dyadic' and r < 0.45:
        return rng.choice(HALVES)
    if big_ok and r > 0.8:
        return rng.choice(BIG)
    return rng.choice(SMALL)


def _gen_op(rng, style, big_ok):
    r = rng.random()
    data = {}
    if r < 0.32:
        ev = 'inc'
    elif r < 0.58:
        ev = 'dec'
    elif r < 0.82:
        ev = 'put'
    elif r < 0.95:
        ev = 'reset'
    else:
        ev = rng.choice(['bogus', 'Inc', 'add', 'get'])
    via = 'ext' if rng.random() < 0.65 else 'blk'
    if ev in ('inc', 'dec'):
        if rng.random() < 0.6:
            data['amount'] = _number(rng, style, big_ok)
        if rng.random() < 0.1:
            data['value'] = _number(rng, style, False)     # ignored item
    elif ev == 'put':
        if rng.random() < 0.12:
            via = 'ext'         # a put lacking its value
        else:
            data['value'] = _number(rng, style, big_ok)
        if rng.random() < 0.1:
            data['amount'] = _number(rng, style, False)    # ignored item
    elif ev == 'reset':
        if rng.random() < 0.3:
            data['amount'] = _number(rng, style, False)    # ignored item
        if rng.random() < 0.1:
            data['value'] = _number(rng, style, False)     # ignored item
    if rng.random() < 0.08:
        data['note'] = 'x'
    if ev not in ('inc', 'dec', 'put', 'reset'):
        via = 'ext'
    return {'ev': ev, 'data': data, 'via': via, 'yield': rng.random() < 0.3}


def _gen_init_events(rng, style, big_ok):
    """Well-formed events that reach the Counter while the circuit is being initialised."""
    out = []
    for _ in range(rng.choice([1, 1, 2, 3])):
        ev = rng.choice(['inc', 'inc', 'dec', 'dec', 'put', 'reset'])
        data = {}
        if ev in ('inc', 'dec') and rng.random() < 0.5:
            data['amount'] = _number(rng, style, big_ok)
        elif ev == 'put':
            data['value'] = _number(rng, style, big_ok)
        out.append({'route': rng.choice(['pre', 'pre', 'post', 'async']), 'ev': ev, 'data': data,
                    'delay': rng.choice([0, 0.001, 0.5, 2.0])})
    return out


def _gen_initdef(rng, modulo, style, big_ok):
    r = rng.random()
    if r < 0.3:
        return None
    if r < 0.55:        # inside the range
        if modulo is None:
            return rng.choice([0, 1, 5, -2])
        if modulo == 2.5:
            return rng.choice([0, 1, 2, 0.5, 1.5] if style == 'dyadic' else [0, 1, 2])
        return rng.randrange(int(modulo))
    return _number(rng, style, big_ok)


def gen(rng, tier, index=0):
    knobs = gen_knobs(rng, latency=False, cost=True, ties=False)
    ops = []
    sweep = None
    if index < N_PAIRS + N_TRIPLES:
        n = len(SWEEP_SYMS)
        i = index
        k = 2
        if index >= N_PAIRS:
            i = index - N_PAIRS
            k = 3
        syms = []
        for _ in range(k):
            i, s = divmod(i, n)
            syms.append(SWEEP_SYMS[s])
        i, ini = divmod(i, len(SWEEP_INIT))
        i, m = divmod(i, len(MODULOS))
        modulo = MODULOS[m]
        initdef = SWEEP_INIT[ini]
        ops = [_sym_op(s) for s in reversed(syms)]
        sweep = k
        style = 'int'
        big_ok = False
        persistent = rng.random() < 0.3
        ntail = rng.choice([0, 0, 1, 2, 4])
    else:
        modulo = rng.choice(MODULOS)
        style = 'dyadic' if (modulo == 2.5 and rng.random() < 0.7) or rng.random() < 0.2 else 'int'
        big_ok = style == 'int' and modulo != 2.5
        initdef = _gen_initdef(rng, modulo, style, big_ok)
        persistent = rng.random() < 0.5
        ntail = rng.randint(1, 12)
    for _ in range(ntail):
        ops.append(_gen_op(rng, style, big_ok))
    cfg = {'modulo': modulo, 'initdef': initdef, 'persistent': persistent,
           'sync_state': rng.random() < 0.7,
           'init_events': _gen_init_events(rng, style, big_ok) if rng.random() < 0.25 else []}
    plan = {'knobs': knobs, 'cfg': cfg, 'ops': ops, 'stored': None, 'restart': None, 'ctor': [],
            'sweep': sweep}
    if persistent and rng.random() < 0.4:
        plan['stored'] = {'value': _number(rng, style, big_ok)}
    if persistent and rng.random() < 0.35:
        cfg2 = dict(cfg)
        if rng.random() < 0.4:
            cfg2['modulo'] = rng.choice(MODULOS)
            if cfg2['modulo'] == 2.5:
                big_ok = False
        if rng.random() < 0.3:
            cfg2['initdef'] = _gen_initdef(rng, cfg2['modulo'], style, big_ok)
        cfg2['init_events'] = (_gen_init_events(rng, style, big_ok and cfg2['modulo'] != 2.5)
                               if rng.random() < 0.25 else [])
        r = rng.random()
        tamper = None
        if r < 0.45:
            tamper = {'value': _number(rng, style, big_ok)}
        elif r < 0.6:
            tamper = {'delete': True}
        if cfg2['modulo'] == 2.5 and any(
                isinstance(x, int) and abs(x) > 2 ** 40
                for x in [o['data'].get(k_) for o in ops + cfg['init_events']
                          for k_ in ('amount', 'value')]
                + [cfg['initdef'], (plan['stored'] or {}).get('value')]):
            cfg2['modulo'] = cfg['modulo']      # keep huge integers away from the float modulo
        plan['restart'] = {
            'cfg': cfg2, 'tamper': tamper, 'downtime': rng.choice([0.0, 1.5, 86400.0]),
            'ops': [_gen_op(rng, style, big_ok and cfg2['modulo'] != 2.5)
                    for _ in range(rng.randint(0, 4))]}
    if rng.random() < 0.15:
        plan['ctor'] = [{'modulo': rng.choice([0, 0.0, 0, -0.0]),
                         'initdef': rng.choice([None, 0, 5])}]
    return plan


# --------------------------------------------------------------------------- execution

class Sender(edzed.SBlock):
    """Forwards an event to the Counter through a regular block-to-block Event."""

    def init_regular(self):
        self.set_output(0)

    def _event_fire(self, *, etype, data, **_kw):
        return edzed.Event(self.x_dest, etype).send(self, **data)


class InitSender(edzed.SBlock):
    """Sends events to the Counter from its own (regular) initialisation routine."""

    def init_regular(self):
        for event, data in self.x_events:
            event.send(self, **data)
        self.set_output(0)


class AsyncInitSender(edzed.AddonAsync, edzed.SBlock):
    """Sends events to the Counter while the asynchronous initialisation is in progress."""

    async def init_async(self):
        for event, data, delay in self.x_events:
            await asyncio.sleep(delay)
            event.send(self, **data)
        self.set_output(0)


def num(x):
    """Plain number for the trace."""
    if isinstance(x, Fraction):
        return int(x) if x.denominator == 1 else float(x)
    return canon(x)


def _is_number(x):
    return isinstance(x, (int, float)) and not isinstance(x, bool)


def _check_cfg(cfg):
    if not isinstance(cfg, dict):
        raise PlanError('bad cfg')
    m = cfg.get('modulo')
    if m is not None and (not _is_number(m) or m < 0):
        raise PlanError('bad modulo')
    if cfg.get('initdef') is not None and not _is_number(cfg['initdef']):
        raise PlanError('bad initdef')


def ctor_probes(run, plan):
    """modulo = 0 must be refused when the block is created."""
    for n, probe in enumerate(plan.get('ctor') or []):
        m = probe.get('modulo')
        if not _is_number(m) or m != 0:
            raise PlanError('ctor probe: modulo must be a zero')
        kw = {'modulo': m}
        if probe.get('initdef') is not None:
            kw['initdef'] = probe['initdef']
        try:
            edzed.Counter(f"probe{n}", **kw)
        except Exception as err:    # pylint: disable=broad-except
            run.log('ctor', m, 'refused', type(err).__name__)
            run.fired('reach:modulo_zero_refused')
        else:
            run.log('ctor', m, 'accepted')
            run.violate('C20/modulo-zero-accepted',
                        f"Counter(modulo={m!r}) was created; a modulo of zero must be refused")
    edzed.reset_circuit()


def run_phase(run, tag, cfg, initial, ops, info):
    """
    One simulation: build the circuit, start, apply ops, stop.
    initial: storage content to start from (dict) or None. Returns the storage content after.
    """
    _check_cfg(cfg)
    loop = run.loop
    try:
        model = CounterModel(cfg['modulo'], 0 if cfg['initdef'] is None else cfg['initdef'])
    except Refused:
        raise PlanError('modulo 0 in the main configuration') from None
    kw = {}
    if cfg['modulo'] is not None:
        kw['modulo'] = cfg['modulo']
        if isinstance(cfg['modulo'], float):
            run.fired('reach:float_modulo')
    if cfg['initdef'] is not None:
        kw['initdef'] = cfg['initdef']
        if not model.in_range(cfg['initdef']):
            run.fired('reach:initdef_out_of_range')
    if cfg.get('persistent'):
        kw['persistent'] = True
        kw['sync_state'] = bool(cfg.get('sync_state', True))
    init_events = {'async': [], 'pre': [], 'post': []}
    for ie in cfg.get('init_events') or []:
        if (not isinstance(ie, dict) or ie.get('route') not in init_events
                or ie.get('ev') not in ('inc', 'dec', 'put', 'reset')
                or not isinstance(ie.get('data'), dict)
                or (ie['ev'] == 'put' and 'value' not in ie['data'])
                or not all(_is_number(v) for v in ie['data'].values())
                or not _is_number(ie.get('delay', 0)) or ie.get('delay', 0) < 0):
            raise PlanError('bad init event')
        init_events[ie['route']].append(ie)
    try:
        # created BEFORE the Counter: their initialisation routines run before the Counter's
        if init_events['pre']:
            InitSender('pre', x_events=[(edzed.Event('cnt', ie['ev']), dict(ie['data']))
                                        for ie in init_events['pre']])
        if init_events['async']:
            AsyncInitSender('asy', init_timeout=60.0,
                            x_events=[(edzed.Event('cnt', ie['ev']), dict(ie['data']),
                                       float(ie.get('delay', 0))) for ie in init_events['async']])
        cnt = edzed.Counter('cnt', **kw)
        sender = Sender('sender', x_dest=cnt)
        if init_events['post']:
            InitSender('post', x_events=[(edzed.Event('cnt', ie['ev']), dict(ie['data']))
                                         for ie in init_events['post']])
    except Exception as err:
        raise PlanError(f"construction failed: {type(err).__name__}: {err}") from None
    # documented initialisation order: persistent data of all blocks, asynchronous routines,
    # then the regular routines / initdef in the order of creation; a block receiving an event
    # earlier completes its own initialisation first and then handles the event
    expected_init = init_events['async'] + init_events['pre'] + init_events['post']
    circuit = edzed.get_circuit()
    storage = None
    if cfg.get('persistent'):
        storage = SimStorage(initial=initial or {}, clock=lambda: loop._ns)
        circuit.set_persistent_data(storage)
    restored = None
    if storage is not None and initial and cnt.key in initial:
        restored = initial[cnt.key]
        if not _is_number(restored):
            raise PlanError('stored value is not a number')
    state = {'result': None, 'initialising': True, 'init_log': []}

    def hook(phase, _blk, etype, arg):
        if phase != 'pre':
            state['result'] = (phase, arg)
            if state['initialising']:
                state['init_log'].append((etype, phase, arg))
    fsmlib.hook_events(cnt, hook)
    mclass = 'N' if cfg['modulo'] is None else ('F' if isinstance(cfg['modulo'], float) else 'I')

    def alive():
        return circuit.is_ready() and circuit.error is None

    def do_op(n, op):
        ev, data, via = op.get('ev'), op.get('data'), op.get('via', 'ext')
        if not isinstance(ev, str) or not ev or not isinstance(data, dict):
            raise PlanError('bad op')
        for key, val in data.items():
            if key in ('amount', 'value') and not _is_number(val):
                raise PlanError('bad number in op')
        label = f"{tag}:{n}:{ev}"
        before = cnt.output
        old = model.value
        kind = 'ok'
        exp = None
        try:
            exp = model.event(ev, data)
        except MissingValue:
            kind = 'missing'
        except UnknownEvent:
            kind = 'unknown'
        if kind != 'ok' and via != 'ext':
            raise PlanError('ill-formed events are only sent externally')
        state['result'] = None
        exc = None
        ret = None
        try:
            if via == 'blk':
                run.fired('reach:via_block')
                edzed.ExtEvent(sender, 'fire').send(etype=ev, data=dict(data))
                if state['result'] is not None and state['result'][0] == 'post':
                    ret = state['result'][1]
                elif state['result'] is None:
                    run.violate('C20/not-delivered', f"{label}: the event did not reach the Counter")
                    return False
            else:
                ret = edzed.ExtEvent(cnt, ev).send(**data)
        except Exception as err:    # pylint: disable=broad-except
            exc = err
        out = cnt.output
        run.log('op', label, canon(data), via, kind, num(exp), canon(ret), canon(exc), canon(out))
        for val in list(data.values()) + [out]:
            if isinstance(val, int) and not isinstance(val, bool) and abs(val) >= 2 ** 62:
                run.fired('reach:big_int')
                break
        if any(isinstance(v, float) and v != int(v) for v in data.values()):
            run.fired('reach:half_amount')
        if kind == 'ok':
            info['arith'] += 1
            if ev in ('inc', 'dec') and 'value' in data or ev in ('put', 'reset') and 'amount' in data \
                    or 'note' in data:
                run.fired('reach:ignored_extra_item')
            wrap = '-'
            if model.mod is not None:
                raw = {'inc': lambda: old + Fraction(data.get('amount', 1)),
                       'dec': lambda: old - Fraction(data.get('amount', 1)),
                       'put': lambda: Fraction(data['value']),
                       'reset': lambda: model.initdef}[ev]()
                if raw >= model.mod:
                    wrap = 'up'
                    run.fired('reach:wrapped_up')
                elif raw < 0:
                    wrap = 'down'
                    run.fired('reach:wrapped_down')
            if ev == 'reset' and old != exp:
                run.fired('reach:reset_after_change')
            run.beh(ev, 'amount' in data or 'value' in data, via, wrap)
            if exc is not None:
                run.violate('C20/unexpected-exception',
                            f"{label} {canon(data)} (counter {num(old)}, modulo {cfg['modulo']}) "
                            f"raised {canon(exc)}")
                return alive()
            bad_range = model.mod is not None and not (
                _is_number(out) and 0 <= out < cfg['modulo'])
            if bad_range:
                run.violate('C20/out-of-range',
                            f"{label} {canon(data)}: output {canon(out)} is outside "
                            f"[0, {cfg['modulo']}) (counter was {num(old)}, expected {num(exp)})")
            elif not (_is_number(out) and out == exp):
                run.violate('C20/wrong-output',
                            f"{label} {canon(data)}: output {canon(out)}, expected {num(exp)} "
                            f"(counter was {num(old)}, modulo {cfg['modulo']})")
            if not (_is_number(out) and out == exp) and _is_number(out):
                model.value = Fraction(out)     # resynchronise: one defect, one report
            if not (_is_number(ret) and ret == exp):
                run.violate('C20/wrong-return',
                            f"{label} {canon(data)}: the event returned {canon(ret)}, expected the "
                            f"updated output {num(exp)} (counter was {num(old)}, modulo "
                            f"{cfg['modulo']}, output now {canon(out)})")
            if not alive():
                run.violate('C20/unexpected-abort',
                            f"{label}: the simulation stopped: {canon(circuit.error)}")
                return False
            return True
        # ill-formed events: put without value, unknown event type
        what = {'missing': 'missing-value', 'unknown': 'unknown-event'}[kind]
        run.fired('reach:put_without_value' if kind == 'missing' else 'reach:unknown_event')
        run.beh(what)
        if exc is None:
            run.violate(f"C20/{what}-not-reported",
                        f"{label} {canon(data)}: no error was reported to the caller, the event "
                        f"returned {canon(ret)} (output {canon(before)} -> {canon(out)})")
        elif kind == 'unknown' and not isinstance(exc, edzed.EdzedUnknownEvent):
            run.violate('C20/unknown-event-not-reported',
                        f"{label}: expected EdzedUnknownEvent, got {canon(exc)}")
        changed = not out == before
        if changed:
            run.violate(f"C20/{what}-changed-counter",
                        f"{label} {canon(data)}: output {canon(before)} -> {canon(out)}")
        if not alive():
            run.violate(f"C20/{what}-stopped-simulation",
                        f"{label} {canon(data)}: the simulation does not run any more: "
                        f"{canon(circuit.error)}")
            return False
        return not changed

    async def main():
        simtask = asyncio.create_task(circuit.run_forever())
        init_err = None
        try:
            await circuit.wait_init()
        except Exception as err:    # pylint: disable=broad-except
            init_err = err
        state['initialising'] = False
        exp0 = model.start(restored)
        init_bad = None
        exp_rets = []
        for ie in expected_init:
            run.fired('reach:init_event_' + ie['route'])
            exp_rets.append((ie['ev'], model.event(ie['ev'], ie['data'])))
            run.beh('init', ie['route'], ie['ev'])
        if expected_init and restored is None:
            run.fired('reach:init_event_to_unrestored_counter')
        exp0 = model.value
        run.log('start', tag, canon(cfg), canon(restored), num(exp0), canon(cnt.output),
                canon(init_err), canon([(e, p, a) for e, p, a in state['init_log']]))
        if expected_init and init_err is None:
            got = state['init_log']
            if len(got) != len(exp_rets):
                init_bad = f"{len(got)} events reached the Counter, {len(exp_rets)} were sent"
            else:
                for (ev, exp), (etype, phase, arg) in zip(exp_rets, got):
                    if etype != ev or phase != 'post' or not (_is_number(arg) and arg == exp):
                        init_bad = (f"event {ev} sent during the initialisation: expected to "
                                    f"return {num(exp)}, observed {canon(etype)} {phase} "
                                    f"{canon(arg)}")
                        break
        if restored is not None and not model.in_range(restored):
            run.fired('reach:prestored_out_of_range')
        run.beh(tag, mclass, 'restored' if restored is not None else
                ('default' if cfg['initdef'] is None else
                 ('in' if model.in_range(cfg['initdef']) else 'out')))
        ok = True
        if init_err is not None or not alive():
            sig = 'C20/init-event-aborted-start' if expected_init else 'C20/start-failed'
            run.violate(sig, f"{tag}: the simulation did not start: "
                        f"{canon(init_err)} / {canon(circuit.error)}; events sent to the Counter "
                        f"during the initialisation: {canon(expected_init)}")
            ok = False
        elif init_bad:
            run.violate('C20/init-event-result', f"{tag}: {init_bad} (initdef {cfg['initdef']}, "
                        f"restored {canon(restored)}, modulo {cfg['modulo']}, output now "
                        f"{canon(cnt.output)}, expected {num(exp0)})")
            model.value = Fraction(cnt.output) if _is_number(cnt.output) else exp0
        elif not (_is_number(cnt.output) and cnt.output == exp0):
            site = 'restored' if restored is not None else 'initdef'
            run.violate(f"C20/initial-value/{site}",
                        f"{tag}: initial output {canon(cnt.output)}, expected {num(exp0)} "
                        f"(modulo {cfg['modulo']}, initdef {cfg['initdef']}, "
                        f"restored {canon(restored)})")
            model.value = Fraction(cnt.output) if _is_number(cnt.output) else exp0
        for n, op in enumerate(ops):
            if not ok:
                break
            ok = do_op(n, op)
            if op.get('yield'):
                await asyncio.sleep(0)
        await asyncio.sleep(0)
        err = None
        try:
            await circuit.shutdown()
        except Exception as exc:    # pylint: disable=broad-except
            err = exc
        run.log('stopped', tag, canon(err))
        if err is not None and ok:
            run.violate('C20/unexpected-abort', f"{tag}: simulation ended with {canon(err)}")
        return simtask

    run.run(main())
    return (storage.content() if storage is not None else None), cnt.key


def restart_run(prev, knobs, wall_start_us):
    """Close a finished Run and continue its trace/verdicts in a new one (restart)."""
    res = prev.result()
    prev.close()
    new = Run(knobs, wall_start_us=wall_start_us)
    new.trace = prev.trace
    new.violations = prev.violations
    new.stats = prev.stats
    new.behaviour = prev.behaviour
    new.harness_error = prev.harness_error
    return new, res['steps'], res['sim_seconds']


def _plan_numbers(plan):
    rs = plan.get('restart') or {}
    cfgs = [plan.get('cfg') or {}, rs.get('cfg') or {}]
    for cfg in cfgs:
        yield cfg.get('initdef')
    for op in ((plan.get('ops') or []) + (rs.get('ops') or [])
               + [ie for cfg in cfgs for ie in cfg.get('init_events') or []]):
        if isinstance(op, dict) and isinstance(op.get('data'), dict):
            yield from op['data'].values()
    yield (plan.get('stored') or {}).get('value')
    yield (rs.get('tamper') or {}).get('value')


def _check_exactness(plan):
    """The stated assumption (exact arithmetic); shrunk plans must stay inside it."""
    mods = [c.get('modulo') for c in (plan.get('cfg'), (plan.get('restart') or {}).get('cfg'))
            if isinstance(c, dict)]
    nums = [x for x in _plan_numbers(plan) if _is_number(x)]
    for x in nums + [m for m in mods if m is not None]:
        if isinstance(x, float) and (x * 2 != int(x * 2) or abs(x) > 2 ** 40):
            raise PlanError('floats must be multiples of 0.5 below 2**40')
    if any(isinstance(x, float) for x in nums + mods) and any(abs(x) > 2 ** 40 for x in nums):
        raise PlanError('huge integers are not combined with floats')


def execute(plan, trace=False):
    info = {'arith': 0}
    _check_exactness(plan)
    run = Run(plan['knobs'])
    steps = 0
    sim_s = 0.0
    try:
        ctor_probes(run, plan)
        initial = None
        stored = plan.get('stored')
        if stored is not None and plan['cfg'].get('persistent'):
            if not _is_number(stored.get('value')):
                raise PlanError('bad stored value')
            initial = {"<Counter 'cnt'>": stored['value'], 'edzed-stop-time': 1_699_999_000.0}
        content, key = run_phase(run, 'p1', plan['cfg'], initial, plan['ops'], info)
        if initial is not None and key not in initial:
            raise PlanError(f"storage key is {key}")
        restart = plan.get('restart')
        if restart and content is not None and key in content and not _is_number(content[key]):
            # (only a defective Counter stores such a state; it was reported when it arose)
            run.log('restart-skipped', canon(content[key]))
            restart = None
        if restart and content is not None and run.harness_error is None:
            wall = 1_700_000_000_000_000 + int((run.now() + float(restart.get('downtime', 0))) * 1e6)
            run, steps, sim_s = restart_run(run, plan['knobs'], wall)
            run.fired('reach:restart')
            tamper = restart.get('tamper')
            if tamper:
                run.fired('reach:restart_tampered')
                if tamper.get('delete'):
                    content.pop(key, None)
                else:
                    if not _is_number(tamper.get('value')):
                        raise PlanError('bad tamper value')
                    content[key] = tamper['value']
            if restart['cfg'].get('modulo') != plan['cfg'].get('modulo'):
                run.fired('reach:restart_modulo_changed')
            run.log('restart', canon(content), canon(tamper))
            run.beh('restart', 'tampered' if tamper else 'asis')
            cfg2 = dict(restart['cfg'])
            cfg2['persistent'] = True
            run_phase(run, 'p2', cfg2, content, restart.get('ops') or [], info)
        res = run.result()
        res['steps'] += steps
        res['sim_seconds'] += sim_s
        if not info['arith']:
            res['behaviour'] = None
        if trace:
            res['trace'] = run.trace
        return res
    finally:
        run.close()
