"""
C07 - TimeDate and TimeSpan outputs follow the wall clock.

Real code: edzed.blocklib.cron.Cron (its sleep/wake/reset/reload task), TimeDate, TimeSpan,
timeinterval membership - on the virtual loop with a virtual wall clock (time.time,
time.sleep and datetime.now of the cron module are seams). Injected: wake-up latency,
per-callback cost, clock read cost, stalls, start and reconfig instants on a sub-millisecond
grid around boundaries (with handler cost after the reconfig), forward/backward clock jumps,
DST-like changes of the local offset, multi-day runs over year end and leap day.
Oracle: independent calendar predicate (models/calendar_model.py) sampled by exact probes
outside a guard band around the block's own boundaries.
"""

from __future__ import annotations

import asyncio
import datetime as dt

from simkit import seams
from simkit.runner import Run, PlanError, canon, gen_knobs
from models import calendar_model as cal

edzed = seams.install()

PROP = 'C07'
LEVEL = 'exploration'
RUNS = {'quick': 10000, 'thorough': 300000}
CHUNK = 40
CHUNK_TIMEOUT = 600
RULE = ("one run = 1-5 TimeDate/TimeSpan blocks (local and/or UTC scheduler) with random "
        "interval sets given numerically, started at a drawn calendar instant, run for 1-4 "
        "virtual days with 0-4 reconfig events placed on a sub-millisecond grid around "
        "boundaries of the same or other blocks, 0-2 faults (stall, forward/backward clock "
        "jump, DST change) and drawn latency/cost knobs; ~100-300 exact probes per run compare "
        "every block's output with the calendar predicate outside the guard band; "
        "non-trivial = at least 3 output changes were observed and 20 probes counted; "
        "distinct = hash of (block kinds, sequence of (probe verdict pattern changes, ops, "
        "faults), reach flags)")
REACH_EXPECTED = ['reconfig_in_overhead_window', 'midnight_crossed', 'year_end_crossed',
                  'leap_day', 'cron_reset_taken', 'short_blocking_sleep', 'probe_counted',
                  'output_changed', 'endpoint_last_ms_of_day', 'start_near_boundary']
ASSUMPTIONS = [
    "guard band: probes within 1 ms before and latency + 3 ms + 50 x cost + 40 x clock-read cost after an own boundary "
    "(incl. midnight) are not counted; probes during a stall and one guard band after it are "
    "not counted; after a forward clock jump probes count again after 1 h + guard; after a "
    "backward jump or a DST change only 'never terminates' is asserted for the rest of the run",
    "every wall clock read costs 1 us and the blocking sleep overshoots by 30 us (Zeno rule, "
    "DESIGN.md 2.1)",
]

US = 1_000_000
DAY = cal.DAY_US

START_DATES = [
    [2023, 12, 30], [2023, 12, 31], [2024, 2, 28], [2024, 2, 29], [2024, 3, 30], [2024, 6, 14],
    [2023, 2, 28], [2024, 10, 26], [2024, 7, 7], [2025, 1, 1],
]
GRID_US = [-2000, -1200, -600, -100, -1, 0, 1, 100, 1000]


def rnd_tod(rng, anchors, near=None):
    """
    A time of day [h,m,s,us]; often close to 'anchors' or to the end of the day.
    near: time of day (us) of the instant at which the configuration takes effect; sometimes
    the endpoint lies microseconds to milliseconds after it (a boundary of the block being
    started/reconfigured that falls into the scheduler's reload).
    """
    if near is not None and rng.random() < 0.15:
        base = (near + rng.choice([3, 10, 25, 60, 150, 400, 1000, 2500]) + rng.randrange(0, 20)) % DAY
        s, us = divmod(base, US)
        return [s // 3600, s // 60 % 60, s % 60, us]
    r = rng.random()
    if r < 0.12:
        return rng.choice([[23, 59, 59, 999_900], [23, 59, 59, 999_999], [23, 59, 59, 0],
                           [23, 59, 59, 999_000], [0, 0, 0, 0], [0, 0, 0, 1], [0, 0, 1, 0]])
    if r < 0.5 and anchors:
        base = rng.choice(anchors) + rng.choice([60, 300, 1800, 3600, 7200, 20000]) * US \
            + rng.choice([0, 0, 0, 1, 500_000, 999_999, 250])
        base %= DAY
    else:
        base = rng.randrange(0, 24 * 3600) * US + rng.choice([0, 0, 1, 123_456, 999_999])
    s, us = divmod(base, US)
    return [s // 3600, s // 60 % 60, s % 60, us]


def rnd_times(rng, anchors, near=None):
    if rng.random() < 0.06:
        return []
    out = []
    for _ in range(rng.choice([1, 1, 2, 3])):
        a = rnd_tod(rng, anchors, near)
        r = rng.random()
        if r < 0.08:
            b = list(a)
        else:
            b = rnd_tod(rng, anchors + [cal.tod_us(a)], near)
        out.append([a, b])
    return out


def rnd_dates(rng, today):
    if rng.random() < 0.06:
        return []
    y, m, d = today
    base = dt.date(y, m, d)
    out = []
    for _ in range(rng.choice([1, 1, 2])):
        a = base + dt.timedelta(days=rng.randint(-2, 3))
        b = a + dt.timedelta(days=rng.choice([0, 0, 1, 2, 30, 360, -1, -3]))
        out.append([[a.month, a.day], [b.month, b.day]])
    if rng.random() < 0.15:
        out.append([[2, 29], [2, 29]])
    if rng.random() < 0.15:
        out.append([[12, 31], [1, 1]])
    return out


def rnd_weekdays(rng):
    if rng.random() < 0.06:
        return []
    return sorted(rng.sample(range(0, 8), rng.randint(1, 5)))


def rnd_cfg(rng, kind, utc, today, anchors, start_abs, near=False):
    if kind == 'ts':
        span = []
        for _ in range(rng.choice([0, 1, 1, 2, 3])):
            a = start_abs + rng.randrange(-2 * 3600, 3 * 24 * 3600) * US \
                + rng.choice([0, 0, 1, 999_999, 500_000])
            if near and rng.random() < 0.15:
                a = start_abs + rng.choice([3, 10, 25, 60, 150, 400, 1000, 2500]) + rng.randrange(0, 20)
            if rng.random() < 0.3 and anchors:
                a = a - a % DAY + rng.choice(anchors)
            length = rng.choice([1, 60, 3600, 5 * 3600, 30 * 3600, 86400, -3600]) * US \
                + rng.choice([0, 0, 1, 250_000])
            b = a + length
            span.append([list(_abs_seq(a)), list(_abs_seq(b))])
        return {'kind': 'ts', 'utc': utc, 'span': span}
    cfg = {'kind': 'td', 'utc': utc, 'times': None, 'dates': None, 'weekdays': None}
    r = rng.random()
    if r < 0.04:
        return cfg
    if rng.random() < 0.85:
        cfg['times'] = rnd_times(rng, anchors, start_abs % DAY if near else None)
    if rng.random() < 0.3:
        cfg['dates'] = rnd_dates(rng, today)
    if rng.random() < 0.3:
        cfg['weekdays'] = rnd_weekdays(rng)
    return cfg


def _abs_seq(us):
    d = cal.to_dt(us)
    return d.year, d.month, d.day, d.hour, d.minute, d.second, d.microsecond


def cfg_boundaries_loop(cfg, start_wall_us, tz_us, dur_us):
    """Boundaries of cfg as offsets (us) from the run start, assuming no clock jump."""
    shift = 0 if cfg['utc'] else tz_us
    lo = start_wall_us + shift
    return [b - lo for b in cal.next_boundaries(cfg, lo, lo + dur_us)]


def gen(rng, tier, index=0):
    date = rng.choice(START_DATES)
    tz_s = rng.choice([0, 0, 3600, 7200, -18000, 19800])
    tod = rnd_tod(rng, [])
    if rng.random() < 0.3:
        tod = rng.choice([[23, 58, 0, 0], [23, 59, 50, 0], [11, 59, 59, 500_000], [0, 0, 0, 0],
                          [22, 0, 0, 0], [12, 0, 0, 0]])
    start_wall = cal.abs_us(date + tod)       # UTC wall clock at run start
    days = rng.choice([1, 1, 2, 2, 3, 4]) if tier == 'thorough' else rng.choice([1, 1, 2, 3])
    dur_us = days * DAY + rng.randrange(0, 4 * 3600) * US
    nblocks = rng.choice([1, 1, 2, 3, 4, 5])
    use_both = rng.random() < 0.25
    utc0 = rng.random() < 0.3
    blocks = []
    anchors = [(start_wall + (0 if utc0 else tz_s * US)) % DAY]
    for i in range(nblocks):
        utc = (rng.random() < 0.5) if use_both else utc0
        kind = 'td' if rng.random() < 0.7 else 'ts'
        local_start = start_wall + (0 if utc else tz_s * US)
        today = list(_abs_seq(local_start)[:3])
        cfg = rnd_cfg(rng, kind, utc, today, anchors, local_start, near=True)
        cfg['name'] = f"{kind}{i}"
        if kind == 'td' and cfg['times']:
            anchors.extend(cal.tod_us(ep) for rg in cfg['times'] for ep in rg)
        blocks.append(cfg)
    # start near a boundary: move the start instant onto the grid of some boundary
    if rng.random() < 0.35:
        allb = []
        for cfg in blocks:
            allb.extend(cfg_boundaries_loop(cfg, start_wall, tz_s * US, 6 * 3600 * US))
        allb = [b for b in allb if b > 0]
        if allb:
            b = rng.choice(allb)
            start_wall = start_wall + b + rng.choice(GRID_US) - rng.choice([0, 50, 200, 900])
            if rng.random() < 0.25:
                start_wall = start_wall - rng.choice(GRID_US) - rng.randrange(0, 120)
    # ops
    ops = []
    cur = {c['name']: c for c in blocks}
    for _ in range(rng.choice([0, 1, 1, 2, 3, 4])):
        tgt = rng.choice(blocks)
        other = rng.choice(blocks)
        bl = cfg_boundaries_loop(cur[other['name']], start_wall, tz_s * US, dur_us)
        bl = [b for b in bl if 1000 * US < b < dur_us]
        if bl and rng.random() < 0.75:
            t_us = rng.choice(bl) + rng.choice(GRID_US)
            if rng.random() < 0.3:
                # microsecond grid just before the boundary: the reload that follows the
                # reconfig reads the clock several times within a few microseconds
                t_us = rng.choice(bl) - rng.randrange(0, 80)
        else:
            t_us = rng.randrange(1000 * US, dur_us)
        local = start_wall + t_us + (0 if tgt['utc'] else tz_s * US)
        newcfg = rnd_cfg(rng, tgt['kind'], tgt['utc'], list(_abs_seq(local)[:3]),
                         anchors + [local % DAY], local, near=True)
        newcfg['name'] = tgt['name']
        ops.append({'t_us': t_us, 'op': 'reconfig', 'blk': tgt['name'], 'cfg': newcfg,
                    'cost_us': rng.choice([0, 0, 100, 600, 1500, 3000])})
        cur[tgt['name']] = newcfg
    ops.sort(key=lambda o: o['t_us'])
    faulty = rng.random() < 0.45
    if faulty:
        for _ in range(rng.choice([1, 1, 2])):
            t_us = rng.randrange(60 * US, dur_us)
            allb = []
            for cfg in blocks:
                allb.extend(cfg_boundaries_loop(cfg, start_wall, tz_s * US, dur_us))
            allb = [b for b in allb if b > 60 * US]
            if allb and rng.random() < 0.6:
                t_us = rng.choice(allb) - rng.choice([10 * US, US, 100_000, 1500, 500])
            r = rng.random()
            if r < 0.4:
                ops.append({'t_us': t_us, 'op': 'stall',
                            'dur_us': rng.choice([1000, 30_000, 400_000, 1_600_000, 2_400_000,
                                                  3_000_000, 60 * US, 1800 * US])})
            elif r < 0.75:
                ops.append({'t_us': t_us, 'op': 'jump',
                            'delta_s': rng.choice([30, 90, 600, 1800, 3599, 3600])})
            elif r < 0.9:
                ops.append({'t_us': t_us, 'op': 'jump', 'delta_s': -rng.choice([1, 30, 600, 3600])})
            else:
                ops.append({'t_us': t_us, 'op': 'tzjump', 'delta_s': rng.choice([3600, -3600])})
        ops.sort(key=lambda o: o['t_us'])
    knobs = gen_knobs(rng, latency=True, cost=True, ties=False, min_cost_ns=2000, origins=True)
    if knobs['cost_ns'] > 20_000:
        knobs['cost_ns'] = 20_000
    plan = {'knobs': knobs, 'start_wall_us': start_wall, 'tz_s': tz_s, 'dur_us': dur_us,
            'blocks': blocks, 'ops': ops, 'probe_seed': rng.randrange(1 << 30),
            'n_random_probes': 30}
    # a block's output event may reconfigure another block (or the block itself) in the very
    # instant of an alarm that both may share (every TimeDate shares midnight)
    plan['links'] = []
    if rng.random() < 0.2:
        src = rng.choice(blocks)
        dst = rng.choice(blocks)
        local = start_wall + (0 if dst['utc'] else tz_s * US)
        lcfg = rnd_cfg(rng, dst['kind'], dst['utc'], list(_abs_seq(local)[:3]), anchors, local)
        if rng.random() < 0.5 and dst['kind'] == 'td' and src['kind'] == 'td' and src.get('times'):
            # share an alarm time with the source
            lcfg['times'] = (lcfg['times'] or []) + [rng.choice(src['times'])]
        lcfg['name'] = dst['name']
        plan['links'].append({'src': src['name'], 'dst': dst['name'], 'cfg': lcfg})
    # modelled clock-read latency: what one time.time()/datetime.now() call costs
    plan['read_cost_ns'] = rng.choice([1000] * 5 + [2000, 5000, 20_000, 60_000])
    # granularity of the system clock (a reading may be EXACTLY equal to a boundary)
    plan['clock_gran_us'] = rng.choice([1] * 17 + [1000, 10_000, 15_625])
    return plan


# --------------------------------------------------------------------------- execution

def mk_block(cfg, **kwargs):
    try:
        if cfg['kind'] == 'td':
            return edzed.TimeDate(cfg['name'], times=cfg['times'], dates=cfg['dates'],
                                  weekdays=cfg['weekdays'], utc=cfg['utc'], **kwargs)
        return edzed.TimeSpan(cfg['name'], span=cfg['span'], utc=cfg['utc'], **kwargs)
    except Exception as err:
        raise PlanError(f"block construction: {type(err).__name__}: {err}") from None


def reconfig_data(cfg):
    if cfg['kind'] == 'td':
        return {'times': cfg['times'], 'dates': cfg['dates'], 'weekdays': cfg['weekdays']}
    return {'span': cfg['span']}


def execute(plan, trace=False):
    import random
    knobs = plan['knobs']
    read_cost_ns = int(plan.get('read_cost_ns', 1000))
    gran_us = int(plan.get('clock_gran_us', 1))
    run = Run(knobs, wall_start_us=plan['start_wall_us'] - 0, tz_offset_s=plan['tz_s'],
              max_steps=2_000_000, read_cost_ns=read_cost_ns, clock_gran_us=gran_us)
    try:
        loop = run.loop
        blocks = {}
        cfgs = {}
        links = {}
        for ln in plan.get('links', []):
            links.setdefault(ln['src'], []).append(ln)

        def mk_link_filter(ln):
            def link_filter(data):
                if not st['ready'] or st['terminated'] or data.get('previous') is edzed.UNDEF:
                    return False
                if blocks[ln['dst']]._event_active:
                    # the destination is handling an event itself (self-link triggered by
                    # its own reconfig): sending now would be a forbidden recursive event
                    return False
                cfg = dict(ln['cfg'])
                cfg['name'] = ln['dst']
                cfgs[ln['dst']] = cfg
                st['last_reconfig_ns'][ln['dst']] = loop._ns
                st['recent_ops'].append((loop._ns, 'reconfig', ln['dst']))
                run.fired('reach:reconfig_by_output_event')
                run.log('link-reconfig', ln['src'], ln['dst'])
                return reconfig_data(cfg)
            return link_filter

        for cfg in plan['blocks']:
            kwargs = {}
            if cfg['name'] in links:
                kwargs['on_output'] = [
                    edzed.Event(ln['dst'], 'reconfig', efilter=mk_link_filter(ln))
                    for ln in links[cfg['name']]]
            blocks[cfg['name']] = mk_block(cfg, **kwargs)
            cfgs[cfg['name']] = cfg
        for ln in plan.get('links', []):
            if ln['dst'] not in blocks:
                raise PlanError('link to a missing block')
        circuit = edzed.get_circuit()
        lat_us = knobs['latency_ns'] // 1000
        cost_us = knobs['cost_ns'] // 1000
        guard_after = lat_us + 3000 + 50 * cost_us + 40 * (read_cost_ns // 1000 - 1)
        if read_cost_ns > 1000:
            run.fired('fault:slow_clock_read')
        guard_before = 1000
        if gran_us > 1:
            # the code under test cannot tell instants inside one clock tick apart
            run.fired('fault:coarse_clock')
            guard_after += gran_us + 1000
            guard_before += gran_us
        st = {
            'ready': False, 'terminated': False, 'counted': 0, 'skipped': 0,
            'blind_until_ns': 0,          # probes are not counted before this loop time
            'assert_outputs': True,       # False after a backward jump / DST change
            'changes': 0, 'last_out': {}, 'recent_ops': [], 'stall_windows': [],
            'last_reconfig_ns': {}, 'jumped': False,
        }
        dur_us = plan['dur_us']

        def local_us(cfg):
            return seams.wall_us() + (0 if cfg['utc'] else seams.S.tz_offset_us)

        def check_terminated(where):
            if circuit.error is not None and not st['terminated']:
                st['terminated'] = True
                err = circuit.error
                cause = ('clock-jump' if st['jumped'] else
                         'stall' if st['stall_windows'] else 'no-fault')
                run.violate(f"C07/terminated/{type(err).__name__}/{cause}",
                            f"{where}: the simulation terminated: {canon(err)}")

        def classify(cfg, now_local):
            """Diagnose why an output may be stale: which boundary was missed, what was near."""
            name = cfg['name']
            # most recent own boundary
            lo = now_local - 26 * 3600 * US
            bs = cal.next_boundaries(cfg, lo, now_local)
            missed = None
            for b in reversed(bs):
                if cal.predicate(cfg, b) != cal.predicate(cfg, b - 1):
                    missed = b
                    break
            if missed is None:
                return 'no-boundary', None
            age_us = now_local - missed
            ctx = 'plain'
            tod = missed % DAY
            near_midnight = tod >= DAY - 2_500_000 or tod <= 0
            for (t_ns, kind, nm) in st['recent_ops']:
                # op time relative to the missed boundary (loop clock, valid without jumps)
                op_age_us = (loop._ns - t_ns) // 1000
                if abs(op_age_us - age_us) <= 20_000 and kind in ('reconfig', 'start'):
                    ctx = 'reload-race'
            if ctx == 'plain' and near_midnight:
                ctx = 'pre-midnight-alarm'
            if ctx == 'plain':
                for (a_ns, b_ns) in st['stall_windows']:
                    a_age = (loop._ns - a_ns) // 1000
                    b_age = (loop._ns - b_ns) // 1000
                    if b_age - 10_000 <= age_us <= a_age + 10_000:
                        ctx = 'stall'
            if st['jumped'] and ctx == 'plain':
                ctx = 'after-jump'
            return ctx, age_us

        def probe(planned_ns, tag):
            if not st['ready'] or st['terminated']:
                return
            check_terminated('probe')
            if st['terminated']:
                return
            late = loop._ns - planned_ns
            if late > 50_000 or loop._ns < st['blind_until_ns'] or not st['assert_outputs']:
                st['skipped'] += 1
                return
            verdicts = []
            for name, blk in blocks.items():
                cfg = cfgs[name]
                now_l = local_us(cfg)
                if cal.near_boundary(cfg, now_l, guard_before, guard_after):
                    verdicts.append('g')
                    continue
                lr = st['last_reconfig_ns'].get(name)
                if lr is not None and loop._ns - lr < 1000:
                    verdicts.append('g')
                    continue
                exp = cal.predicate(cfg, now_l)
                out = blk.output
                st['counted'] += 1
                if out is not exp:
                    ctx, age = classify(cfg, now_l)
                    verdicts.append('X')
                    run.violate(
                        f"C07/stale-output/{ctx}",
                        f"{name} ({'utc' if cfg['utc'] else 'local'}) at "
                        f"{cal.to_dt(now_l).isoformat()} outputs {canon(out)}, expected {exp}; "
                        f"last own boundary with a change was {None if age is None else age / 1e6:.6f}s "
                        f"ago; config {canon({k: v for k, v in cfg.items() if k != 'name'})}")
                else:
                    verdicts.append('1' if exp else '0')
                if st['last_out'].get(name) is not None and st['last_out'][name] != out:
                    st['changes'] += 1
                    run.fired('reach:output_changed')
                st['last_out'][name] = out
            pattern = ''.join(verdicts)
            if pattern != st.get('last_pattern'):
                st['last_pattern'] = pattern
                run.beh(pattern)
            run.log('probe', tag, pattern)
            run.fired('reach:probe_counted')

        def do_op(op):
            if st['terminated'] or not st['ready']:
                return
            check_terminated('op')
            kind = op['op']
            if kind == 'reconfig':
                name = op['blk']
                if name not in blocks:
                    raise PlanError('reconfig of a missing block')
                cfg = dict(op['cfg'])
                cfg['name'] = name
                # reach: inside cron's overhead window (1 ms) before a boundary of any block?
                for other in cfgs.values():
                    if cal.near_boundary(other, local_us(other), 1100, -1):
                        run.fired('reach:reconfig_in_overhead_window')
                        break
                try:
                    edzed.ExtEvent(blocks[name], 'reconfig').send(**reconfig_data(cfg))
                except edzed.EdzedInvalidState:
                    return
                except Exception as err:    # pylint: disable=broad-except
                    raise PlanError(f"reconfig failed: {err}") from None
                cfgs[name] = cfg
                st['last_reconfig_ns'][name] = loop._ns
                st['recent_ops'].append((loop._ns, 'reconfig', name))
                run.log('reconfig', name, canon(cfg))
                run.beh('reconfig', cfg['kind'])
                if op.get('cost_us'):
                    # the handler keeps the loop busy: like a stall, the scheduler cannot run
                    loop.advance_ns(op['cost_us'] * 1000)
                    st['blind_until_ns'] = max(st['blind_until_ns'],
                                               loop._ns + (guard_after + 500) * 1000)
                exp = cal.predicate(cfg, local_us(cfg))
                # right after the handler returned the block must reflect the new configuration
                if (not cal.near_boundary(cfg, local_us(cfg), guard_before, guard_after + op.get('cost_us', 0))
                        and st['assert_outputs'] and loop._ns >= st['blind_until_ns']
                        and blocks[name].output is not exp):
                    run.violate('C07/wrong-output-after-reconfig',
                                f"{name}: output {canon(blocks[name].output)} right after reconfig, "
                                f"expected {exp}")
            elif kind == 'stall':
                a = loop._ns
                loop.advance_ns(op['dur_us'] * 1000)
                st['stall_windows'].append((a, loop._ns))
                st['blind_until_ns'] = max(st['blind_until_ns'],
                                           loop._ns + (guard_after + 2000) * 1000)
                run.fired('fault:stall')
                if op['dur_us'] > 2_500_000:
                    run.fired('fault:stall_over_reset_limit')
                run.log('stall', op['dur_us'])
                run.beh('stall', op['dur_us'] > 2_500_000)
            elif kind == 'jump':
                seams.jump_wall(op['delta_s'])
                st['jumped'] = True
                if op['delta_s'] > 0:
                    run.fired('fault:clock_jump_fwd')
                    st['blind_until_ns'] = max(st['blind_until_ns'],
                                               loop._ns + (3600 * US + guard_after + 5000) * 1000)
                else:
                    run.fired('fault:clock_jump_back')
                    st['assert_outputs'] = False
                run.log('jump', op['delta_s'])
                run.beh('jump', op['delta_s'] > 0)
            elif kind == 'tzjump':
                seams.jump_tz(op['delta_s'])
                st['jumped'] = True
                st['assert_outputs'] = False
                run.fired('fault:dst_jump')
                run.log('tzjump', op['delta_s'])
                run.beh('tzjump')
            else:
                raise PlanError(f"unknown op {kind}")

        def schedule_probes():
            prng = random.Random(plan.get('probe_seed', 0))
            instants = set()
            tz_us = plan['tz_s'] * US
            horizon = dur_us
            allcfg = list(plan['blocks']) + [dict(op['cfg'], name=op['blk'])
                                             for op in plan['ops'] if op['op'] == 'reconfig']
            allcfg += [dict(ln['cfg'], name=ln['dst']) for ln in plan.get('links', [])]
            for cfg in allcfg:
                bl = cfg_boundaries_loop(cfg, plan['start_wall_us'], tz_us, horizon)
                if len(bl) > 40:
                    bl = prng.sample(bl, 40)
                for b in bl:
                    for off in (-60 * US, -5000 - guard_before, guard_after + 1500,
                                guard_after + 200_000, 3 * US + guard_after):
                        instants.add(b + off)
                    tod = (b + plan['start_wall_us'] + (0 if cfg['utc'] else tz_us)) % DAY
                    if tod >= DAY - 1000:
                        run.fired('reach:endpoint_last_ms_of_day')
            for op in plan['ops']:
                for off in (5000, 2 * US, 3700 * US, 3605 * US + guard_after * 2):
                    instants.add(op['t_us'] + op.get('cost_us', 0) + op.get('dur_us', 0) + off)
            for _ in range(int(plan.get('n_random_probes', 30))):
                instants.add(prng.randrange(0, max(1, horizon)))
            # hourly marks are interesting too (cron wakes there)
            for h in range(0, horizon // (3600 * US) + 1, 5):
                instants.add(h * 3600 * US + 1234)
            for t in sorted(instants):
                if 2000 < t < horizon:
                    when = run.t0 + t / 1e6
                    planned_ns = run.knobs['origin_ns'] + t * 1000
                    loop.call_exact(when, probe, planned_ns, t)

        async def main():
            simtask = asyncio.create_task(circuit.run_forever())
            try:
                await circuit.wait_init()
            except edzed.EdzedInvalidState as err:
                run.violate('C07/start-failed', f"start-up failed: {canon(err)}")
                return
            st['ready'] = True
            st['recent_ops'].append((loop._ns, 'start', None))
            # reach: did the start land close to a boundary?
            for cfg in cfgs.values():
                if cal.near_boundary(cfg, local_us(cfg), 2500, 2500):
                    run.fired('reach:start_near_boundary')
                    break
            for name, blk in blocks.items():
                cfg = cfgs[name]
                if not cal.near_boundary(cfg, local_us(cfg), guard_before, guard_after):
                    exp = cal.predicate(cfg, local_us(cfg))
                    if blk.output is not exp:
                        run.violate('C07/wrong-output-after-start',
                                    f"{name}: output {canon(blk.output)} when wait_init() returned, "
                                    f"expected {exp} at {cal.to_dt(local_us(cfg)).isoformat()}")
            schedule_probes()
            for op in plan['ops']:
                run.at(op['t_us'] / 1e6, do_op, op)
            fut = loop.create_future()
            run.at(dur_us / 1e6, fut.set_result, None)
            await fut
            check_terminated('end')
            # reach flags from the calendar
            w0 = plan['start_wall_us'] + plan['tz_s'] * US
            d0, d1 = cal.to_dt(w0), cal.to_dt(w0 + dur_us)
            if d0.date() != d1.date():
                run.fired('reach:midnight_crossed')
            if d0.year != d1.year:
                run.fired('reach:year_end_crossed')
            if (d0.month, d0.day) <= (2, 29) <= (d1.month, d1.day) and d0.year == 2024:
                run.fired('reach:leap_day')
            try:
                await circuit.shutdown()
            except Exception as err:    # pylint: disable=broad-except
                if not st['terminated']:
                    check_terminated('shutdown')
            await asyncio.sleep(0)

        run.run(main())
        for level, msg in seams.S.log_records:
            if 'Resetting due to a time tracking problem' in msg:
                run.fired('reach:cron_reset_taken')
        if seams.S.blocking_sleeps:
            run.fired('reach:short_blocking_sleep')
        run.stats['probes_counted'] += st['counted']
        run.stats['probes_skipped'] += st['skipped']
        res = run.result()
        if st['changes'] < 3 or st['counted'] < 20:
            res['behaviour'] = None
        if trace:
            res['trace'] = run.trace
        return res
    finally:
        run.close()
