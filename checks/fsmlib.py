"""
Shared by C03/C04/C06/C08/C11: generate FSM specs, build the real FSM classes with
logging callbacks, probe (recorder) blocks and log comparison helpers.
"""

from __future__ import annotations

from simkit import seams
from simkit.runner import canon, PlanError

edzed = seams.install()

UNDEF_S = '<UNDEF>'

# durations given as strings: the model looks them up here (independent of edzed's parser)
STR_DURATIONS = {'1m30s': 90.0, 'PT0.5S': 0.5, '0.25s': 0.25, '2s': 2.0, '0h0m1s': 1.0,
                 'PT1M': 60.0, '1.5s': 1.5}


def mk_ev(ev):
    """JSON event -> edzed event type."""
    if isinstance(ev, dict):
        return edzed.Goto(ev['goto'])
    return ev


def real_data(data):
    """JSON event data -> real event data ('inf' duration)."""
    data = dict(data)
    if data.get('duration') == 'inf':
        data['duration'] = edzed.INF_TIME
    return data


def mk_dur(d):
    if d == 'inf':
        return edzed.INF_TIME
    return d


# ---------------------------------------------------------------- recorder probe

class Recorder(edzed.SBlock):
    """Accepts every event and logs it through x_sink(name, etype, data)."""

    def init_regular(self):
        self.set_output(0)

    def _event(self, etype, data):
        self.x_sink(self, etype, data)
        return ('rec', self.name)


def fsm_log_entry(data):
    """Translate event data received by a recorder from an FSM into a model log entry."""
    trig = data.get('trigger')
    if trig == 'exit':
        return ['on_exit', data.get('state'), canon(data.get('value'))]
    if trig == 'enter':
        return ['on_enter', data.get('state'), canon(data.get('value'))]
    if trig == 'notrans':
        return ['notrans', canon(data.get('event')), data.get('state')]
    if trig == 'output':
        return ['on_output', canon(data.get('previous')), canon(data.get('value'))]
    return ['other', canon(data)]


# ---------------------------------------------------------------- spec generation

def gen_spec(rng, idx, *, timers, max_states=4, max_events=3, allow_chain=True,
             zero_dur=True):
    """Generate a class spec and one instance description."""
    nst = rng.randint(1, max_states)
    nev = rng.randint(1, max_events)
    states = [f"s{i}" for i in range(nst)]
    events = [f"e{i}" for i in range(nev)]
    rules = []
    for ev in events:
        # any-state rule?
        r = rng.random()
        before = len(rules)
        if r < 0.45:
            rules.append([ev, None, rng.choice(states + [None] if rng.random() < 0.25 else states)])
        specific = [s for s in states if rng.random() < 0.5]
        rng.shuffle(specific)
        # split the specific states into 1-2 rules with different notations
        while specific:
            k = rng.randint(1, len(specific))
            part, specific = specific[:k], specific[k:]
            target = rng.choice(states) if rng.random() < 0.8 else None
            style = rng.random()
            if style < 0.4:
                frm = part
            elif style < 0.8:
                frm = ' | '.join(part) if rng.random() < 0.5 else '|'.join(part)
            else:
                frm = tuple(part)
            rules.append([ev, frm if not isinstance(frm, tuple) else list(frm), target])
        if len(rules) == before:
            rules.append([ev, None, rng.choice(states)])
    rng.shuffle(rules)
    spec_timers = {}
    if timers:
        for s in states:
            if rng.random() < 0.55:
                choices = [0.5, 1.0, 2.0, 1.0, 'inf', None, '0.25s', '1m30s', 'PT0.5S']
                if zero_dur:
                    choices += [0, -1.0, 0.0]
                dur = rng.choice(choices)
                tev = rng.choice(events) if rng.random() < 0.5 else {'goto': rng.choice(states)}
                spec_timers[s] = {'dur': dur, 'ev': tev}
        if spec_timers and rng.random() < 0.3:
            # a timed state that is not listed in STATES
            extra = f"s{nst}"
            spec_timers[extra] = {'dur': rng.choice([0.5, 1.0]),
                                  'ev': {'goto': rng.choice(states)}}
            for rule in rules:
                if rule[2] is not None and rng.random() < 0.3:
                    rule[2] = extra
    all_states = states + [s for s in spec_timers if s not in states]
    methods = []
    for s in all_states:
        if rng.random() < 0.5:
            methods.append(f"enter_{s}")
        if rng.random() < 0.4:
            methods.append(f"exit_{s}")
    for ev in events:
        if rng.random() < 0.4:
            methods.append(f"cond_{ev}")
    spec = {'cls': f"G{idx}", 'states': states, 'timers': spec_timers, 'rules': rules,
            'methods': methods}
    inst = gen_inst(rng, spec, f"f{idx}", allow_chain=allow_chain)
    return spec, inst


def gen_inst(rng, spec, name, *, allow_chain=True):
    states = list(spec['states']) + [s for s in spec['timers'] if s not in spec['states']]
    events = sorted({r[0] for r in spec['rules']})
    inst = {'name': name, 'cls': spec['cls'], 'initdef': None, 't': {}, 'funcs': [],
            'chain': {}, 'undef_in': []}
    if rng.random() < 0.4:
        inst['initdef'] = rng.choice(states)
    for s in spec['timers']:
        if rng.random() < 0.4:
            inst['t'][s] = rng.choice([0.5, 1.0, 3.0, 'inf', '2s', '0.25s', 0, 1.5])
    for s in states:
        if rng.random() < 0.3:
            inst['funcs'].append(f"enter_{s}")
        if rng.random() < 0.25:
            inst['funcs'].append(f"exit_{s}")
    for ev in events:
        if rng.random() < 0.3:
            inst['funcs'].append(f"cond_{ev}")
    if allow_chain:
        for s in states:
            if f"enter_{s}" in spec['methods'] and rng.random() < 0.35:
                reqs = []
                n = 1 if rng.random() < 0.9 else 2
                for _ in range(n):
                    ev = rng.choice(events) if rng.random() < 0.55 else {'goto': rng.choice(states)}
                    data = {}
                    if rng.random() < 0.5:
                        data['tag'] = f"c-{s}"
                    if rng.random() < 0.15:
                        data['ok'] = False
                    if rng.random() < 0.2:
                        data['duration'] = rng.choice([0.5, 1.0, 0])
                    reqs.append({'ev': ev, 'data': data})
                inst['chain'][s] = reqs
    initial = inst['initdef'] or states[0]
    for s in states:
        if s != initial and rng.random() < 0.12:
            inst['undef_in'].append(s)
    return inst


# ---------------------------------------------------------------- real classes

def build_class(spec, sink):
    """
    Create the real FSM subclass for spec. sink(blk, entry) receives log entries
    [kind, 'method', name, data] written by the class-level callbacks.
    """
    fed = edzed.fsm_event_data

    def get_data(blk):
        data = fed.get()
        try:
            data['__rw__'] = 1
        except TypeError:
            pass
        else:
            sink(blk, ['rw-data'])
        return {k: v for k, v in data.items()}

    def mk_plain(kind, name):
        def method(self):
            sink(self, [kind, 'method', name, get_data(self)])
        method.__name__ = f"{kind}_{name}"
        return method

    def mk_enter(name):
        def method(self):
            before = get_data(self)
            sink(self, ['enter', 'method', name, before])
            for req in self.x_chain.get(name, []):
                res = self.event(mk_ev(req['ev']), **real_data(req.get('data', {})))
                sink(self, ['chain-res', canon(res)])
                # the action is still the one caused by the same event: whatever the
                # nested request did (accepted, rejected, error), the data must not change
                after = {k: v for k, v in fed.get().items()}
                if canon(after) != canon(before):
                    sink(self, ['data-changed', name, canon(before), canon(after)])
        method.__name__ = f"enter_{name}"
        return method

    def mk_cond(name):
        def method(self):
            data = get_data(self)
            val = bool(self.x_flags.get(f"m:{name}", True)) and bool(data.get('ok', True))
            sink(self, ['cond', 'method', name, data, val])
            return val
        method.__name__ = f"cond_{name}"
        return method

    def calc_output(self):
        if self._state in self.x_undef_in:
            return edzed.UNDEF
        return self._state

    timers = {}
    for s, tm in spec['timers'].items():
        timers[s] = (mk_dur(tm['dur']), mk_ev(tm['ev']))
    rules = []
    for ev, frm, nxt in spec['rules']:
        rules.append((ev, frm, nxt))
    ns = {'STATES': list(spec['states']), 'TIMERS': timers, 'EVENTS': rules,
          'calc_output': calc_output}
    for m in spec['methods']:
        kind, name = m.split('_', 1)
        if kind == 'enter':
            ns[m] = mk_enter(name)
        elif kind == 'cond':
            ns[m] = mk_cond(name)
        elif kind == 'exit':
            ns[m] = mk_plain('exit', name)
        else:
            raise PlanError(f"bad method {m}")

    try:
        cls = type(spec['cls'], (edzed.FSM,), ns)
    except Exception as err:    # a shrunk spec may be inconsistent
        raise PlanError(f"class construction failed: {err}") from None
    return cls


def build_instance(cls, spec, inst, sink, **extra):
    """Create the block. Instance callbacks log with 'inst'."""
    fed = edzed.fsm_event_data
    kwargs = dict(extra)
    holder = {}

    def mk_func(kind, name):
        def func():
            data = {k: v for k, v in fed.get().items()}
            blk = holder['blk']
            if kind == 'cond':
                val = bool(blk.x_flags.get(f"i:{name}", True))
                sink(blk, ['cond', 'inst', name, data, val])
                return val
            sink(blk, [kind, 'inst', name, data])
            return None
        return func

    for f in inst.get('funcs', []):
        kind, name = f.split('_', 1)
        kwargs[f] = mk_func(kind, name)
    for s, d in inst.get('t', {}).items():
        kwargs[f"t_{s}"] = mk_dur(d)
    if inst.get('initdef') is not None:
        kwargs['initdef'] = inst['initdef']
    try:
        blk = cls(inst['name'], x_flags={}, x_chain=inst.get('chain', {}),
                  x_undef_in=list(inst.get('undef_in', [])), **kwargs)
    except Exception as err:
        raise PlanError(f"instance construction failed: {type(err).__name__}: {err}") from None
    holder['blk'] = blk
    return blk


def hook_events(blk, hook):
    """
    Observe every event delivery to one block (instance attribute, no subclassing:
    an FSM subclass would not inherit cond_/enter_/exit_ methods).
    hook(phase, blk, etype, data|result|exception) with phase in pre/post/exc.
    """
    orig = blk.event

    def event(etype, /, **data):
        hook('pre', blk, etype, data)
        try:
            res = orig(etype, **data)
        except BaseException as err:
            hook('exc', blk, etype, err)
            raise
        hook('post', blk, etype, res)
        return res
    blk.event = event


# ---------------------------------------------------------------- log comparison

def normalise_observed(entries):
    """
    Observed callback log -> the model's vocabulary.
    cond entries of one event are folded into one ['conds', ev, [[kind, val]...], data] entry.
    """
    out = []
    for e in entries:
        kind = e[0]
        if kind == 'cond':
            _k, where, name, data, val = e
            if (out and out[-1][0] == 'conds' and out[-1][1] == name
                    and where not in [k for k, _v in out[-1][2]]):
                out[-1][2].append([where, val])
            else:
                out.append(['conds', name, [[where, val]], canon(data)])
        elif kind in ('enter', 'exit'):
            out.append([kind, e[1], e[2], canon(e[3])])
        elif kind == 'chain-res':
            out.append(e)
        elif kind in ('data-changed', 'rw-data'):
            continue    # out-of-band probes, judged by the check itself
        else:
            out.append(canon(e))
    return out


def compare_logs(expected, observed):
    """
    Compare model log with the normalised observed log. Returns None or a message.
    Free orders: inst vs method callback of the same kind/name; conds: when some condition
    is false the others may or may not have been consulted.
    """
    exp = [e for e in expected if e[0] not in ('chain-req', 'zero-timer')]
    obs = [e for e in observed if e[0] != 'chain-res']
    # canonical order of adjacent inst/method pairs
    def canon_pairs(seq):
        seq = [list(e) for e in seq]
        i = 0
        while i + 1 < len(seq):
            a, b = seq[i], seq[i + 1]
            if a[0] in ('enter', 'exit') and a[0] == b[0] and a[2] == b[2] and a[1] != b[1]:
                if a[1] > b[1]:
                    seq[i], seq[i + 1] = b, a
                i += 2
            else:
                i += 1
        return seq
    exp = canon_pairs(exp)
    obs = canon_pairs(obs)
    i = j = 0
    while i < len(exp) or j < len(obs):
        e = exp[i] if i < len(exp) else None
        o = obs[j] if j < len(obs) else None
        if e is not None and e[0] == 'conds':
            defined = e[2]
            if not defined:
                i += 1
                continue
            if o is None or o[0] != 'conds' or o[1] != e[1]:
                return f"expected condition(s) of {e[1]} to be consulted: {e}, observed {o}"
            if canon(o[3]) != canon(e[3]):
                return (f"event-data: cond_{e[1]} read fsm_event_data {o[3]}, "
                        f"but the event carried {e[3]}")
            exp_map = {k: v for k, v in defined}
            seen = {}
            for k, v in o[2]:
                if k in seen:
                    return f"condition {k}:{e[1]} consulted twice"
                if k not in exp_map:
                    return f"undefined condition {k}:{e[1]} consulted"
                if exp_map[k] != v:
                    return f"harness: condition value mismatch {k}:{e[1]}"
                seen[k] = v
            if all(v for v in exp_map.values()):
                if set(seen) != set(exp_map):
                    return f"not all conditions of {e[1]} consulted: {o[2]} vs {defined}"
            elif all(seen.values()):
                return f"no false condition of {e[1]} consulted: {o[2]} vs {defined}"
            i += 1
            j += 1
            continue
        if e != o:
            if (e is not None and o is not None and e[0] in ('enter', 'exit')
                    and e[:3] == o[:3]):
                return (f"event-data: {e[0]}_{e[2]} ({e[1]}) read fsm_event_data {o[3]}, "
                        f"but the event that caused this action carried {e[3]}")
            return f"action/event log differs at #{j}: expected {e}, observed {o}"
        i += 1
        j += 1
    return None
