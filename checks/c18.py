"""
C18 - Repeat re-sends the latest event at the configured pace and count.

Real code: edzed.Repeat (explicit and created implicitly by Event(..., repeat=, count=)),
edzed.Event/ExtEvent delivery, AddonMainTask start/stop, on the virtual loop.
Circuit of a run: two sender blocks + external events -> chain of one or two Repeat
blocks -> recorder probe. Events of the repeated and of other types are aimed before / in
the same instant as / after predicted repetition instants (of either Repeat of the chain);
an event may be bounced 0-2 times through call_soon so that, inside one virtual instant, it
lands before the time-out callback, between the callback and the main task's step, or after
the repetition.
Oracle: models.repeat_model.RepeatMonitor, one per Repeat block, fed from pass-through hooks
on Block.event of the Repeat blocks and the probe (observed order is consumed, ties are legal
both ways: "repetition, then the newer event" and "newer event, repetition pre-empted").

Slow-initialisation stratum (a fifth of the random runs): a bystander InitAsync block with a
scripted slow coroutine keeps the circuit in its asynchronous initialisation while events
(legal as soon as is_ready() is true; wait_init() is awaited by a side task only) reach the
Repeat blocks; the initialisation ends shortly after a predicted repetition, around an event,
after the stop, or before the first event; optionally with persistent storage and a
persistent Input that gets its value only in the second init pass. All clauses stay in force
in that window; outputs are checked again when the initialisation has completed; a stop
during the initialisation must still leave no task, timer or delivery behind.
(catches seeded C18-s10: early initialisation skipped at init step 1 -> output reset to 0
after repetition N; C18-s11: get_state() failure escaping run_forever()'s clean-up -> no
block stopped, Repeat keeps re-sending.)

Genuine defects of the pinned tree found by this check (both confirmed, replays in known/,
candidate repairs validated in a scratch copy; with both repairs applied the check is clean):

 C18/forward/exception/TypeError/incoming-repeat-item        (DESIGN.md section 6, F1)
     Repeat -> Repeat: the second block calls send(self, **data, repeat=0) with data that
     already contain the first block's 'repeat' item -> TypeError in the handler -> the
     simulation is aborted.   known/C18-F1-repeat-to-repeat-TypeError.json
 C18/repetition/stale/newer-event-already-forwarded          (new)
     an event that arrives in the loop iteration in which the time-out of the pending
     repetition fires (e.g. exactly 'interval' after the previous event) is forwarded with
     repeat=0 and THEN the replaced event is re-sent once more with repeat=N+1: the
     destination receives obsolete data after the newer data (wait_for() raises TimeoutError
     although the queue already holds the newer event). Plain schedule, no latency/cost
     needed.   known/C18-stale-repetition-after-newer-event.json

Sensitivity (quick tier, mutants applied to the repaired scratch copy; all caught):

 M1  count test 'repeat < count' -> '<='                    caught repetition/count-exceeded
 M2  original not re-sent                                   caught forward/missing
 M3  numbering not reset by a newer event                   caught repetition/number, early
 M4  orig_source dropped                                    caught data/orig-source
 M5  orig_source kept from the first Repeat of a chain      caught data/orig-source (chain only)
 M6  event after count was reached is not repeated          caught repetition/overdue, number
 M7  foreign event type forwarded and repeated              caught forward/foreign-type
 M9  implicit Repeat ignores count                          caught repetition/count-exceeded
 M10 second event of one instant not queued                 caught repetition/stale, overdue
 M11 output not updated by repetitions                      caught output-value
 M12 output not reset to 0 by a newer event                 caught output-value
 M13 interval 0.1 % short                                   caught repetition/early
 M14 obsolete repetition not suppressed (= defect 2)        caught repetition/stale/newer-...
 M15 main task not cancelled at stop                        caught after-stop/{task-left,
                                                            timer-left,delivery}
 M16 incoming 'repeat' item kept (= defect F1)              caught forward/exception/...
 M17 a data item lost in repetitions (original intact)      caught data/items
 M18 count off by one only after a restart                  caught repetition/overdue, late
 M19 newer event does not restart the interval              caught repetition/early
 (M1-M4 are the mutants of DESIGN.md section 4; edzed's own 6 Repeat tests pass with both
 repairs applied.)
"""

from __future__ import annotations

import asyncio
import copy

from simkit import seams
from simkit.runner import Run, PlanError, canon, gen_knobs
from simkit.storage import SimStorage
from models.repeat_model import RepeatMonitor, predict
from checks import fsmlib

edzed = seams.install()

PROP = 'C18'
LEVEL = 'exploration'
RUNS = {'quick': 80000, 'thorough': 3000000}
CHUNK = 500
RULE = ("one run = chain of 1-2 (12 % of the random runs: 3) Repeat blocks (explicit / implicit via Event(repeat=,count=), "
        "count in {None,0,1,3}, interval numeric or string) fed by two sender blocks and "
        "external events: 1-4 events of the repeated type plus 0-2 of other types, each aimed "
        "at a predicted repetition instant of one of the Repeat blocks with an offset in "
        "{-0.1s..-1us, 0, +1us..+0.1s} or placed freely, optionally sent directly to the second "
        "Repeat, optionally bounced 0-2 loop iterations inside the instant; shutdown aimed the "
        "same way, 30 % of the random runs end by abort(exc) / Task.cancel() of the simulation "
        "task / a 'shutdown' or 'abort' event to _ctrl (external or sent by a circuit block) "
        "instead of shutdown(); loop knobs: half of the runs latency-free and zero-cost (exact timing is "
        "demanded), the rest with drawn latency/cost (one-sided bounds); run indices below 1536 "
        "walk topology x count x number of events systematically; a fifth of the other runs has "
        "a bystander block with a slow asynchronous initialisation (ending shortly after a "
        "predicted repetition / around an event / after the stop / before the first event) and "
        "does not wait for wait_init(), 60 % of those with persistent storage and a persistent "
        "Input that is initialised only in the second init pass / from saved state / never; "
        "non-trivial = at least one "
        "repetition (repeat>=1) was observed, or a pending repetition was pre-empted by a newer "
        "event or by the stop; distinct = hash of the abstracted history (per delivery: block "
        "index, kind input/original/repetition, repeat number, event ordinal, same-instant flag)")
REACH_EXPECTED = ['tie_event_first', 'tie_repetition_first', 'same_instant_events', 'preempted',
                  'count_reached', 'restart_numbering', 'unlimited_long', 'foreign_type',
                  'implicit_repeat', 'chain_repetition_forwarded', 'chain_direct_to_second',
                  'stop_with_pending_repetition', 'stop_at_repetition_instant', 'late_repetition',
                  'bounced_event', 'string_interval', 'event_without_source',
                  'event_during_slow_init', 'repetition_during_slow_init',
                  'init_completed_after_repetition', 'stop_during_slow_init',
                  'chain_of_three', 'stop_kind_abort', 'stop_kind_cancel',
                  'stop_kind_ctrl_shutdown', 'stop_kind_ctrl_abort', 'stop_kind_sender_ctrl']
ASSUMPTIONS = [
    "latency-free zero-cost stratum: a repetition is demanded exactly 'interval' after the "
    "previous (re-)send, compared with 1 microsecond tolerance (float rounding of loop.time())",
    "other strata: not earlier than 'interval' after the previous (re-)send; overdue only when "
    "later than drawn latency + 50 x per-callback cost",
    "a repetition is demanded only while the circuit is running: between the call of shutdown() "
    "and its return repetitions are allowed, not required; after the return none may occur",
    "stacked Repeat blocks: each Repeat copies the incoming 'source' to 'orig_source' "
    "(DESIGN.md 3.3), the incoming 'repeat' item is replaced by the block's own number",
    "event data never contain the items 'repeat'/'orig_source' unless they come from a Repeat",
    "durations given as strings are looked up in the generator's own table, not parsed by the model",
]

INTERVALS = [0.5, 1.0, 2.0, 0.25, 1.5, '0.25s', '2s', '1.5s', '0h0m1s', 'PT0.5S']
COUNTS = [None, 0, 1, 3]
OFFSETS_US = [-100_000, -1_000, -1, 0, 0, 0, 0, 1, 1_000, 100_000]
VALUES = [0, 1, True, None, 'on', 'off', 2.5, [1, 2], {'a': 1}, '']
ETYPES = ['put', 'E1', 'set']
TOPOLOGIES = [            # (implicit flags of the chain, first element is fed by the senders)
    [False], [True], [False, False], [True, False], [False, True], [True, True]]
TOPOLOGIES3 = [[False, False, False], [True, False, True], [False, True, False], [True, True, True]]
STOP_KINDS = ['shutdown', 'abort', 'cancel', 'ctrl_shutdown', 'ctrl_abort', 'sender_ctrl']


def interval_s(interval):
    if isinstance(interval, str):
        try:
            return fsmlib.STR_DURATIONS[interval]
        except KeyError:
            raise PlanError(f"unknown duration string {interval}") from None
    return float(interval)


# --------------------------------------------------------------------------- generation

def gen(rng, tier, index=0):
    if index < 1536:
        k = index
        topo = TOPOLOGIES[k % 6]
        k //= 6
        count0 = COUNTS[k % 4]
        k //= 4
        nmatch = 1 + k % 4
        k //= 4
        count1 = COUNTS[k % 4]
        exact = bool((k // 4) % 2)
    else:
        topo = rng.choice(TOPOLOGIES if rng.random() < 0.85 else TOPOLOGIES[:2])
        if rng.random() < 0.12:
            topo = rng.choice(TOPOLOGIES3)      # beyond the stated scope: chains of three
        count0 = rng.choice(COUNTS)
        count1 = rng.choice(COUNTS)
        nmatch = rng.randint(1, 4)
        exact = rng.random() < 0.5
    etype = rng.choice(ETYPES)
    chain = []
    for i, implicit in enumerate(topo):
        interval = rng.choice(INTERVALS)
        if i >= 1 and rng.random() < 0.35:
            interval = chain[0]['interval']       # equal deadlines in the chain
        chain.append({'name': f"r{i + 1}", 'implicit': implicit, 'interval': interval,
                      'count': count0 if i == 0 else count1 if i == 1 else rng.choice(COUNTS),
                      'byname': rng.random() < 0.3})
    knobs = gen_knobs(rng, latency=not exact, cost=not exact, ties=True)
    if exact:
        knobs['tie_permute'] = rng.random() < 0.7
    elif not (knobs['latency_ns'] or knobs['cost_ns']):
        knobs['latency_ns'] = 300_000

    cfg = [(int(round(interval_s(c['interval']) * 1e6)), c['count']) for c in chain]
    max_iv = max(c[0] for c in cfg)
    nforeign = rng.choice([0, 0, 1, 1, 2])
    kinds = ['m'] * nmatch + ['f'] * nforeign
    rng.shuffle(kinds)
    if kinds[0] == 'f' and rng.random() < 0.7:        # mostly start with a real event
        j = kinds.index('m')
        kinds[0], kinds[j] = kinds[j], kinds[0]
    ops = []
    inputs = []
    t = 100_000
    foreign = [e for e in ETYPES + ['other', etype + 'x', etype.upper()] if e != etype]

    def upcoming(after_us):
        reps = predict(cfg, inputs, after_us + 8 * max_iv)
        cand = sorted({d for lst in reps for d in lst if d >= after_us - 1})
        return cand[:5]

    for n, kind in enumerate(kinds):
        cand = upcoming(t)
        if n and cand and rng.random() < 0.7:
            d = rng.choice(cand)
            t = max(t, d + rng.choice(OFFSETS_US))
        elif n:
            t += rng.choice([0, 0, 50_000, 300_000, max_iv // 2, max_iv + 130_000,
                             3 * max_iv + 10_000])
        idx = 0
        if len(chain) > 1 and rng.random() < 0.25:
            idx = 1 if len(chain) == 2 else rng.choice([1, 2])
        data = {'k': n + 1, 'value': rng.choice(VALUES)}
        if rng.random() < 0.3:
            data['note'] = rng.choice(['x', [3], None])
        op = {'t': round(t / 1e6, 6), 'to': idx, 'src': rng.choice(['sa', 'sa', 'sb', 'ext'] if rng.random() < 0.9 else ['raw']),
              'et': etype if kind == 'm' else rng.choice(foreign), 'data': data,
              'hops': rng.choice([0, 0, 0, 1, 2])}
        ops.append(op)
        if kind == 'm':
            inputs.append((t, idx))
    cand = upcoming(t)
    if cand and rng.random() < 0.6:
        stop = max(t, rng.choice(cand) + rng.choice(OFFSETS_US))
    else:
        stop = t + rng.choice([0, 1_000, 300_000, max_iv, 4 * max_iv + 70_000, 9 * max_iv])
    plan = {'knobs': knobs, 'etype': etype, 'chain': chain, 'ops': ops,
            'stop_at': round(stop / 1e6, 6), 'stop_hops': rng.choice([0, 0, 1, 2]),
            'drain': round(5 * max_iv / 1e6 + 1.0, 6)}
    if index >= 1536 and rng.random() < 0.3:
        plan['stop_kind'] = rng.choice(STOP_KINDS[1:])
    if index >= 1536 and rng.random() < 0.2:
        # slow asynchronous initialisation of ANOTHER block: the events (legal as soon as
        # is_ready() is true) reach the Repeat blocks before the circuit is initialised
        reps = sorted({d for lst in predict(cfg, inputs, stop + 8 * max_iv) for d in lst})
        r = rng.random()
        if reps and r < 0.55:
            dur = rng.choice(reps[:4]) + rng.choice([1_000, 50_000, max_iv // 2, max_iv // 4])
        elif r < 0.75:
            dur = rng.choice(ops)['t'] * 1e6 + rng.choice([-50_000, 0, 1, 70_000])
        elif r < 0.9:
            dur = stop + rng.choice([10_000, max_iv, 3 * max_iv])     # stop during the init
        else:
            dur = rng.choice([10_000, 60_000])                       # over before the first event
        plan['slow_init'] = {'dur': round(max(dur, 1_000) / 1e6, 6),
                             'persist': rng.random() < 0.6,
                             'cfg': rng.choice(['initdef', 'initdef', 'saved'])}
    return plan


# --------------------------------------------------------------------------- execution

class Sender(edzed.SBlock):
    """Sends the event selected by 'port' with the given payload, as a block does."""

    def init_regular(self):
        self.set_output(None)

    def _event_go(self, *, port, payload, **_data):
        return self.x_ports[port].send(self, **payload)


def build(run, plan):
    etype = plan.get('etype')
    chain = plan.get('chain')
    if not isinstance(etype, str) or not etype or not isinstance(chain, list) \
            or not 1 <= len(chain) <= 3:
        raise PlanError('bad chain/etype')
    knobs = run.knobs
    exact = not (knobs['latency_ns'] or knobs['cost_ns'])
    tol = 1000
    slack = tol if exact else knobs['latency_ns'] + 50 * knobs['cost_ns'] + tol
    probe = fsmlib.Recorder('probe', x_sink=lambda *_a: None)
    blocks = [None] * len(chain)
    match_ev = [None] * len(chain)
    dest = probe
    try:
        for i in reversed(range(len(chain))):
            c = chain[i]
            kwargs = {}
            if c['count'] is not None or c.get('byname'):
                kwargs['count'] = c['count']
            if c['implicit']:
                ev = edzed.Event(dest, etype, repeat=c['interval'], **kwargs)
                blk = ev.dest
                run.fired('reach:implicit_repeat')
            else:
                blk = edzed.Repeat(c['name'], dest=dest.name if c.get('byname') else dest,
                                   etype=etype, interval=c['interval'], **kwargs)
                ev = edzed.Event(c['name'] if c.get('byname') else blk, etype)
            if not isinstance(blk, edzed.Repeat):
                run.violate('C18/implicit/not-a-repeat',
                            f"Event(..., repeat=) gave destination {canon(blk)}")
                raise PlanError('no Repeat block')
            if isinstance(c['interval'], str):
                run.fired('reach:string_interval')
            blocks[i] = blk
            match_ev[i] = ev
            dest = blk
    except PlanError:
        raise
    except Exception as err:
        raise PlanError(f"circuit construction: {type(err).__name__}: {err}") from None
    monitors = []
    if len(chain) == 3:
        run.fired('reach:chain_of_three')
    for i, c in enumerate(chain):
        mon = RepeatMonitor(blocks[i].name, etype, int(round(interval_s(c['interval']) * 1e9)),
                            c['count'], slack_ns=slack, tol_ns=tol)
        mon.blk = blocks[i]
        mon.idx = i
        mon.depth = 0
        monitors.append(mon)
    ports = {}
    for i, blk in enumerate(blocks):
        ports[f"m{i}"] = match_ev[i]
    for op in plan['ops']:
        i = op.get('to', 0)
        if not isinstance(i, int) or not 0 <= i < len(blocks):
            raise PlanError('op refers to a missing Repeat')
        if op.get('src') not in ('sa', 'sb', 'ext', 'raw') or not isinstance(op.get('data'), dict) \
                or not isinstance(op.get('et'), str) or not op['et']:
            raise PlanError('bad op')
        if any(key in op['data'] for key in ('source', 'orig_source', 'repeat')):
            raise PlanError('reserved data item in the payload')
        if op['et'] != etype and f"f{i}:{op['et']}" not in ports:
            try:
                ports[f"f{i}:{op['et']}"] = edzed.Event(blocks[i], op['et'])
            except Exception as err:
                raise PlanError(f"Event: {err}") from None
    stop_kind = plan.get('stop_kind', 'shutdown')
    if stop_kind not in STOP_KINDS:
        raise PlanError('bad stop_kind')
    if stop_kind.startswith('ctrl') or stop_kind == 'sender_ctrl':
        try:
            ports['ctrl_sd'] = edzed.Event('_ctrl', 'shutdown')
            ports['ctrl_ab'] = edzed.Event('_ctrl', 'abort')
        except Exception as err:
            raise PlanError(f"Event: {err}") from None
    senders = {name: Sender(name, x_ports=ports) for name in ('sa', 'sb')}
    slow = plan.get('slow_init')
    if slow is not None:
        if not isinstance(slow, dict) or not isinstance(slow.get('dur'), (int, float)) \
                or isinstance(slow.get('dur'), bool) or slow['dur'] < 0:
            raise PlanError('bad slow_init')
        if any(float(op['t']) < 0.01 for op in plan['ops']) or float(plan['stop_at']) < 0.01:
            raise PlanError('operation before the blocks were started')

        async def slow_coro():
            await asyncio.sleep(float(slow['dur']))
            run.log('slow-init-done')
            return 'S'
        try:
            edzed.InitAsync('slow', init_coro=[slow_coro], init_timeout=float(slow['dur']) + 100.0)
            if slow.get('persist'):
                cfg_mode = slow.get('cfg', 'initdef')
                storage = SimStorage({"<Input 'cfg'>": 7} if cfg_mode == 'saved' else None)
                edzed.get_circuit().set_persistent_data(storage)
                # no saved state: gets its value only in the second (post-async) init pass
                edzed.Input('cfg', persistent=True, initdef=0)
        except Exception as err:
            raise PlanError(f"slow init blocks: {type(err).__name__}: {err}") from None
    return probe, blocks, monitors, senders, exact


def execute(plan, trace=False):
    run = Run(plan['knobs'])
    st = {'stopping': False, 'stopped': False, 'init': True, 'op': None, 'dead': False,
          'nontrivial': False, 'init_done': False}
    slow = plan.get('slow_init')
    try:
        probe, blocks, monitors, senders, exact = build(run, plan)
        etype = plan['etype']
        circuit = edzed.get_circuit()
        loop = run.loop
        upstream = {}       # id of destination block -> monitor of the Repeat sending to it
        own = {}
        for mon in monitors:
            own[id(mon.blk)] = mon
            nxt = blocks[mon.idx + 1] if mon.idx + 1 < len(blocks) else probe
            upstream[id(nxt)] = mon
        last_in_ns = {}

        def flush(mon):
            for clause, msg in mon.drain():
                if st['dead']:
                    continue
                run.violate(f"C18/{clause}", f"{mon.name} (chain position {mon.idx + 1} of "
                            f"{len(monitors)}): {msg}")
                if clause.startswith('forward/exception'):
                    st['dead'] = True       # the simulation is being aborted
            for what in mon.drain_marks():
                run.fired('reach:' + what)
                if what == 'preempted':
                    st['nontrivial'] = True

        def hook(phase, blk, ev_type, arg):
            now = loop._ns
            mine = own.get(id(blk))
            if phase != 'pre':
                if mine is not None and not st['stopped']:
                    mine.depth -= 1
                    mine.input_end(now, phase == 'post', arg if phase == 'exc' else None)
                    flush(mine)
                return
            data = copy.deepcopy(arg)
            if st['stopped']:
                run.violate('C18/after-stop/delivery',
                            f"{blk.name} received {canon(ev_type)} {canon(data)} after the "
                            "simulation had stopped")
                return
            up = upstream.get(id(blk))
            if up is not None:
                if up.depth > 0:
                    kind = 'orig'
                elif st['op'] is not None:
                    kind = None         # sent by a sender block / external event directly
                else:
                    kind = 'rep'
                if kind is not None:
                    seq0 = up.cur.seq if up.cur is not None else 0
                    up.output(now, ev_type, data, kind == 'orig')
                    run.log('out', up.idx, kind, canon(ev_type), canon(data))
                    run.beh(up.idx, kind, canon(data.get('repeat')), seq0)
                    if kind == 'rep':
                        st['nontrivial'] = True
                        if not st['init_done']:
                            up.rep_in_window = True
                            run.fired('reach:repetition_during_slow_init')
                        if mine is not None:
                            run.fired('reach:chain_repetition_forwarded')
                    flush(up)
            if mine is not None:
                mine.depth += 1
                mine.touched = True
                if not st['init_done']:
                    run.fired('reach:event_during_slow_init')
                    if ev_type == etype:
                        mine.in_window = True
                if mine.idx == 1 and up is not None and up.depth == 0 and st['op'] is not None:
                    run.fired('reach:chain_direct_to_second')
                run.log('in', mine.idx, canon(ev_type), canon(data))
                run.beh(mine.idx, 'in', ev_type == etype, last_in_ns.get(mine.idx) == now)
                last_in_ns[mine.idx] = now
                mine.input_begin(now, ev_type, data)
                flush(mine)

        for blk in blocks + [probe]:
            fsmlib.hook_events(blk, hook)

        def check_outputs(where):
            for mon in monitors:
                if not st['init_done'] and not getattr(mon, 'touched', False):
                    continue    # not initialised yet: gets its output with the first event
                                # or in the second initialisation pass
                out = mon.blk.output
                want = mon.expected_output()
                if out != want or isinstance(out, bool):
                    run.violate('C18/output-value',
                                f"{mon.name} {where}: output {canon(out)}, the last repeat number "
                                f"sent is {want}")

        def quiescent():
            if st['stopping'] or st['init'] or st['dead'] or circuit.error is not None:
                return
            now = loop._ns
            for mon in monitors:
                mon.idle(now)
                flush(mon)
            check_outputs('at an idle point')
        loop.quiescence_hook = quiescent

        def do_op(op):
            if st['dead'] or not circuit.is_ready():
                run.log('skipped', op)
                return
            i = op['to']
            match = op['et'] == etype
            port = f"m{i}" if match else f"f{i}:{op['et']}"
            st['op'] = op
            run.log('op', op)
            if op.get('hops'):
                run.fired('reach:bounced_event')
            try:
                if op['src'] == 'raw':
                    # the public SBlock.event() called directly: no 'source' item at all
                    run.fired('reach:event_without_source')
                    blocks[i].event(op['et'], **copy.deepcopy(op['data']))
                elif op['src'] == 'ext':
                    edzed.ExtEvent(blocks[i], op['et'], source='drv').send(
                        **copy.deepcopy(op['data']))
                else:
                    edzed.ExtEvent(senders[op['src']], 'go').send(
                        port=port, payload=copy.deepcopy(op['data']))
            except Exception as err:    # pylint: disable=broad-except
                run.log('op-exc', err)
            finally:
                st['op'] = None
            if not st['dead'] and circuit.error is None:
                check_outputs('after an event')

        def bounce(hops, fn, *args):
            if hops > 0:
                loop.call_soon(bounce, hops - 1, fn, *args)
            else:
                fn(*args)

        async def main():
            simtask = asyncio.create_task(circuit.run_forever())

            async def initialised():
                try:
                    await circuit.wait_init()
                except edzed.EdzedInvalidState as err:
                    if st['stopping']:
                        run.log('stopped-during-init')
                        run.fired('reach:stop_during_slow_init')
                        return
                    run.violate('C18/start-failed', f"circuit did not start: {canon(err)}")
                    st['dead'] = True
                    return
                st['init_done'] = True
                run.log('initialised')
                if not st['dead']:
                    if any(getattr(m, 'rep_in_window', False) for m in monitors):
                        run.fired('reach:init_completed_after_repetition')
                    check_outputs('after the start' if slow is None else
                                  'after the initialisation completed')
            if slow is None:
                await initialised()
            else:
                # events are legal as soon as is_ready() is true: do not wait
                waiter = asyncio.create_task(initialised())
            st['init'] = False
            for op in plan['ops']:
                run.at(float(op['t']), bounce, int(op.get('hops', 0)), do_op, op)
            fut = loop.create_future()

            def release():
                if not fut.done():
                    fut.set_result(None)
            run.at(float(plan['stop_at']), bounce, int(plan.get('stop_hops', 0)), release)
            await fut
            now = loop._ns
            if not st['dead'] and circuit.error is None:
                for mon in monitors:
                    mon.idle(now, 'shutdown requested')
                    flush(mon)
                    if mon.pending():
                        run.fired('reach:stop_with_pending_repetition')
                        st['nontrivial'] = True
                        if abs(now - mon.due_ns(mon.cur)) <= mon.tol_ns:
                            run.fired('reach:stop_at_repetition_instant')
            st['stopping'] = True
            for mon in monitors:
                mon.required = False
            run.log('stop-requested')
            err = None
            stop_kind = plan.get('stop_kind', 'shutdown')
            expected = None
            # termination other than shutdown(): nothing may be re-sent afterwards either
            if stop_kind != 'shutdown' and circuit.is_ready():
                run.fired('reach:stop_kind_' + stop_kind)
                try:
                    if stop_kind == 'abort':
                        expected = RuntimeError('driver abort')
                        circuit.abort(expected)
                    elif stop_kind == 'cancel':
                        simtask.cancel()
                    elif stop_kind == 'ctrl_shutdown':
                        edzed.ExtEvent(circuit.findblock('_ctrl'), 'shutdown').send()
                    elif stop_kind == 'ctrl_abort':
                        expected = edzed.EdzedCircuitError
                        edzed.ExtEvent(circuit.findblock('_ctrl'), 'abort').send(error='drv')
                    elif stop_kind == 'sender_ctrl':
                        edzed.ExtEvent(senders['sb'], 'go').send(port='ctrl_sd', payload={})
                except Exception as exc:    # pylint: disable=broad-except
                    run.log('stop-exc', exc)
            try:
                await circuit.shutdown()
            except Exception as exc:    # pylint: disable=broad-except
                err = exc
            if slow is not None:
                await waiter
            st['stopped'] = True
            run.log('stopped', err)
            if err is not None and expected is not None and (
                    err is expected or isinstance(expected, type) and isinstance(err, expected)):
                err = None
            if err is not None and not st['dead'] and not run.violations:
                run.violate(f"C18/simulation-error/{type(err).__name__}",
                            f"the simulation ended with {canon(err)}")
            await asyncio.sleep(0)
            return simtask

        run.run(main())
        if run.harness_error is None and st['stopped']:
            for desc in run.pending_tasks():
                run.violate(f"C18/after-stop/task-left/{desc.split('|')[0]}",
                            f"task still pending after the simulation stopped: {desc}")
            for qual, owner, handle in run.live_timers():
                if not getattr(handle, '_sim_exact', False):
                    run.violate(f"C18/after-stop/timer-left/{qual}",
                                f"timer still pending after the simulation stopped: {qual} {owner}")
            run.run_more(float(plan.get('drain', 10.0)))
        res = run.result()
        if not st['nontrivial']:
            res['behaviour'] = None
        if trace:
            res['trace'] = run.trace
        return res
    finally:
        run.close()
