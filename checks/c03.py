"""
C03 - an FSM follows its transition table and runs its actions in the documented order.

Generated FSM classes x event histories executed in a real circuit on the virtual loop;
events arrive externally (ExtEvent), from another block (Event, also Goto), from the FSM's
own entry actions (chained) and from zero-length timers. Oracle: reference interpreter
(models/fsm_model.py) stepped event by event: return value, next state, output, the exact
ordered log of cond/exit/enter actions and on_exit/on_enter/on_notrans/on_output events, and
the fsm_event_data each action reads.
"""

from __future__ import annotations

import asyncio

from simkit import seams
from simkit.runner import Run, PlanError, canon, gen_knobs
from simkit.storage import SimStorage
from models.fsm_model import FsmModel, ModelError, UNDEF
from checks import fsmlib

edzed = seams.install()

PROP = 'C03'
LEVEL = 'exploration'
RUNS = {'quick': 120000, 'thorough': 1500000}
CHUNK = 500
RULE = ("one run = one generated FSM class (1-4 states, 1-3 events; specific / 'a|b' / list / "
        "any-state / forbidden rules; cond/enter/exit as methods and/or instance callbacks; entry "
        "actions that chain; zero-length and infinite timed states; calc_output returning UNDEF in "
        "some states) and a history of 1-8 events (table events with data, unknown events, Goto "
        "from another block, condition flags toggled in between); run indices below 4000 are "
        "restricted to <=2 states x <=2 events so the small space is covered densely; "
        "three in eight machines are persistent blocks of a circuit with storage (sync_state "
        "on/off), one in six blocks is an instance of a subclass that adds nothing (found F27); "
        "non-trivial = at least one accepted transition after initialisation; distinct = hash of "
        "(class shape, per event: kind, accepted/rejected/error, action log shape)")
REACH_EXPECTED = ['chained', 'any_state_rule_used', 'specific_beats_any', 'forbidden_rule',
                  'cond_false', 'notrans', 'goto_from_block', 'unknown_event', 'multi_chain_error',
                  'chain_limit_error', 'zero_timer_chain', 'undef_output_state', 'both_cond_kinds']
ASSUMPTIONS = [
    "when both an instance callback and a method exist for one action their relative order is "
    "left free (documented); chained requests are made by the method",
]


def gen(rng, tier, index=0):
    small = index < 4000
    spec, inst = fsmlib.gen_spec(
        rng, 0, timers=rng.random() < 0.5, max_states=2 if small else 4,
        max_events=2 if small else 3)
    # C03 is not about time: keep only zero / infinite durations
    for s, tm in spec['timers'].items():
        tm['dur'] = rng.choice([0, 0.0, 'inf', 'inf', -1.0])
    inst['t'] = {s: rng.choice([0, 'inf']) for s in inst['t'] if s in spec['timers']}
    for reqs in inst['chain'].values():
        for req in reqs:
            if 'duration' in req['data']:
                req['data']['duration'] = rng.choice([0, 'inf'])
    events = sorted({r[0] for r in spec['rules']})
    states = list(spec['states']) + [s for s in spec['timers'] if s not in spec['states']]
    ops = []
    for _ in range(rng.randint(1, 8)):
        r = rng.random()
        if r < 0.12:
            ops.append({'op': 'flag', 'key': rng.choice(['m:', 'i:']) + rng.choice(events),
                        'val': rng.random() < 0.4})
            continue
        if r < 0.22:
            ops.append({'op': 'goto', 'state': rng.choice(states), 'data': {}})
            continue
        data = {}
        if rng.random() < 0.4:
            data['tag'] = f"d{len(ops)}"
        if rng.random() < 0.15:
            data['ok'] = False
        if rng.random() < 0.1:
            data['duration'] = rng.choice([0, 'inf'])
        ev = rng.choice(events) if rng.random() < 0.93 else 'bogus'
        ops.append({'op': 'ev', 'ev': ev, 'data': data, 'via': rng.choice(['ext', 'ext', 'blk']),
                    'yield': rng.random() < 0.5})
    knobs = gen_knobs(rng, latency=False, cost=True, ties=False)
    # a quarter of the machines are persistent blocks of a circuit with storage (the state is
    # saved after every event): table, actions, results and event data must not change
    persist = rng.choice([None, None, None, None, None, 'sync', 'sync', 'nosync'])
    # a sixth of the blocks are instances of a subclass that adds nothing: the machine (table,
    # timers and the cond_/enter_/exit_ methods of the parent class) must be inherited
    subclass = rng.random() < 0.17
    return {'knobs': knobs, 'spec': spec, 'inst': inst, 'ops': ops, 'persist': persist,
            'subclass': subclass}


class Sender(edzed.SBlock):
    """Forwards an event to the FSM through a regular block-to-block Event."""

    def init_regular(self):
        self.set_output(0)

    def _event_fire(self, *, etype, data, **_kw):
        return edzed.Event(self.x_dest, etype).send(self, **data)


def execute(plan, trace=False):
    run = Run(plan['knobs'])
    try:
        spec, inst = plan['spec'], plan['inst']
        model = FsmModel(spec, inst, fsmlib.STR_DURATIONS)
        cblog = []
        state = {'depth': 0, 'top': None, 'result': None}

        def sink(_blk, entry):
            cblog.append(entry)

        def rec(_rec, _etype, data):
            cblog.append(fsmlib.fsm_log_entry(data))

        recorder = fsmlib.Recorder('rec', x_sink=rec)
        cls = fsmlib.build_class(spec, sink)
        if plan.get('subclass'):
            parent = cls
            cls = type(cls.__name__ + 'Sub', (cls,), {'__doc__': 'adds nothing'})
            run.fired('reach:trivial_subclass')
            # diagnosis only (private tables): did the subclass lose callbacks of its parent?
            pm, cm = getattr(parent, '_ct_methods', None), getattr(cls, '_ct_methods', None)
            if isinstance(pm, dict) and isinstance(cm, dict) and any(
                    set(pm.get(k, {})) - set(cm.get(k, {})) for k in pm):
                orig_violate = run.violate

                def violate(sig, msg):
                    orig_violate(sig + '/subclass-lost-inherited-methods',
                                 msg + ' [the block is an instance of a subclass that adds '
                                 'nothing; the cond_/enter_/exit_ methods of the parent class '
                                 'are not in its tables]')
                run.violate = violate
        kw = {}
        for s in model.states:
            kw[f"on_enter_{s}"] = edzed.Event(recorder, 'enter')
            kw[f"on_exit_{s}"] = edzed.Event(recorder, 'exit')
        persist = plan.get('persist')
        if persist is not None:
            if persist not in ('sync', 'nosync'):
                raise PlanError('bad persist')
            edzed.get_circuit().set_persistent_data(SimStorage())
            kw['persistent'] = True
            kw['sync_state'] = persist == 'sync'
            run.fired('reach:persistent_fsm')
        blk = fsmlib.build_instance(cls, spec, inst, sink, on_notrans=edzed.Event(recorder, 'nt'),
                                    on_output=edzed.Event(recorder, 'out'), **kw)
        sender = Sender('sender', x_dest=blk)

        def hook(phase, _blk, etype, arg):
            if phase == 'pre':
                state['depth'] += 1
                if state['depth'] == 1:
                    jet = {'goto': etype.state} if isinstance(etype, edzed.Goto) else etype
                    state['top'] = (jet, dict(arg))
                    state['result'] = None
                    del cblog[:]
                return
            state['depth'] -= 1
            if state['depth'] == 0:
                state['result'] = (phase, arg)
        fsmlib.hook_events(blk, hook)

        circuit = edzed.get_circuit()
        info = {'dead': None, 'accepted': 0}
        shape = [len(model.states), len(model.events), len(spec['timers']),
                 len(spec['methods']), len(inst['funcs']), len(inst['chain'])]

        def judge(label):
            """Compare the delivery that just finished with the model."""
            if state['top'] is None or state['result'] is None:
                run.violate('C03/not-delivered', f"{label}: the event did not reach the FSM")
                return
            jetype, data = state['top']
            phase, arg = state['result']
            state['top'] = None
            old_state = model.state
            exp_exc = None
            accepted = None
            try:
                accepted = model.event(jetype, data)
            except ModelError as err:
                exp_exc = err.kind
            run.log('event', label, canon(jetype), canon(data), phase, canon(arg), model.state)
            logshape = [e[0] + ':' + str(e[1]) if e[0] in ('enter', 'exit') else e[0]
                        for e in model.log]
            run.beh(label.split(':')[0], 'E' if isinstance(jetype, str) else 'G',
                    exp_exc or accepted, logshape)
            # reach probes
            if any(e[0] == 'chain-req' and e[2] for e in model.log):
                run.fired('reach:chained')
            if any(e[0] == 'zero-timer' and e[2] for e in model.log):
                run.fired('reach:zero_timer_chain')
            if any(e[0] == 'notrans' for e in model.log):
                run.fired('reach:notrans')
            for e in model.log:
                if e[0] == 'conds' and e[2]:
                    if not all(v for _k, v in e[2]):
                        run.fired('reach:cond_false')
                    if len(e[2]) == 2:
                        run.fired('reach:both_cond_kinds')
            if isinstance(jetype, str) and jetype in model.events:
                if (jetype, old_state) in model.table:
                    if (jetype, None) in model.table:
                        run.fired('reach:specific_beats_any')
                    if model.table[(jetype, old_state)] is None:
                        run.fired('reach:forbidden_rule')
                elif (jetype, None) in model.table:
                    run.fired('reach:any_state_rule_used')
            if exp_exc == 'unknown-event':
                run.fired('reach:unknown_event')
                if phase != 'exc' or not isinstance(arg, edzed.EdzedUnknownEvent):
                    run.violate('C03/unknown-event-not-reported',
                                f"{label}: unknown event {jetype}: got {phase} {canon(arg)}")
                if not circuit.is_ready() and not run_state['initialising']:
                    run.violate('C03/unknown-event-stopped-simulation',
                                f"{label}: unknown event {jetype} stopped the simulation")
                return
            if exp_exc is not None:
                info['dead'] = exp_exc
                run.fired('reach:' + exp_exc.replace('-', '_') + '_error')
                if phase != 'exc':
                    run.violate('C03/missing-error',
                                f"{label}: {canon(jetype)} {canon(data)} must be an error ({exp_exc}) "
                                f"but returned {canon(arg)}")
                return
            if phase == 'exc':
                run.violate('C03/unexpected-exception',
                            f"{label}: {canon(jetype)} {canon(data)} in state {old_state} raised "
                            f"{canon(arg)}")
                info['dead'] = 'unexpected'
                return
            if arg is not accepted:
                run.violate('C03/wrong-result',
                            f"{label}: {canon(jetype)} {canon(data)} in state {old_state} returned "
                            f"{canon(arg)}, expected {accepted}")
            if accepted:
                info['accepted'] += 1
                if model.state in inst.get('undef_in', []):
                    run.fired('reach:undef_output_state')
            if ['rw-data'] in cblog:
                run.violate('C03/event-data-writable',
                            f"{label}: fsm_event_data could be modified by an action")
            for e in cblog:
                if e[0] == 'data-changed':
                    run.violate('C03/event-data/changed-within-action',
                                f"{label}: enter_{e[1]} read {e[2]} before and {e[3]} after its "
                                "own chained request: an action must read the data of the event "
                                "that caused it")
                    break
            obs = fsmlib.normalise_observed([e for e in cblog if e != ['rw-data']])
            msg = fsmlib.compare_logs(canon(model.log), canon(obs))
            if msg:
                if msg.startswith('event-data:'):
                    chained = any(e[0] in ('chain-req', 'zero-timer') and e[2] for e in model.log)
                    sig = 'C03/event-data/chained-transition' if chained else 'C03/event-data'
                    run.violate(sig, f"{label}: {canon(jetype)} {canon(data)} from {old_state}: {msg}")
                else:
                    run.violate('C03/action-order',
                                f"{label}: {canon(jetype)} {canon(data)} from {old_state}: {msg}")
            if canon(blk.state) != model.state:
                run.violate('C03/wrong-state',
                            f"{label}: {canon(jetype)} from {old_state}: state {canon(blk.state)}, "
                            f"expected {model.state}")
            exp_out = edzed.UNDEF if model.output == UNDEF else model.output
            if blk.output != exp_out:
                run.violate('C03/wrong-output',
                            f"{label}: output {canon(blk.output)}, expected {canon(model.output)}")

        run_state = {'initialising': True}

        async def main():
            simtask = asyncio.create_task(circuit.run_forever())
            init_err = None
            try:
                await circuit.wait_init()
            except edzed.EdzedInvalidState as err:
                init_err = err
            run_state['initialising'] = False
            judge('init')
            if info['dead'] is None and model.output == UNDEF:
                info['dead'] = 'uninitialised'
            if (init_err is None) != (info['dead'] is None):
                run.violate('C03/init-verdict',
                            f"start-up {'failed: ' + str(init_err) if init_err else 'succeeded'}, "
                            f"model: {info['dead'] or 'ok'}")
            for n, op in enumerate(plan['ops']):
                if info['dead'] is not None or not circuit.is_ready():
                    break
                kind = op['op']
                label = f"{kind}:{n}"
                if kind == 'flag':
                    blk.x_flags[op['key']] = op['val']
                    model.flags[op['key']] = op['val']
                    run.log('flag', op['key'], op['val'])
                    continue
                state['top'] = state['result'] = None
                try:
                    if kind == 'goto':
                        run.fired('reach:goto_from_block')
                        edzed.ExtEvent(sender, 'fire').send(
                            etype=edzed.Goto(op['state']), data=fsmlib.real_data(op['data']))
                    elif op.get('via') == 'blk':
                        edzed.ExtEvent(sender, 'fire').send(
                            etype=op['ev'], data=fsmlib.real_data(op['data']))
                    else:
                        edzed.ExtEvent(blk, op['ev']).send(**fsmlib.real_data(op['data']))
                except Exception as err:    # pylint: disable=broad-except
                    run.log('op-exc', label, err)
                judge(label)
                if op.get('yield'):
                    await asyncio.sleep(0)
            await asyncio.sleep(0)
            err = None
            try:
                await circuit.shutdown()
            except Exception as exc:    # pylint: disable=broad-except
                err = exc
            run.log('stopped', err)
            if info['dead'] in (None, 'unexpected'):
                if err is not None and info['dead'] is None:
                    run.violate('C03/unexpected-abort', f"simulation ended with {canon(err)}")
            elif not isinstance(err, edzed.EdzedCircuitError):
                run.violate('C03/no-abort',
                            f"an FSM error ({info['dead']}) must stop the simulation with an "
                            f"EdzedCircuitError; shutdown() gave {canon(err)}")
            return simtask

        run.run(main())
        res = run.result()
        if not info['accepted']:
            res['behaviour'] = None
        elif res['behaviour']:
            res['behaviour'] = res['behaviour'] + ''.join(map(str, shape))
        if trace:
            res['trace'] = run.trace
        return res
    finally:
        run.close()
