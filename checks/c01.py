"""
C01 - combinational outputs agree with their inputs whenever the circuit is idle.

Generated acyclic circuits of library CBlocks (Not, '_not_NAME' shortcuts, And, Or, Xor,
Override, Compare, FuncBlock with unpack on/off; unnamed inputs, named inputs, groups incl.
empty ones, raw constants and Const objects incl. the 0/False/0.0 and 1/True/1.0 families)
over 1-4 Input/Counter sources, reconvergent fan-out, CBlock -> SBlock feedback through
on_output events (acyclic through events too), references by object / by name (also to
blocks created later), creation order independent of the topological order. The history is
a list of bursts of 1-4 ExtEvent.send() calls without yielding, also before the
initialisation is complete. knobs['hash_salt'] decides the iteration order of sets of
blocks, i.e. the simulator's evaluation order and therefore the glitches.

Oracle (reference model models/cblock_model.py, written from docs/cblocks.rst):
 (a) at every quiescent point of the virtual loop (the simulation task is then blocked on
     its queue) and in the task that has just returned from wait_init(): every CBlock,
     including the automatically created inverters, is at a fixed point of its documented
     function on the *current* outputs of the blocks/constants the plan connected to it;
 (b) every single evaluation (pass-through wrapper of CBlock.eval_block that snapshots the
     inputs): new output == documented function(inputs, previous output) - this pins the
     Compare hysteresis and its half-way rule on the first evaluation;
 (c) monitor for Compare blocks fed directly by a source that only the driver changes: the
     output when idle must result from the values the source had at the points where the
     simulator could run (it may have run at any driver yield, it must have run after the
     last one).
"Equal" is Python ==, types are observed only through functions the circuit itself applies
(FuncBlock with repr / type names), DESIGN.md 3.3.

Additions after the seeded-change round (seeded/C01-s1, C01-s3, C10-s3):
 * 'false-instability': every generated network is acyclic (events included) and therefore
   settles; an "instability" EdzedCircuitError raised before the simulator made 2 x (number
   of all blocks) evaluations in that burst is a violation (docs/errors.rst: "propagates
   through the whole circuit several times"; the code's constant is 3, so the real limit can
   never be a false alarm); beyond the margin the run ends unjudged. The chain stratum of
   the generator makes single bursts that need up to chain-length evaluations per CBlock.
   Caught: limit = 3 x number of CBlocks (seeded C01-s1, 17-26 runs per quick tier).
 * on_output events that fail with the documented non-fatal EdzedUnknownEvent for one edge
   (EventCond): the sender of the external event gets the exception, the circuit stays
   ready and must still agree when idle. Caught: set_output queues the block only after
   its events were sent (seeded C01-s3).
 * CBlocks whose inputs are all constants were already generated: seeded C10-s3 (initial
   eval_set built from oconnections) is caught as idle-undef/*.

Finding on the pinned tree (genuine, own signature C01/const-aliasing/equal-constants-share-
one-Const, replay known/C01-F11-const-aliasing.json): edzed.Const caches its instances in a
dict keyed by the value, so Const(1), Const(True) and Const(1.0) (also 0/False/0.0/-0.0, and
raw constants given to connect(), which are wrapped the same way) are ONE object whose value
is overwritten by whichever was created last - a FuncBlock connected to True reads 1.0
because another block of the circuit uses 1.0. Visible through every type-sensitive function
(repr, type names, str formatting, json). Candidate repair: key the cache by
(type, value, repr). The diagnosis requires that the block's real inputs are exactly the
planned ones except for the type/representation of equal constants; everything else keeps
the generic signatures.

Sensitivity (12 000 runs of the quick tier, VERIF_REPO = scratch copy of /repo with the F11
repair + one mutation; "caught" = exit 1 with the listed signatures):

  mutant                                                              | result
  --------------------------------------------------------------------+---------------------------
  M1  _simulate: no 'eval_set |= cblk.oconnections' after a change    | caught  fixed-point/*
  M2  _simulate: queued blocks dropped when draining after get()      | caught  fixed-point/*
      (variant: drain loop removed altogether -> the mutant spins in  | exit 2  HARNESS worker
      one callback for ever)                                          |         died (never 0)
  M3  select_blk returns the block with the MAX number of dependencies| caught  start-failed/* (a
      (M12: no heuristic at all, eval_set.pop())                      | block sees an UNDEF input)
  M4  Xor: parity -> any                                              | caught  evaluation/Xor
  M5  Compare: low/high swapped                                       | caught  evaluation/Compare,
                                                                      |         compare-history
  M6  Override: 'is' instead of '=='                                  | caught  evaluation/Override
  M7  InputGetter returns a list for groups                           | caught  evaluation/Func
  M8  _finalize forgets oconnections for inputs given by name         | caught  fixed-point/*
  M9  (own) set_output enqueues only when the queue is empty (needs a | caught  fixed-point/*
      burst of several changed sources)                               |
  M10 (own) Compare: first evaluation uses 'low' instead of the middle| caught  evaluation/Compare
  M11 (own) _simulate starts with an empty eval_set                   | caught  idle-undef/*
  M13 (own) a CBlock with fan-out > 2 reports "unchanged"             | caught  fixed-point/*
  M15 (own) Not: compares with False/None/0 instead of truthiness     | caught  evaluation/Not
  M16 (own) 2nd reference to a '_not_X' shortcut resolves to X itself | caught  evaluation/*
  M17 (own) a CBlock event arriving while settling drops one queued   | caught  fixed-point/*
      sequential block (needs CBlock -> SBlock feedback + a burst)    |
  M18 (own) _finalize reorders a group (objects first, names last)    | caught  evaluation/Func
  M24 (own) Compare: '>=' -> '>'                                      | caught  evaluation/Compare
  M25 (own) Override: falsy override treated as null                  | caught  evaluation/Override
  M26 (own) FuncBlock(unpack=False) passes a list                     | caught  evaluation/Func
  M14 (own) instability limit reached -> eval_set silently cleared    | missed: the limit is never
                                                                      | reached in acyclic nets (C10)
  M27 (own) a CBlock does not send the on_output event of its first   | missed: outputs still agree;
      evaluation                                                      | event content is C02's job
The systematic stratum alone (indices < 8096) catches M1, M2, M4, M8, M9, M11, M13.
"""

from __future__ import annotations

import asyncio

from simkit import seams
from simkit.runner import Run, PlanError, canon, gen_knobs
from checks import circlib

edzed = seams.install()

PROP = 'C01'
LEVEL = 'exploration'
RUNS = {'quick': 26000, 'thorough': 2000000}
CHUNK = 500
RULE = ("one run = one acyclic circuit + one history. Run indices 0..8095 of every batch walk "
        "the systematic stratum: all 8096 shapes of <=3 CBlocks (Not/And/Or/Xor, 1-2 inputs "
        "taken from the two boolean Inputs and the earlier CBlocks), each driven through a "
        "closed walk over the four input vectors that uses every one of the 12 ordered "
        "transitions once (two-bit transitions = a burst of two sends without yielding); "
        "reference style, creation order, evaluation order (hash_salt) and an optional extra "
        "block behind a '_not_' shortcut are random there (a stratification of the seeds, not "
        "a claim of exhaustion: the evaluation orders are sampled). Higher indices: random "
        "circuits of 1-8 (thorough: -14) CBlocks of every library type over 1-4 Input/Counter "
        "sources incl. event-fed second-layer sources and an optional source with an "
        "asynchronous initialisation, 1-8 bursts of 1-4 external events, sends before the "
        "initialisation is complete, explicit finalize() in 15 %; 20 % of them are feedback "
        "chains q0 -> f0 => q1 -> f1 => ... of 2-6 event-fed sources with 1-6 wide CBlocks "
        "that are evaluated again in every round and forwarders gated by wide blocks (one "
        "external change needs up to chain length x evaluations per block in one burst), with "
        "0-6 bystander sources; 20 % of the driver-only sources carry an on_output EventCond "
        "event whose type is unknown to its destination for one edge (non-fatal "
        "EdzedUnknownEvent out of ExtEvent.send, the output has changed); half of the blocks "
        "of 60 % of the circuits get names from a pool with awkward ones ('temp'/'emp', "
        "'out'/'ut', 'on', 'not_x', 'tnt', ...). Non-trivial = at least one "
        "CBlock output changed after wait_init() returned. Distinct = hash of (circuit shape "
        "without values, per driver action the sequence of evaluated blocks).")
REACH_EXPECTED = ['glitch_reevaluation', 'burst_of_several_changes',
                  'cblock_event_changed_sblock_while_settling', 'compare_in_hysteresis_zone',
                  'compare_first_eval_in_zone', 'shortcut_to_sblock', 'shortcut_to_cblock',
                  'shortcut_shared', 'name_ref_to_later_block', 'empty_group', 'unpack_off',
                  'equal_constants_of_different_type', 'reconvergent_fanout',
                  'send_before_init_done', 'send_during_async_init', 'systematic_small_shape',
                  'repeated_reference', 'explicit_finalize',
                  'nonfatal_unknown_event_from_output_event',
                  'burst_evaluations_above_number_of_blocks', 'burst_evaluations_above_3x_cblocks',
                  'shortcut_to_name_beginning_like_not']
ASSUMPTIONS = [
    "the simulation task is idle exactly when the virtual loop's ready queue is empty (it has "
    "no await inside the settling loop); the fixed point is also checked in the task that "
    "returns from wait_init()",
    "FuncBlock functions are user code: the model applies the same Python function to the "
    "values the plan connected; calc_output never raises in generated circuits (Compare and "
    "sum get numeric inputs only)",
    "values of sequential blocks are read from the real blocks, not predicted (Input/Counter "
    "semantics are C17/C20); what a CBlock's event does to its destination is C02",
    "Compare started exactly half-way between low and high: both outputs accepted (the "
    "documentation does not decide)",
    "an 'instability' verdict for an acyclic network is a violation only if fewer than "
    "2 x (number of all blocks) evaluations were made in that burst (smallest reading of "
    "docs/errors.rst 'propagates through the whole circuit several times'; the code uses 3); "
    "beyond that margin the run ends unjudged",
]


def gen(rng, tier, index=0):
    knobs = gen_knobs(rng, latency=False, cost=False, ties=False)
    if index < circlib.SMALL_TOTAL:
        spec, ops = circlib.gen_small(rng, index)
        return {'knobs': knobs, 'spec': spec, 'ops': ops, 'pre': [], 'explicit_finalize': False,
                'small': index}
    if rng.random() < 0.2:
        # chains of CBlock -> SBlock event feedback with wide CBlocks re-evaluated per round
        spec = circlib.gen_chain_spec(rng)
        ops = circlib.gen_ops(rng, spec, max_bursts=5, focus='q0')
    else:
        big = tier == 'thorough' and rng.random() < 0.3
        spec = circlib.gen_spec(rng, max_cblocks=14 if big else 8)
        ops = circlib.gen_ops(rng, spec)
    pre = circlib.gen_pre(rng, spec)
    plan = {'knobs': knobs, 'spec': spec, 'ops': ops, 'pre': pre,
            'explicit_finalize': rng.random() < 0.15, 'small': None}
    circlib.rename_plan(rng, plan, prob=0.5 if rng.random() < 0.6 else 0.0)
    return plan


def execute(plan, trace=False):
    run = Run(plan['knobs'])
    sim = None
    try:
        try:
            sim = circlib.Sim(run, plan, PROP)
            sim.build()
        except PlanError:
            raise
        except (KeyError, TypeError, IndexError, AttributeError) as err:
            raise PlanError(f"malformed plan: {type(err).__name__}: {err}") from None
        sim.install()
        sim.reach_static()
        circuit = sim.circuit
        state = {'stopping': False, 'burst': 0}
        ainit = [s for s in plan['spec']['sources'] if s['kind'] == 'ainit']

        def hook():
            if sim.inited and not state['stopping'] and circuit.is_ready():
                sim.check_idle('idle')
        run.loop.quiescence_hook = hook

        def do_pre(op):
            if sim.inited or not circuit.is_ready():
                return
            res = sim.send(op)
            if not isinstance(res, Exception):
                run.fired('reach:send_before_init_done')
                if op['t'] > 0:
                    run.fired('reach:send_during_async_init')

        async def main():
            if plan.get('explicit_finalize'):
                circuit.finalize()
                run.fired('reach:explicit_finalize')
            if plan.get('small') is not None:
                run.fired('reach:systematic_small_shape')
            asyncio.create_task(circuit.run_forever())
            await asyncio.sleep(0)
            limit = ainit[0]['dur'] * 0.9 if ainit else 0.0
            for op in plan.get('pre', []):
                t = min(float(op.get('t', 0.0)), limit)
                if t <= 0.0:
                    do_pre(dict(op, t=0.0))
                else:
                    run.at(t, do_pre, dict(op, t=t))
            try:
                await circuit.wait_init()
            except edzed.EdzedInvalidState as err:
                cause = circuit.error
                if sim.is_instability(cause):
                    verdict = sim.judge_abort(cause)
                    if verdict:
                        run.violate(verdict[0], 'start-up burst: ' + verdict[1])
                    return
                run.violate(f"C01/start-failed/{type(cause).__name__}",
                            f"a valid circuit could not be started: {circlib.cerr(cause)}")
                return
            sim.inited = True
            sim.evals_done()
            sim.check_idle('wait_init')
            for op in plan['ops']:
                if not circuit.is_ready():
                    break
                kind = op['op']
                if kind == 'send':
                    sim.send(op)
                    state['burst'] += 1
                    if state['burst'] == 2:
                        run.fired('reach:burst_of_several_changes')
                    continue
                state['burst'] = 0
                sim.note_yield()
                if kind == 'yield':
                    await asyncio.sleep(0)
                elif kind == 'settle':
                    await asyncio.sleep(0.01)
                else:
                    raise PlanError(f"unknown op {kind}")
                sim.evals_done()
            sim.note_yield()
            await asyncio.sleep(0.01)
            sim.evals_done()
            state['stopping'] = True
            err = None
            try:
                await circuit.shutdown()
            except Exception as exc:    # pylint: disable=broad-except
                err = exc
            run.log('stopped', circlib.cerr(err))
            if err is not None:
                verdict = sim.judge_abort(err)
                if verdict:
                    run.violate(*verdict)

        run.run(main())
        if run.main_exc is not None:
            # nothing in main() may raise: a PlanError means a minimised plan, anything else
            # is an error of this harness and must not pass for a clean run
            if isinstance(run.main_exc, PlanError):
                raise run.main_exc
            raise RuntimeError(f"driver failed: {circlib.cerr(run.main_exc)}") from run.main_exc
        run.beh('shape', sim.shape())
        res = run.result()
        if not sim.n_changes_after_init:
            res['behaviour'] = None
        if trace:
            res['trace'] = run.trace
        return res
    finally:
        if sim is not None:
            sim.uninstall()
        run.close()
