"""
C10 - a circuit that cannot settle is stopped with an 'instability' error after a bounded
number of block evaluations; one that settles is not, and an idle simulator means a
consistent network.

One run = one random boolean network (Not / Xor / And / identity FuncBlock over 1-3 driver
controlled Inputs; in 30% of the runs also constant inputs - literals and edzed.Const objects -
including blocks fed by constants only, which no other block ever triggers) executed by the
real simulator on the virtual loop:
  * 'cyclic'  : 1-3 combinational feedback edges (self loops, rings, nested loops),
  * 'evloop'  : feedback closed through CBlock.on_output -> Input 'put' events (plain,
                negated by an event filter, forwarded through a second Input); such loops go
                through the simulator's queue (CBlock -> event -> Input -> queue -> CBlock),
                they are *not* synchronous event recursion (that is C11's business and is not
                generated: no SBlock ever sends an event towards a block that is handling one),
  * 'acyclic' : feed-forward networks: deep and narrow (20%: a chain of 6-14 blocks, 0-3 stages
                with a second input from a source / constant / earlier stage, possibly passing
                through one event edge) or with reconvergent fan-out (random, 'fan': terminals fed
                by a source directly and through a chain, 'ladder': a block tapping every other
                block of a chain, i.e. 3-5 paths of unequal length into one block while the
                total stays below 2 per block), also with forward event edges,
followed by a history of 1-12 bursts of external 'put' events to the sources; a burst is 1-16
puts sent in one instant (no yield to the event loop): single toggles, several sources, and long
bursts of 4-16 toggles of one or a few sources (also ending in the initial value), most often
on small acyclic networks where the limit (a multiple of the number of blocks) is low.
15% of the runs give one source an additional on_output event that its recipient refuses
(unknown event type for the new value True, False or both, via EventCond): EdzedUnknownEvent is
documented as non-fatal, the driver tolerates it coming out of ExtEvent.send(); the source has
changed nevertheless and the network must be re-evaluated before the simulator pauses.
15% of the runs let one block request the end of the simulation from INSIDE an evaluation round
(on_output event 'shutdown' or 'abort' to '_ctrl', filtered by Edge / not_from_undef), in stable
and in unstable networks: abort() only cancels the simulator task, which takes effect at its
next await, so in an oscillating round the evaluation limit is still what must end the loop.
hash_salt (iteration order of the simulator's set of blocks to evaluate) is part of the plan.

Oracle (reference: checks/cyclib.py, written from the documentation):
  after start-up and after every burst the loop is run until it is quiescent (virtual time
  advances), then
  (a) simulation alive and idle  => every CBlock has an output (not UNDEF) that equals its
      documented function of the current input values (constants are fixed values) and every event-fed Input holds its sender's (filtered) output;
      if brute force over all <= 2^N assignments finds *no* consistent assignment for the
      current source values the more specific 'instability-not-detected' is reported;
  (b) simulation ended => the error is the 'instability' EdzedCircuitError; anything else is
      'unexpected-error' - except that after an in-round stop request (observed by a pass-through
      event filter) ending with the requested stop (cancellation / the abort error of '_ctrl')
      is as legal as the instability error (which error wins is C09's business); the bound
      (d) on the evaluations of the round applies all the same;
  (c) instability reported for an acyclic network (event edges included) whose path-count
      bound for that burst (sum over blocks of the number of paths from the changed sources)
      is <= MARGIN * number-of-blocks => 'false-instability'. This includes the start-up run:
      there every block is evaluated once on its own account and again only for input changes
      after its first evaluation; as the simulator prefers blocks without pending direct
      predecessors (the anchored mechanism) a network without event edges is evaluated in
      dependency order, one evaluation per block - a bare chain of any depth has ONE path to
      every block - and only event edges add re-evaluations (cyclib.Net.path_bound).
      A source changed k times in one instant counts as ONE changed source: the simulator task
      cannot run between the puts, it sees the final values only and settles the network in
      one round per idle moment (its queue may hold the block k times, the set of blocks to
      evaluate holds every block once), so the work is that of one change. The demand is made
      only under this bound;
      The documentation says a circuit is deemed unstable "when the change propagates through
      the whole circuit several times"; MARGIN = 2 is the smallest reading of "several", so a
      limit with another constant (the code uses 3) can never be a false alarm here;
      The premise of the bound ("the simulator computes block outputs when any of the inputs
      changes") is itself checked: more evaluations than the bound in a burst that ended idle
      is reported as a harness error (MAIN-EXC ... path bound exceeded), never silently used;
  (d) boundedness: a pass-through wrapper around each CBlock's eval_block counts evaluations
      per burst; more than 200 * number-of-blocks raises a watchdog exception inside the
      simulator and is the violation 'unbounded-evaluations' ("several times through the whole
      circuit" with a slack of two orders of magnitude: limits of 3, 30 or 100 per block are
      all accepted, an unbounded loop is not);
  (e) a step-cap or Zeno verdict of the virtual loop (a feedback loop that keeps the asyncio
      loop busy for ever while yielding) is the violation 'event-loop-occupied'.
  A network with a consistent assignment may legally end either way (error or consistent idle).

Sensitivity (scratch copies of /repo, quick tier = 70 000 runs, VERIF_SEED=0; all edits in
Circuit._simulate unless noted; "first" = index of the first violating run):
  mutant                                                           result  first  signature(s)
  M1  eval_cnt = 0 whenever an SBlock is taken from the queue      caught      3  unbounded-evaluations/event-loop
      (only loops closed through events run for ever)                             (+ mixed nets)
  M1b eval_cnt = 0 after every evaluation that changed an output   caught      1  unbounded-evaluations/*
  M2  the limit counts only evaluations that changed the output    MISSED         still bounded (<= 3N changes, <= N
                                                                                  evaluations between two changes):
                                                                                  the statement is not violated
  M3  limit x30 (90 per block)                                     not caught     by design: still bounded
  M4  limit 1 per block                                            caught   1534  false-instability/burst, /start-up
      (needs an acyclic net with glitches: evaluations > N, paths <= 2N)
  M5  eval_cnt not reset when the simulator pauses                 caught     40  false-instability/burst
      (needs a history of several stable bursts; minimised replay = 5 toggles of one source)
  M6  SBlocks drained from the queue are dropped                   caught      3  instability-not-detected/*,
                                                                                  inconsistent-when-idle/*
  M7  "cooperative" await sleep(0) + counter reset when the limit  caught      3  unbounded-evaluations/*
      is reached and an event is queued
  M8  a block's own output is ignored as its input change          caught      1  instability-not-detected/
      (self loops only)                                                           combinational-loop
  M12 select_blk prefers the block with the MOST pending inputs    not caught     legal: more glitches, same results
  M13 limit reached -> clear the set and carry on silently         caught      1  instability-not-detected/*
  M14 limit = 3 x number of CBlocks (not of all blocks)            not caught     another constant multiple
  M15 limit 2 per block                                            not caught     another constant multiple
  M19 pause test ignores a non-empty queue (counter reset)         caught      3  unbounded-evaluations/event-loop
      (needs an event loop whose evaluation set drains while the event is queued)
  B1  block.py: SBlock.set_output hands the block to the simulator caught      3  event-loop-occupied/event-loop,
      with loop.call_soon (feedback through events yields to the                  unbounded-evaluations/*, and the
      asyncio loop on every round)                                                model-premise harness error
  B2  block.py: CBlock sends no on_output event for UNDEF -> value caught      3  inconsistent-when-idle/event-edge,
                                                                                  instability-not-detected/*
A loop in the simulator that never calls eval_block (e.g. the queue is never drained) is not
bounded by the watchdog; it ends as a chunk time-out (HARNESS, exit 2), never as success.
"""

from __future__ import annotations

import asyncio
import collections

from simkit import seams
from simkit.runner import Run, PlanError, canon, gen_knobs
from checks import cyclib

edzed = seams.install()

PROP = 'C10'
LEVEL = 'exploration'
RUNS = {'quick': 70000, 'thorough': 4000000}
CHUNK = 1000
MARGIN = 2              # "several times through the whole circuit": at least twice
WATCHDOG_PER_BLOCK = 200
MAX_STEPS = 3_000      # a normal run takes < 100 loop callbacks
RULE = ("one run = one random network of 1-9 (thorough: -11) Not/Xor/And/identity blocks over 1-3 "
        "Inputs (30% of the runs add constant inputs, literal or edzed.Const, and blocks fed by "
        "constants only): 38% with 1-3 combinational feedback edges, 30% with feedback closed through "
        "on_output->Input 'put' events (plain / negating filter / two-Input chain), 32% acyclic "
        "(a fifth of them chains of 6-14 blocks with 0-3 taps, the rest with reconvergent fan-out) "
        "and forward event edges; creation order shuffled, hash_salt "
        "drawn per run; then 1-12 bursts of external puts (single toggle, several sources, "
        "several changes of one source, no change, long bursts of 4-16 toggles in one instant); 15% of "
        "the runs: a source whose extra on_output event is refused (EdzedUnknownEvent) for one or "
        "both values; 15%: a block that sends shutdown/abort to '_ctrl' from inside a round; run indices below 1500 use 1-3 blocks so the "
        "small shapes are covered densely; non-trivial = the network has a cycle (direct or "
        "through events) or at least one burst after start-up evaluated a block or it is acyclic and "
        "at least 6 blocks deep (start-up clause); distinct = hash "
        "of (kind, block ops with fan-in in creation order, number of event inputs, per burst: "
        "consistent assignment exists?, outcome, number of evaluations)")
REACH_EXPECTED = [
    'unsat_detected', 'unsat_detected_at_start', 'unsat_detected_after_burst',
    'unsat_through_event_loop', 'sat_cyclic_idle', 'sat_cyclic_reported_unstable',
    'sat_event_loop_idle', 'event_hop_in_cycle', 'negating_filter_in_cycle',
    'acyclic_burst_within_bound', 'acyclic_glitch_within_bound', 'acyclic_evals_above_nblocks',
    'acyclic_event_edge_burst', 'acyclic_over_bound', 'multi_change_burst',
    'stable_then_unstable_history', 'const_input_idle', 'const_only_block_idle',
    'const_only_block_in_cycle', 'long_burst_within_bound', 'long_burst_small_net',
    'long_burst_back_to_initial', 'acyclic_block_evaluated_4x_within_bound',
    'refused_output_event_then_consistent', 'stopped_on_request_shutdown',
    'stopped_on_request_abort', 'stop_request_in_unstable_round', 'stop_request_in_stable_round',
    'deep_acyclic_startup_within_bound', 'deep_acyclic_burst_within_bound',
]
ASSUMPTIONS = [
    "boolean values only; block semantics taken from the documentation: Not, And (all), Xor "
    "(odd parity), identity FuncBlock; an on_output event is sent on every output change and an "
    "Input stores what was put",
    "'documented margin' for acyclic networks is taken as 2 x number of blocks of the circuit "
    "(smallest reading of 'propagates through the whole circuit several times'); networks with "
    "a path bound between 2N and the code's 3N are generated but nothing is demanded of them",
    "the start-up bound of acyclic networks uses the mechanism the property is anchored to "
    "(blocks without pending direct predecessors are evaluated first): one evaluation per block "
    "plus the re-evaluations caused by event edges; its premise (evaluations <= bound) is checked "
    "in every run that ends idle",
    "boundedness is judged against 200 x number of blocks per burst; any smaller constant "
    "limit is accepted",
    "feedback through events = CBlock.on_output -> Input.put -> simulator queue -> CBlock; "
    "synchronous SBlock->SBlock event recursion is C11 and not generated",
]


class Watchdog(Exception):
    """Raised inside the simulator when a burst does not end."""


def gen(rng, tier, index=0):
    plan = cyclib.gen_net(rng, tier, index)
    plan['knobs'] = gen_knobs(rng, latency=True, cost=True, ties=False)
    return plan


def _ident(x):
    # identity on everything a block can output; UNDEF (the output of a block that was not
    # evaluated yet, visible only inside a feedback loop) counts as its boolean value False
    return False if x is edzed.UNDEF else x


def _negate(data):
    return {**data, 'value': not data['value']}


def _is_instability(err):
    return isinstance(err, edzed.EdzedCircuitError) and 'instability' in str(err).lower()


def _real_input(i):
    # literal constants are passed as they are (edzed wraps them), '#C.' as explicit Const
    if i in ('#T', '#F'):
        return cyclib.CONST_NAMES[i]
    if cyclib.is_const(i):
        return edzed.Const(cyclib.CONST_NAMES[i])
    return i


PICKY_ETYPE = {'T': ('bogus', 'put'), 'F': ('put', 'bogus')}


def _stop_filters(when, mark):
    flt = {'rise': [edzed.Edge(rise=True)], 'rise_nu': [edzed.Edge(rise=True, u_rise=False)],
           'fall': [edzed.Edge(fall=True)], 'any': [edzed.not_from_undef], 'all': []}[when]
    return flt + [mark]


def build(plan, net, mark_stop):
    """Create the real circuit. Returns dicts of the created blocks."""
    blk = {}
    try:
        for name, init in net.srcs:
            kw = {}
            if name in net.picky:
                # the event type is unknown to the recipient for one (or both) of the values
                mode = net.picky[name]
                etype = 'bogus' if mode == 'both' else edzed.EventCond(*PICKY_ETYPE[mode])
                blk[name + 'p'] = edzed.Input(name + 'p', initdef=False)
                kw['on_output'] = edzed.Event(name + 'p', etype, efilter=edzed.not_from_undef)
            blk[name] = edzed.Input(name, initdef=init, **kw)
        feeds = collections.defaultdict(list)
        for e in net.evin:
            first = e['name']
            if e['hop']:
                first = e['name'] + 'h'
                blk[first] = edzed.Input(
                    first, initdef=e['init'], on_output=edzed.Event(e['name'], 'put'))
            blk[e['name']] = edzed.Input(e['name'], initdef=e['init'])
            feeds[e['frm']].append(
                edzed.Event(first, 'put', efilter=_negate if e['inv'] else None))
        for name, op, ins in net.blocks:
            events = list(feeds.get(name, []))
            if name in net.stops:
                ev, when, first = net.stops[name]
                stop = edzed.Event('_ctrl', ev, efilter=_stop_filters(when, mark_stop))
                events.insert(0 if first else len(events), stop)
            kw = {'on_output': events} if events else {}
            if op == 'not':
                b = edzed.Not(name, **kw)
            elif op == 'and':
                b = edzed.And(name, **kw)
            elif op == 'xor':
                b = edzed.Xor(name, **kw)
            else:
                b = edzed.FuncBlock(name, func=_ident, **kw)
            b.connect(*[_real_input(i) for i in ins])
            blk[name] = b
    except PlanError:
        raise
    except Exception as err:    # pylint: disable=broad-except
        raise PlanError(f"cannot build the circuit: {type(err).__name__}: {err}") from None
    return blk


def execute(plan, trace=False):
    try:
        net = cyclib.Net(plan)
    except cyclib.NetError as err:
        raise PlanError(str(err)) from None
    run = Run(plan['knobs'], max_steps=MAX_STEPS)
    try:
        st = {'stop_req': 0}

        def mark_stop(data):
            # pass-through event filter (last in the chain): a stop request is being sent
            st['stop_req'] += 1
            return data
        blk = build(plan, net, mark_stop)
        circuit = edzed.get_circuit()
        nall = len(list(circuit.getblocks())) + (1 if net.stops else 0)    # + '_ctrl'
        if nall != net.nall:
            raise PlanError(f"circuit has {nall} blocks, plan describes {net.nall}")
        wd_limit = WATCHDOG_PER_BLOCK * nall
        st.update({'evals': 0, 'order': [], 'per': collections.Counter(), 'wd': False,
                   'post_init_evals': 0, 'was_idle_ok': False, 'refused': 0})

        cyc_kind = ('acyclic' if net.acyclic else
                    'event-loop' if net.acyclic_direct else 'combinational-loop')

        def wrap(b):
            orig = b.eval_block
            name = b.name

            def eval_block():
                st['evals'] += 1
                st['per'][name] += 1
                if len(st['order']) < 64:
                    st['order'].append(name)
                if st['evals'] > wd_limit:
                    if not st['wd']:
                        st['wd'] = True
                        run.violate(
                            f"C10/unbounded-evaluations/{cyc_kind}",
                            f"more than {wd_limit} block evaluations (200 x {nall} blocks) in one "
                            "burst without the simulator stopping or reporting instability")
                    raise Watchdog("C10 harness watchdog: the burst does not end")
                return orig()
            b.eval_block = eval_block
        for name in net.blk_names:
            wrap(blk[name])

        shape = [plan.get('kind'), [(op, len(ins)) for _n, op, ins in net.blocks], len(net.evin)]
        run.beh(shape)
        def src_values():
            return {n: blk[n].output for n in net.src_names}

        def check_consistent(label, sat):
            """Simulator alive and idle: the network must be in a consistent state."""
            bad = []
            for name, op, ins in net.blocks:
                out = blk[name].output
                vals = [cyclib.CONST_NAMES[i] if cyclib.is_const(i) else blk[i].output
                        for i in ins]
                if out is edzed.UNDEF or any(v is edzed.UNDEF for v in vals):
                    bad.append(f"{name}: output {canon(out)} inputs {canon(vals)}")
                    continue
                exp = cyclib.apply_op(op, vals)
                if out != exp:
                    bad.append(f"{name}={canon(out)} but {op}({', '.join(ins)})"
                               f"={op}{canon(vals)}={canon(exp)}")
            evbad = []
            for e in net.evin:
                sender = blk[e['frm']].output
                if sender is edzed.UNDEF:
                    continue        # reported above
                want = (not sender) if e['inv'] else sender
                chain = [e['name'] + 'h', e['name']] if e['hop'] else [e['name']]
                for n in chain:
                    if blk[n].output != want:
                        evbad.append(f"Input {n}={canon(blk[n].output)}, last event from "
                                     f"{e['frm']} carried {canon(want)}")
            if sat is None:
                run.violate(
                    f"C10/instability-not-detected/{cyc_kind}",
                    f"{label}: no consistent assignment exists for sources {canon(src_values())} "
                    f"but the simulator is idle and running; {'; '.join((bad + evbad)[:3])}")
            elif bad:
                run.violate(f"C10/inconsistent-when-idle/{cyc_kind}",
                            f"{label}: simulator idle, {'; '.join(bad[:3])}")
            elif evbad:
                run.violate("C10/inconsistent-when-idle/event-edge",
                            f"{label}: simulator idle, {'; '.join(evbad[:3])}")
            return not (bad or evbad)

        def checkpoint(label, simtask, initial, changes):
            evals, order, per = st['evals'], st['order'], st['per']
            st['evals'], st['order'], st['per'] = 0, [], collections.Counter()
            srcv = src_values()
            sat = net.find_consistent(srcv)
            bound = net.path_bound(initial, changes)
            dead = simtask.done()
            run.log('burst', label, canon(srcv), 'sat' if sat is not None else 'unsat',
                    bound[0] if bound else None, evals, order, 'dead' if dead else 'idle')
            if not initial:
                st['post_init_evals'] += evals
            if not dead:
                ok = check_consistent(label, sat)
                run.beh(sat is not None, 'idle', evals)
                if ok:
                    st['was_idle_ok'] = True
                    if st['refused']:
                        st['refused'] = 0
                        run.fired('reach:refused_output_event_then_consistent')
                    if net.has_const:
                        run.fired('reach:const_input_idle')
                    if net.const_only:
                        run.fired('reach:const_only_block_idle')
                    if not net.acyclic:
                        run.fired('reach:sat_cyclic_idle')
                        if net.acyclic_direct:
                            run.fired('reach:sat_event_loop_idle')
                if bound is not None and evals:
                    if bound[0] <= MARGIN * nall:
                        if not initial:
                            run.fired('reach:acyclic_burst_within_bound')
                            if st.get('long'):
                                run.fired('reach:long_burst_within_bound')
                                if nall <= 4:
                                    run.fired('reach:long_burst_small_net')
                                if st.get('back'):
                                    run.fired('reach:long_burst_back_to_initial')
                            if net.uses_event_edge and any(per[e['frm']] for e in net.evin):
                                run.fired('reach:acyclic_event_edge_burst')
                        if max(per.values()) > 1:
                            run.fired('reach:acyclic_glitch_within_bound')
                        if max(per.values()) >= 4:
                            run.fired('reach:acyclic_block_evaluated_4x_within_bound')
                        if evals > nall:
                            run.fired('reach:acyclic_evals_above_nblocks')
                        if initial and net.depth >= 7:
                            run.fired('reach:deep_acyclic_startup_within_bound')
                        if not initial and net.depth >= 7 and evals >= 7:
                            run.fired('reach:deep_acyclic_burst_within_bound')
                    else:
                        run.fired('reach:acyclic_over_bound')
                if bound is not None and evals > bound[0]:
                    # not a property of edzed: the bound of the reference model must be sound
                    raise AssertionError(
                        f"path bound {bound[0]} exceeded by {evals} evaluations ({label})")
                return True
            # ---- the simulation has ended ----
            err = None if simtask.cancelled() else simtask.exception()
            run.log('ended', label, err)
            if isinstance(err, Watchdog):
                run.beh(sat is not None, 'watchdog')
                return False
            if st['stop_req'] and not _is_instability(err) and (
                    err is None or (isinstance(err, edzed.EdzedCircuitError)
                                    and 'error reported by' in str(err))):
                # a block asked '_ctrl' to stop the simulation from inside the round: ending
                # with that request is legal whatever the network does (the evaluations of
                # the round were bounded, otherwise the watchdog would have fired)
                run.beh(sat is not None, 'stopped', err is None)
                run.fired('reach:stopped_on_request_' + ('shutdown' if err is None else 'abort'))
                run.fired('reach:stop_request_in_unstable_round' if sat is None
                          else 'reach:stop_request_in_stable_round')
                return False
            if not _is_instability(err):
                run.beh(sat is not None, 'other-error')
                run.violate('C10/unexpected-error',
                            f"{label}: the simulation ended with {canon(err)}; only the "
                            "instability error is expected from these networks")
                return False
            run.beh(sat is not None, 'instability', evals)
            run.fired('instability_reported')
            per_block = evals / nall
            run.fired('instability_evals_le_4N' if per_block <= 4 else
                      'instability_evals_le_40N' if per_block <= 40 else 'instability_evals_gt_40N')
            if net.const_only and not net.acyclic:
                run.fired('reach:const_only_block_in_cycle')
            if sat is None:
                run.fired('reach:unsat_detected')
                run.fired('reach:unsat_detected_at_start' if initial
                          else 'reach:unsat_detected_after_burst')
                if st['was_idle_ok']:
                    run.fired('reach:stable_then_unstable_history')
                if net.acyclic_direct:
                    run.fired('reach:unsat_through_event_loop')
                    if any(e['hop'] for e in net.evin):
                        run.fired('reach:event_hop_in_cycle')
                    if any(e['inv'] for e in net.evin):
                        run.fired('reach:negating_filter_in_cycle')
            elif not net.acyclic:
                run.fired('reach:sat_cyclic_reported_unstable')
            if bound is not None and bound[0] <= MARGIN * nall:
                run.violate(
                    'C10/false-instability/' + ('start-up' if initial else 'burst'),
                    f"{label}: acyclic network of {nall} blocks reported as unstable after {evals} "
                    f"evaluations; the change of {canon(changes) if not initial else 'start-up'} "
                    f"reaches the blocks along {bound[0]} paths in total (<= {MARGIN} x {nall}), "
                    f"per block {dict(zip(net.blk_names, bound[1]))}")
            return False

        async def settle(simtask):
            # Virtual time passes only when no callback is runnable: after the sleep the
            # simulator task is either blocked waiting for a change (idle) or has ended.
            await asyncio.sleep(0.01)
            for _ in range(20):
                if circuit.error is None or simtask.done():
                    break
                await asyncio.sleep(0.01)   # failed, still stopping its blocks

        async def main():
            simtask = asyncio.create_task(circuit.run_forever())
            try:
                await circuit.wait_init()
            except edzed.EdzedInvalidState as err:
                run.log('wait_init', err)
            await settle(simtask)
            alive = checkpoint('start-up', simtask, True, {})
            for n, op in enumerate(plan['ops']):
                if not alive:
                    break
                changes = collections.Counter()
                before_burst = src_values()
                for name, val in op['puts']:
                    src = blk[name]
                    before = src.output
                    try:
                        edzed.ExtEvent(src, 'put').send(bool(val))
                    except Exception as err:    # pylint: disable=broad-except
                        # EdzedUnknownEvent from a refused output event: non-fatal, tolerated
                        run.log('put-exc', name, err)
                        if isinstance(err, edzed.EdzedUnknownEvent):
                            st['refused'] += 1
                    if src.output != before:
                        changes[name] += 1
                if sum(changes.values()) > 1:
                    run.fired('reach:multi_change_burst')
                st['long'] = sum(changes.values()) >= 4
                st['back'] = st['long'] and not any(
                    blk[name].output != v for name, v in before_burst.items())
                await settle(simtask)
                alive = checkpoint(f"burst{n}", simtask, False, dict(changes))
            try:
                await circuit.shutdown()
            except Exception as err:    # pylint: disable=broad-except
                run.log('shutdown', err)
            return simtask

        run.run(main())
        if run.main_exc is not None:
            run.harness_error = (f"MAIN-EXC: {type(run.main_exc).__name__}: {run.main_exc}")
        elif run.harness_error and run.harness_error.startswith(('STEPCAP', 'LIVELOCK')):
            run.violate(f"C10/event-loop-occupied/{cyc_kind}",
                        "the simulation neither went idle nor stopped: the virtual loop gave the "
                        f"verdict {run.harness_error}")
            run.harness_error = None
        res = run.result()
        if net.acyclic and not st['post_init_evals'] and net.depth < 6:
            res['behaviour'] = None
        if trace:
            res['trace'] = run.trace
        return res
    finally:
        run.close()
