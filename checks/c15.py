"""
C15 - the finalized circuit's connection data is complete, consistent and frozen.

Honest scope: the *resolution* half of C15 is a function of the circuit description; it is
checked here as an invariant inside every generated circuit of the C01 generator
(checks/circlib.py) and the dimension searched there is program generation, not scheduling.
What the simulator contributes is the *frozen* half (modification attempts at lifecycle
instants that only exist in a running program: first step of the simulation task, in the
middle of an asynchronous initialisation in virtual time, running, after a failed start,
after the stop) and the *failing start* half (which blocks were already started when the
start failed, and that they are stopped).

Generated: C01 circuits + recorder probes + events and event filters given by object, by
name and by '_not_NAME' shortcut (Event destinations, IfOutput control blocks,
DataEdit.add_output sources) + an optional never connected FuncBlock; explicit finalize()
before the start in 30 %; one invalid construction per run in 30 % (62 variants of: unknown
name in connect/event/filter, block of another circuit, CBlock as event destination, wrong
signature of Not/Compare/Override, '_not__x', unknown '_not_NAME', duplicate name, second
connect(), empty connect(), never connected, function not matching the inputs, UNDEF
constant, list as a positional input, reserved input/block name, CBlock as the control block of
NotIfInitialized / IfNotIitialized by name, object and shortcut, ExtEvent to a CBlock, empty
group where Override expects a single input, 9 wrongly shaped connections of a user CBlock
with a declared signature); 1-3 modification attempts
(new SBlock, new CBlock, addblock(), connect() of a connected and of a never connected
block, set_persistent_data()) per run.

Oracle
 structure (after finalize(), after the first step, at wait_init(), at every quiescent
 point, after the stop): the set of blocks is the planned one plus exactly one Not
 '_not_X' per X used through a shortcut, connected to X; every CBlock's inputs hold, by
 identity, the block of the referenced name / the shared inverter / a Const equal to the
 given constant, in the given order, groups as tuples; for all blocks A, B:
 B in A.oconnections <=> A in B.iconnections <=> A occurs in B.inputs; get_conf()['inputs']
 and input_signature() describe the same structure; Event.dest and IfOutput control blocks
 are the blocks of the given names; every delivery seen by a recorder is checked against
 the outputs of the named blocks at that very moment (IfOutput passed => truthy,
 add_output value == output), and sends to a source whose filters' control blocks did not
 change during the call must produce exactly the expected number of deliveries.
 constants: the C01 function oracle runs along (types are only observable through
 type-revealing FuncBlock functions, DESIGN.md 3.3).
 invalid: the construction raises or (explicit finalize() raises or) the start fails:
 wait_init() raises EdzedInvalidState, Circuit.error is set, and every block whose start()
 returned got exactly one stop(); a valid circuit must start.
 frozen: every attempt raises EdzedInvalidState and the structure snapshot (block list in
 order, inputs, iconnections, oconnections, storage object) is identical afterwards.

Addition after the seeded-change round: block names are drawn from a pool with awkward ones
(beginning with the characters of '_not_', prefixes/suffixes of each other: 'temp'/'emp',
'out'/'ut', 'on', 'not_x', 'tnt', ...) for a random part of the blocks. Caught: shortcut
resolved with lstrip('_not_') instead of removeprefix (seeded C15-s2). Sources may carry an
on_output EventCond event that fails with the non-fatal EdzedUnknownEvent for one edge.

Additions after the third seeded-change round (seeded/C15-s7, s8, s9), all for the clauses
"the start fails with an error / already started blocks are stopped" at particular moments:
 * sources with an asynchronous clean-up that takes virtual time (circlib.AStop, 0.1-1 s) in
   60 % of the invalid runs; pass-through counters of start(), stop() and stop_async() per
   block: after a failing start exactly the blocks whose start() returned get one stop() and
   at most one stop_async(), nobody else any (caught: clean-up set computed from all async
   blocks instead of the started ones, s9);
 * in half of the invalid runs a second stop request (abort(error), abort(CancelledError),
   shutdown() from another task) lands inside the clean-up window of the failed start; the
   clean-up must complete and run_forever() must end with the start error, not as cancelled
   (caught: abort() cancels the simulation task on every call, s7);
 * after an explicit finalize() has failed the application goes on: finalize() again (must
   fail again), start (must fail), or add the missing block and finalize()/start (everything
   must be resolved: Event.dest, filter control blocks, structure) (caught: the resolver
   forgets the failing and all later registrations, s8).

Addition after the fourth round (seeded/C15-s11): references by name created BETWEEN an
explicit finalize() and the start (creating Event / filter objects is not a modification of
the circuit). 60 % of the explicitly finalized runs create 1-3 Event objects to recorders
by name with IfOutput / add_output filters by object, name or existing shortcut; from the
first step on their dest / control blocks must be the blocks of those names (same structure
checkpoints as the other events), and the driver sends them from application code while
running: the result of send(), the number of deliveries and the delivered add_output values
must agree with the named blocks. Invalid class 'late_unknown' (6 variants: unknown event
destination / IfOutput / add_output / NotIfInitialized name, CBlock as destination or as
NotIfInitialized control block, all created after finalize()): the start must fail before
any block is started. Caught: run_forever() no longer runs the resolver itself (s11).

Findings on the pinned tree (genuine, own signatures):
 * C15/names-unresolved/after-explicit-finalize and
   C15/start-failed/shortcut-in-filter-after-explicit-finalize (one root cause): only
   run_forever() runs the name resolver, Circuit.finalize() does not. After an explicit
   finalize() Event.dest of an event given by name still raises "... not available in an
   unfinalized circuit" and IfOutput control blocks are still strings (docs/events.rst:
   "names get resolved to objects during the circuit finalization"); and a valid circuit
   whose '_not_NAME' shortcut is used by an event filter only cannot be started any more:
   the resolver wants to create the inverter after the circuit was frozen ->
   EdzedInvalidState "Not allowed in a finalized circuit". Candidate repair: finalize()
   calls self._resolver.resolve() before _finalize().
 * C15/const-aliasing/equal-constants-share-one-Const: F11, see checks/c01.py.

Sensitivity (6 000 runs of the quick tier, VERIF_REPO = scratch copy of /repo with both repairs
+ one mutation; "caught" = exit 1 with the listed signatures):

  mutant                                                               | result
  ---------------------------------------------------------------------+--------------------------
  C1  single _finalize pass (inverters created by pass 1 not processed)| caught shortcut/not-an-
                                                                       |  inverter.., start-failed
  C2  shortcut creates a fresh Not per reference                       | caught set-of-blocks, more-
                                                                       |  than-one-inverter, inputs/
  C3  check_not_finalized missing in connect()                         | caught frozen/connect_
      (needs the never connected block: a connected one is refused     |  unconnected-accepted
      for another reason)                                              |
  C4  resolver skips the type check                                    | caught invalid-accepted/
      (first missed: an assert in Event.send made the start fail       |  cblock_event_dest-2
      anyway; a Repeat, which sends nothing while starting, added)     |
  C5  (own) check_not_finalized passes once the circuit has an error   | caught frozen/*-accepted
      (i.e. after the stop / a failed start)                           |  at 'stopped', 'failed'
  C6  (own) set_persistent_data without the check                      | caught frozen/set_persist..
  C7  (own) _finalize registers only the first two members of a group  | caught connections/bicond..
  C8  (own) finalize() during a start leaves the circuit unfinalized   | caught get_conf-inputs,
                                                                       |  frozen/* at first_step
  C9  (own) started_blocks.add before blk.start()                      | caught failed-start/stop-
                                                                       |  count
  C10 (own) no clean-up when the start failed                          | caught failed-start/started
                                                                       |  -block-not-stopped
  C11 (own) resolver strips '_not_' (filter control = X, not _not_X)   | caught filter-ctrl/, filter-
                                                                       |  resolution/, event-delivery
  C12 (own) get_conf() sorts the names of a group                      | caught get_conf-inputs
  C14 (own) input_signature(): empty group reported as single input    | caught input_signature
  C16 (own) connect() reverses named groups                            | caught inputs/wrong-block,
                                                                       |  evaluation/Func
  C18 (own) duplicate name accepted if the block type differs          | caught invalid/duplicate-
                                                                       |  name-replaced-the-block
  C19 (own) the circuit is frozen only when the initialisation is      | caught frozen/* at
      complete (needs the first-step / async-init instants)            |  first_step, async_init
  C20 (own) oconnections of a shared inverter: first consumer only     | caught connections/bicond..
  C21 (own) DataEdit.add_output caches the first value (needs >= 2     | caught filter-resolution/
      deliveries with a changed source block)                          |  add_output
"""

from __future__ import annotations

import asyncio
import json

from simkit import seams
from simkit.runner import Run, PlanError, canon, gen_knobs
from checks import circlib
from checks.circlib import dec, reveal, iter_refs, cerr

edzed = seams.install()

PROP = 'C15'
LEVEL = 'exploration'
RUNS = {'quick': 18000, 'thorough': 800000}
CHUNK = 400
RULE = ("one run = one circuit of the C01 generator (1-8 library CBlocks over 1-4 sources, every "
        "reference style, groups of size 0-3, repeated references, shortcuts to S- and "
        "C-blocks) decorated with recorder probes and events/filters by object, name and "
        "'_not_NAME', optionally finalized explicitly, optionally with one invalid "
        "construction, plus a history of bursts and 1-3 modification attempts at lifecycle "
        "instants (after explicit finalize, first step, during a virtual-time asynchronous "
        "initialisation, running, after a failed start, after the stop). The first "
        "3 x (number of invalid variants) run indices walk the invalid variants three times, "
        "the next 70 the product instant x modification kind twice; the rest is random. The "
        "resolution invariants are a "
        "function of the circuit description (program generation is what is searched there); "
        "the simulator contributes the lifecycle instants of the frozen part and the failing "
        "start. Non-trivial = the structure was checked on a finalized circuit at least once "
        "or a failing start was observed. Distinct = hash of (circuit shape, event/filter "
        "styles, invalid variant and stage, modification attempts with instants and outcomes, "
        "number of started/stopped blocks of a failing start).")
REACH_EXPECTED = ['explicit_finalize', 'shortcut_shared', 'shortcut_in_filter_only',
                  'event_dest_by_name', 'ifoutput_by_name', 'add_output_by_name',
                  'name_ref_to_later_block', 'empty_group', 'repeated_reference',
                  'filter_rejected_event', 'filter_passed_event',
                  'invalid_detected_at_construction', 'invalid_detected_at_start',
                  'invalid_detected_at_explicit_finalize', 'start_failed_partial_start',
                  'start_failed_nothing_started', 'mod_after_explicit_finalize',
                  'mod_first_step', 'mod_during_async_init', 'mod_running',
                  'mod_after_failed_start', 'mod_after_stop', 'connect_of_unconnected_block',
                  'shortcut_to_name_beginning_like_not', 'nonfatal_unknown_event_from_output_event',
                  'second_stop_request_during_cleanup_of_failed_start',
                  'start_failed_after_async_block_started',
                  'start_failed_before_async_block_started',
                  'second_finalize_failed_again', 'missing_block_added_after_failed_finalize',
                  'event_created_after_explicit_finalize',
                  'invalid_reference_created_after_explicit_finalize']
ASSUMPTIONS = [
    "which of 'construction', 'explicit finalize()' or 'start' reports an invalid reference is "
    "left free (the property says 'construction or the start')",
    "a block of another circuit is tested as a connect() input only; as an Event destination "
    "edzed detects it when the event is sent (pinned by its own test-suite), which C15 does not "
    "demand to happen earlier",
    "'already started blocks are stopped' is demanded for failing starts only (the general "
    "case is C08)",
    "Const objects are compared by value; their type is observed only through the C01 "
    "function oracle",
    "names of Const pseudo-blocks in get_conf() are taken from the Const object itself",
]

INVALID = [('unknown_connect', 0), ('unknown_connect', 1), ('unknown_connect', 2),
           ('unknown_event_dest', 0), ('unknown_filter', 0), ('unknown_filter', 1),
           ('foreign_connect', 0), ('foreign_connect', 1),
           ('cblock_event_dest', 0), ('cblock_event_dest', 1), ('cblock_event_dest', 2),
           ('sig_not', 0), ('sig_not', 1), ('sig_not', 2),
           ('sig_compare', 0), ('sig_compare', 1),
           ('sig_override', 0), ('sig_override', 1), ('sig_override', 2), ('sig_override', 3),
           ('not__x', 0), ('not__x', 1), ('not__x', 2),
           ('dup_name', 0), ('dup_name', 1), ('dup_name', 2),
           ('second_connect', 0), ('empty_connect', 0),
           ('never_connected', 0), ('never_connected', 1), ('never_connected', 2),
           ('func_mismatch', 0), ('func_mismatch', 1), ('undef_const', 0),
           ('bad_connect_args', 0), ('bad_connect_args', 1), ('reserved_name', 0),
           ('wrong_kind_filter', 0), ('wrong_kind_filter', 1), ('wrong_kind_filter', 2),
           ('wrong_kind_filter', 3), ('wrong_kind_filter', 4), ('wrong_kind_filter', 5),
           ('extevent_cblock', 0),
           ('sig_override', 4), ('sig_override', 5), ('sig_override', 6),
           ('sig_custom', 0), ('sig_custom', 1), ('sig_custom', 2), ('sig_custom', 3),
           ('sig_custom', 4), ('sig_custom', 5), ('sig_custom', 6), ('sig_custom', 7),
           ('sig_custom', 8),
           # references by name created AFTER an explicit finalize() (creating events and
           # filters is not a modification of the circuit): resolved by the start
           ('late_unknown', 0), ('late_unknown', 1), ('late_unknown', 2), ('late_unknown', 3),
           ('late_unknown', 4), ('late_unknown', 5)]
# where HEAD reports the invalid reference, pinned for the classes where the documentation /
# the resolver contract says so: a wrong block *object* is refused by the constructor
# (Circuit.resolve_name: "If the reference is a block object already ... just check the type"),
# a name or shortcut by the resolver, i.e. before any block is started
PIN_CONSTRUCTION = {('wrong_kind_filter', 1), ('wrong_kind_filter', 4)}
PIN_NOTHING_STARTED = {('wrong_kind_filter', 0), ('wrong_kind_filter', 2),
                       ('wrong_kind_filter', 3), ('wrong_kind_filter', 5),
                       ('late_unknown', 0), ('late_unknown', 1), ('late_unknown', 2),
                       ('late_unknown', 3), ('late_unknown', 4), ('late_unknown', 5)}
NEEDS_ALL_BLOCKS = {'dup_name', 'second_connect', 'wrong_kind_filter'}

# a user CBlock with a declared input signature (docs/new_cblocks.rst, check_signature)
SIG_CUSTOM = [
    ({'a': None}, {'a': ()}),                    # empty group where a single input is expected
    ({'a': None}, {'a': ['A']}),                 # group of one where a single input is expected
    ({'g': 2}, {'g': 'A'}),                      # single input where a group is expected
    ({'g': 2}, {'g': ['A']}),                    # wrong group size
    ({'g': [1, None]}, {'g': ()}),               # below the minimum
    ({'g': [0, 1]}, {'g': ['A', 'B']}),          # above the maximum
    ({'a': None, 'b': None}, {'a': 'A'}),        # missing input
    ({'a': None}, {'a': 'A', 'b': 'B'}),         # unexpected input
    ({'a': None, 'g': [0, None]}, {'a': (), 'g': ()}),   # empty group for the single one only
]
INSTANTS = ['finalized', 'first_step', 'async_init', 'running', 'stopped']
MODS = ['new_sblock', 'new_cblock', 'addblock', 'connect_connected', 'connect_unconnected',
        'set_persistent_data', 'set_persistent_none']
N_SYS_INVALID = 3 * len(INVALID)
N_SYS_MODS = 2 * len(INSTANTS) * len(MODS)


# --------------------------------------------------------------------------- generation

def decorate(rng, spec, want_fz=None):
    """Recorders, events/filters by name, an optional never connected FuncBlock."""
    nrec = rng.choice([1, 1, 2])
    spec['recorders'] = [f"r{i}" for i in range(nrec)]
    targets = [s['name'] for s in spec['sources']] + [c['name'] for c in spec['cblocks']]
    k = 0
    for blk in list(spec['sources']) + list(spec['cblocks']):
        if rng.random() < 0.45:
            filters = []
            for _ in range(rng.choice([0, 1, 1, 2])):
                style = rng.choice(['o', 'n', 'n', '!'])
                name = rng.choice(targets)
                if rng.random() < 0.5:
                    filters.append(['ifo', style, name])
                else:
                    filters.append(['addout', f"k{len(filters)}", style, name])
            blk['events'].append({'dest': rng.choice(spec['recorders']), 'etype': f"n{k}",
                                  'byname': True, 'filters': filters})
            k += 1
    if want_fz is None:
        want_fz = rng.random() < 0.4
    if want_fz:
        spec['cblocks'].append({'name': 'fz', 'type': 'Func', 'func': 'seven', 'unpack': True,
                                'pos': None, 'kw': {}, 'events': []})


def gen(rng, tier, index=0):
    knobs = gen_knobs(rng, latency=False, cost=False, ties=False)
    invalid = None
    mods = []
    forced_mod = None
    if index < N_SYS_INVALID:
        invalid = INVALID[index % len(INVALID)]
    elif index < N_SYS_INVALID + N_SYS_MODS:
        k = index - N_SYS_INVALID
        forced_mod = (INSTANTS[k % len(INSTANTS)], MODS[(k // len(INSTANTS)) % len(MODS)])
    elif rng.random() < 0.3:
        invalid = rng.choice(INVALID)
    need_ai = forced_mod is not None and forced_mod[0] == 'async_init'
    need_fz = forced_mod is not None and forced_mod[1] == 'connect_unconnected'
    spec = circlib.gen_spec(rng, max_cblocks=6 if tier == 'quick' else 8,
                            ainit=True if need_ai else None)
    if rng.random() < (0.6 if invalid is not None else 0.15):
        # sources with an asynchronous clean-up that takes virtual time
        for i in range(rng.choice([1, 1, 2])):
            spec['sources'].append({'name': f"as{i}", 'kind': 'astop', 'dom': 'bool',
                                    'init': rng.random() < 0.5, 'fed': False, 'events': [],
                                    'dur': rng.choice([0.1, 0.3, 1.0])})
    decorate(rng, spec, want_fz=True if need_fz else None)
    circlib.finish_spec(rng, spec)
    ops = circlib.gen_ops(rng, spec, max_bursts=5)
    pre = circlib.gen_pre(rng, spec)
    explicit = rng.random() < 0.3
    has_ai = any(s['kind'] == 'ainit' for s in spec['sources'])
    has_fz = any(c['name'] == 'fz' for c in spec['cblocks'])
    n_ops = len(ops)

    def mk_mod(instant, what):
        m = {'at': instant, 'what': what}
        if instant == 'running':
            m['k'] = rng.randrange(n_ops)
        if instant == 'async_init':
            m['frac'] = rng.choice([0.1, 0.5, 0.9])
        return m
    if forced_mod is not None:
        if forced_mod[0] == 'finalized':
            explicit = True
        mods.append(mk_mod(*forced_mod))
    else:
        for _ in range(rng.choice([1, 1, 2, 3])):
            instants = ['first_step', 'running', 'stopped', 'stopped']
            if explicit:
                instants.append('finalized')
            if has_ai:
                instants += ['async_init', 'async_init']
            if invalid is not None:
                instants += ['failed', 'failed', 'failed']
            whats = [m for m in MODS if m != 'connect_unconnected' or has_fz]
            mods.append(mk_mod(rng.choice(instants), rng.choice(whats)))
    inv = None
    if invalid is not None:
        names = [s['name'] for s in spec['sources']]
        cbn = [c['name'] for c in spec['cblocks'] if c['name'] != 'fz']
        at = rng.choice(spec['order'] + [None, None])
        if invalid[0] in NEEDS_ALL_BLOCKS:
            at = None       # needs the original / the referenced block object
        inv = {'cls': invalid[0], 'variant': invalid[1], 'at': at,
               'a': rng.choice(names), 'b': rng.choice(names), 'c': rng.choice(cbn)}
    late = []
    if invalid is not None and invalid[0] == 'late_unknown':
        explicit = True
    if explicit and rng.random() < 0.6:
        # Event objects created by the application between finalize() and the start
        targets = [s['name'] for s in spec['sources']] + [c['name'] for c in spec['cblocks']]
        shortcut_ok = sorted({ref[1] for cb in spec['cblocks'] for _n, _i, ref in iter_refs(cb)
                              if ref[0] == '!'})
        for k in range(rng.choice([1, 1, 2, 3])):
            filters = []
            for _ in range(rng.choice([0, 1, 1, 2])):
                style = rng.choice(['o', 'n', 'n', '!'])
                name = rng.choice(targets)
                if style == '!':
                    if not shortcut_ok:
                        style = 'n'
                    else:
                        name = rng.choice(shortcut_ok)      # the inverter exists already
                if rng.random() < 0.5:
                    filters.append(['ifo', style, name])
                else:
                    filters.append(['addout', f"k{len(filters)}", style, name])
            late.append({'dest': rng.choice(spec['recorders']), 'etype': f"L{k}",
                         'src': rng.choice(targets), 'filters': filters,
                         'k': rng.randrange(n_ops), 'value': rng.choice([0, 1, 7])})
    plan = {'knobs': knobs, 'spec': spec, 'ops': ops, 'pre': pre, 'explicit_finalize': explicit,
            'late_events': late,
            'storage': rng.random() < 0.5, 'invalid': inv, 'mods': mods,
            'second_stop': None, 'after_failed_finalize': 'stop'}
    if inv is not None:
        if rng.random() < 0.5:
            # a second stop request while the clean-up of the failed start is in progress
            plan['second_stop'] = {'frac': rng.choice([0.0, 0.1, 0.5, 0.9]),
                                   'how': rng.choice(['abort', 'abort_cancel', 'shutdown'])}
        # what the application does after an explicit finalize() has failed
        plan['after_failed_finalize'] = rng.choice(
            ['stop', 'finalize_again', 'start', 'repair_finalize', 'repair_start'])
    # names from a pool with awkward ones (beginning with the characters of '_not_', prefixes
    # and suffixes of each other) for a part of the blocks
    circlib.rename_plan(rng, plan, prob=rng.choice([0.0, 0.4, 0.8, 1.0]))
    return plan


# --------------------------------------------------------------------------- invalid constructions

class _Stop(Exception):
    """The injected invalid construction was refused: stop building."""


def inject(sim, inv):
    """
    Perform the invalid construction. Returns normally if edzed accepted it (the start must
    fail then); raises the library's exception if the construction was refused.
    """
    cls, var = inv['cls'], inv['variant']
    a, b, c = inv['a'], inv['b'], inv['c']
    blocks = sim.blocks
    if cls == 'unknown_connect':
        if var == 0:
            edzed.Not('bad').connect('nosuch')
        elif var == 1:
            edzed.FuncBlock('bad', func=circlib.f_pack).connect(g=[a, 'nosuch'])
        else:
            edzed.FuncBlock('bad', func=circlib.f_pack).connect(a, zz='nosuch')
    elif cls == 'unknown_event_dest':
        evobj = edzed.Event('nosuch')
        sim.bad = {'events': [('bad', {'dest': 'nosuch', 'etype': 'put', 'byname': True,
                                       'filters': []}, evobj, [])]}
        sim.bad['block'] = edzed.Input('bad', initdef=0, on_output=evobj)
    elif cls == 'unknown_filter':
        flt = edzed.IfOutput('nosuch') if var == 0 else edzed.DataEdit.add_output('k', 'nosuch')
        evobj = edzed.Event(a, 'put', efilter=flt)
        desc = ['ifo', 'n', 'nosuch'] if var == 0 else ['addout', 'k', 'n', 'nosuch']
        sim.bad = {'events': [('bad', {'dest': a, 'etype': 'put', 'byname': True,
                                       'filters': [desc]}, evobj, [flt])]}
        sim.bad['block'] = edzed.Input('bad', initdef=0, on_output=evobj)
    elif cls == 'foreign_connect':
        if var == 0:
            edzed.Or('bad').connect(a, sim.spare)
        else:
            edzed.FuncBlock('bad', func=circlib.f_pack).connect(g=(sim.spare,))
    elif cls == 'cblock_event_dest':
        if var == 1 and c in blocks:
            edzed.Input('bad', initdef=0, on_output=edzed.Event(blocks[c]))
        elif var == 2:
            # an event that is not sent during the initialisation: only the resolver can object
            edzed.Repeat('bad', dest=c, etype='put', interval=10.0)
        else:
            edzed.Input('bad', initdef=0, on_output=edzed.Event(c))
    elif cls == 'sig_not':
        if var == 0:
            edzed.Not('bad').connect(a, b)
        elif var == 1:
            edzed.Not('bad').connect(x=a)
        else:
            edzed.Not('bad').connect(a, x=b)
    elif cls == 'sig_compare':
        if var == 0:
            edzed.Compare('bad', low=0, high=1).connect(1, 2)
        else:
            edzed.Compare('bad', low=0, high=1).connect(x=1)
    elif cls == 'sig_override':
        if var == 0:
            edzed.Override('bad').connect(input=a)
        elif var == 1:
            edzed.Override('bad').connect(input=[a], override=b)
        elif var == 2:
            edzed.Override('bad').connect(a, input=a, override=b)
        elif var == 3:
            edzed.Override('bad').connect(input=a, override=b, other=a)
        elif var == 4:
            edzed.Override('bad').connect(input=(), override=b)     # empty group, not a single
        elif var == 5:
            edzed.Override('bad').connect(input=a, override=[])
        else:
            edzed.Override('bad').connect(input=[], override=())
    elif cls == 'not__x':
        edzed.Or('bad').connect(['_not__x', '_not_nosuch', '_nosuch'][var])
    elif cls == 'dup_name':
        if var == 0:
            victim = a
            make = lambda: edzed.Input(victim, initdef=0)   # noqa: E731
        elif var == 1:
            victim = c
            make = lambda: edzed.Not(victim)    # noqa: E731
        else:
            victim = a
            make = lambda: edzed.Not(victim)    # noqa: E731
        if victim not in blocks:
            # the victim does not exist yet: create the duplicate afterwards instead
            raise PlanError('duplicate before the original')
        orig = blocks[victim]
        try:
            make()
        finally:
            if sim.circuit.findblock(victim) is not orig:
                sim.run.violate('C15/invalid/duplicate-name-replaced-the-block',
                                f"after the refused duplicate, name {victim} no longer refers to "
                                "the original block")
    elif cls == 'second_connect':
        if c not in blocks:
            raise PlanError('second connect before the block exists')
        before = dict(blocks[c].inputs)
        try:
            blocks[c].connect(a)
        finally:
            if blocks[c].inputs != before:
                sim.run.violate('C15/invalid/second-connect-changed-inputs',
                                f"{c}: the refused second connect() changed the inputs")
    elif cls == 'empty_connect':
        edzed.Or('bad').connect()
    elif cls == 'never_connected':
        if var == 0:
            edzed.Not('bad')
        elif var == 1:
            edzed.Compare('bad', low=0, high=1)
        else:
            edzed.Override('bad')
    elif cls == 'func_mismatch':
        if var == 0:
            edzed.FuncBlock('bad', func=lambda x: x).connect(a, b)
        else:
            edzed.FuncBlock('bad', func=lambda x, *, y: x).connect(a)
    elif cls == 'undef_const':
        edzed.Or('bad').connect(a, edzed.UNDEF)
    elif cls == 'bad_connect_args':
        if var == 0:
            edzed.Or('bad').connect([a, b])
        else:
            edzed.Or('bad').connect(**{'_': a})
    elif cls == 'reserved_name':
        edzed.Input('_bad', initdef=0)
    elif cls == 'wrong_kind_filter':
        # the control block of this filter must be sequential; given by name / object /
        # '_not_NAME' shortcut (an inverter is a CBlock), documented name and old alias.
        # not_from_undef goes first: no event reaches the filter while the circuit starts,
        # so only the constructor / the resolver can object
        fcls = (getattr(edzed, 'NotIfInitialized', None) if var < 3 else None) \
            or getattr(edzed, 'IfNotIitialized', None) or edzed.NotIfInitialized
        kind = var % 3
        if kind == 1:
            if c not in blocks:
                raise PlanError('object reference before the block exists')
            target = blocks[c]
        else:
            target = c if kind == 0 else '_not_' + a
        flt = fcls(target)
        edzed.Input('bad', initdef=0,
                    on_output=edzed.Event(a, 'put', efilter=[edzed.not_from_undef, flt]))
    elif cls == 'sig_custom':
        esig, conn = SIG_CUSTOM[var]
        ref = {'A': a, 'B': b}
        kwargs = {k: (ref[v] if isinstance(v, str) else type(v)(ref[i] for i in v))
                  for k, v in conn.items()}
        SigProbe('bad', x_esig=esig).connect(**kwargs)
    elif cls == 'extevent_cblock':
        edzed.ExtEvent(c)
    elif cls == 'late_unknown':
        pass        # created after the explicit finalize(), see make_late() in execute()
    else:
        raise PlanError(f"unknown invalid class {cls}")


class SigProbe(edzed.CBlock):
    """A user CBlock that declares its input signature the documented way."""

    def calc_output(self):
        return 0

    def start(self):
        super().start()
        self.check_signature(self.x_esig)


# --------------------------------------------------------------------------- lifecycle counters

_ORIG_START, _ORIG_STOP = edzed.Block.start, edzed.Block.stop


class Life:
    def __init__(self):
        self.started = {}
        self.stopped = {}
        self.stop_async = {}
        self.wrapped = set()

    def wrap(self, blk):
        name = blk.name
        self.wrapped.add(name)
        orig_start, orig_stop = blk.start, blk.stop

        def start():
            orig_start()
            self.started[name] = self.started.get(name, 0) + 1

        def stop():
            self.stopped[name] = self.stopped.get(name, 0) + 1
            orig_stop()
        blk.start, blk.stop = start, stop
        if isinstance(blk, edzed.AddonAsync) and blk.has_method('stop_async'):
            orig_sa = blk.stop_async

            async def stop_async():
                self.stop_async[name] = self.stop_async.get(name, 0) + 1
                await orig_sa()
            blk.stop_async = stop_async

    def install_base(self):
        life = self

        def base_start(blk):
            if blk.name not in life.wrapped:
                life.started[blk.name] = life.started.get(blk.name, 0) + 1

        def base_stop(blk):
            if blk.name not in life.wrapped:
                life.stopped[blk.name] = life.stopped.get(blk.name, 0) + 1
        edzed.Block.start, edzed.Block.stop = base_start, base_stop

    @staticmethod
    def uninstall_base():
        edzed.Block.start, edzed.Block.stop = _ORIG_START, _ORIG_STOP


# --------------------------------------------------------------------------- the oracle

class Checker:
    def __init__(self, run, sim, plan, storage):
        self.run = run
        self.sim = sim
        self.plan = plan
        self.spec = plan['spec']
        self.circuit = sim.circuit
        self.storage = storage
        self.n_struct = 0
        self.n_late = 0
        self.evmap = {}     # etype of a recorder event -> (owner, EV)
        self.recs = set(self.spec.get('recorders', []))
        for blk in list(self.spec['sources']) + list(self.spec['cblocks']):
            for ev in blk.get('events', []):
                if ev['dest'] in self.recs:
                    self.evmap[ev['etype']] = (blk['name'], ev)

    # ---- helpers
    def named(self, style, name):
        """The block a reference of the given style and name must resolve to."""
        if style == '!':
            return self.circuit.findblock('_not_' + name)
        return self.sim.blocks[name]

    def describe_input(self, inp):
        if isinstance(inp, tuple):
            return [self.describe_input(i) for i in inp]
        if isinstance(inp, edzed.Block):
            return 'b:' + inp.name
        if isinstance(inp, edzed.Const):
            return 'c:' + reveal(inp.output)
        if isinstance(inp, (str, int, float, bool, type(None))):
            return 's:' + repr(inp)
        return 'x:' + type(inp).__name__

    def snapshot(self):
        circuit = self.circuit
        out = {'blocks': [b.name for b in circuit.getblocks()],
               'finalized': circuit.is_finalized(),
               'storage_is_ours': circuit.persistent_dict is self.storage,
               'conn': {}}
        for b in circuit.getblocks():
            ent = {'o': sorted(x.name for x in b.oconnections)}
            if isinstance(b, edzed.CBlock):
                ent['i'] = sorted(x.name for x in b.iconnections)
                ent['in'] = [[k, self.describe_input(v)] for k, v in b.inputs.items()]
            out['conn'][b.name] = ent
        return json.dumps(out, sort_keys=True)

    # ---- structure
    def check_structure(self, tag, names_resolved):
        run, sim, circuit = self.run, self.sim, self.circuit
        self.n_struct += 1
        V = run.violate
        real = {b.name: b for b in circuit.getblocks()}
        want = set(sim.blocks) | {'_not_' + x for x in sim.not_targets}
        if set(real) != want:
            extra = sorted(set(real) - want)
            missing = sorted(want - set(real))
            if missing and all(m.startswith('_not_') for m in missing) and not extra \
                    and not names_resolved:
                pass    # inverters used by filters only appear when the names get resolved
            else:
                V('C15/blocks/set-of-blocks',
                  f"{tag}: unexpected blocks {extra}, missing blocks {missing}")
        for name, blk in sim.blocks.items():
            if real.get(name) is not blk:
                V('C15/blocks/name-lookup', f"{tag}: {name} does not refer to the created block")
        # inverters
        for x in sorted(sim.not_targets):
            nb = real.get('_not_' + x)
            if nb is None:
                continue
            if type(nb) is not edzed.Not or nb.inputs != {'_': (sim.blocks[x],)}:    # pylint: disable=unidiomatic-typecheck
                V('C15/shortcut/not-an-inverter-of-the-named-block',
                  f"{tag}: _not_{x} is {type(nb).__name__} with inputs "
                  f"{self.describe_input(tuple(nb.inputs.get('_', ())))}")
        n_inv = sum(1 for n in real if n.startswith('_not_'))
        if n_inv > len(sim.not_targets):
            V('C15/shortcut/more-than-one-inverter', f"{tag}: {n_inv} inverter blocks for "
              f"{len(sim.not_targets)} inverted blocks")
        # inputs of every planned cblock
        for cb in self.spec['cblocks']:
            name = cb['name']
            blk = sim.blocks[name]
            exp_sig = {}
            exp_conf = {}
            ok = True
            layout = []
            if cb.get('pos'):
                layout.append(('_', True, cb['pos']))
            for iname, val in (cb.get('kw') or {}).items():
                if isinstance(val, dict):
                    layout.append((iname, True, val.get('g', [])))
                else:
                    layout.append((iname, False, [val]))
            if set(blk.inputs) != {l[0] for l in layout}:
                V('C15/inputs/names', f"{tag}: {name}: input names {sorted(blk.inputs)}, connected "
                  f"were {sorted(l[0] for l in layout)}")
                continue
            for iname, group, refs in layout:
                realv = blk.inputs[iname]
                if group != isinstance(realv, tuple):
                    V('C15/inputs/group-vs-single', f"{tag}: {name}.{iname}: "
                      f"{'group' if group else 'single input'} connected, inputs hold "
                      f"{self.describe_input(realv)}")
                    ok = False
                    continue
                robjs = realv if group else (realv,)
                exp_sig[iname] = len(refs) if group else None
                if len(robjs) != len(refs):
                    V('C15/inputs/group-size', f"{tag}: {name}.{iname}: {len(refs)} inputs "
                      f"connected, {len(robjs)} present")
                    ok = False
                    continue
                confnames = []
                for pos, (ref, robj) in enumerate(zip(refs, robjs)):
                    tagc, arg = ref
                    if tagc in 'cC':
                        want_v = dec(arg)
                        if not isinstance(robj, edzed.Const) or not robj.output == want_v:
                            V('C15/inputs/constant', f"{tag}: {name}.{iname}[{pos}]: constant "
                              f"{reveal(want_v)} connected, inputs hold {self.describe_input(robj)}")
                            ok = False
                        confnames.append(getattr(robj, 'name', None))
                    else:
                        try:
                            want_b = self.named(tagc, arg)
                        except KeyError:
                            V('C15/shortcut/missing', f"{tag}: {name}.{iname}[{pos}]: no block "
                              f"_not_{arg}")
                            ok = False
                            continue
                        if robj is not want_b:
                            V('C15/inputs/wrong-block',
                              f"{tag}: {name}.{iname}[{pos}]: reference "
                              f"{'_not_' + arg if tagc == '!' else arg} "
                              f"({'object' if tagc == 'o' else 'name'}) resolved to "
                              f"{self.describe_input(robj)}")
                            ok = False
                        confnames.append(want_b.name)
                exp_conf[iname] = tuple(confnames) if group else (confnames[0] if confnames else None)
            if not ok:
                continue
            conf = blk.get_conf().get('inputs')
            if conf != exp_conf:
                V('C15/get_conf-inputs', f"{tag}: {name}: get_conf()['inputs'] = {conf!r}, the "
                  f"inputs are {exp_conf!r}")
            if layout:
                try:
                    sig = blk.input_signature()
                except Exception as err:    # pylint: disable=broad-except
                    sig = err
                if sig != exp_sig:
                    V('C15/input_signature', f"{tag}: {name}: input_signature() = {sig!r}, "
                      f"connected was {exp_sig!r}")
            else:
                try:
                    blk.input_signature()
                except edzed.EdzedInvalidState:
                    pass
                else:
                    V('C15/input_signature', f"{tag}: {name} was never connected, "
                      "input_signature() must raise EdzedInvalidState")
        # the biconditional over all pairs
        allb = list(real.values())
        cbl = [b for b in allb if isinstance(b, edzed.CBlock)]
        for b in cbl:
            flat = []
            for v in b.inputs.values():
                flat.extend(v if isinstance(v, tuple) else [v])
            occurs = [x for x in flat if not isinstance(x, edzed.Const)]
            for m in b.iconnections:
                if real.get(getattr(m, 'name', None)) is not m:
                    V('C15/connections/foreign-member', f"{tag}: {b.name}.iconnections holds "
                      f"{m} which is not a block of the circuit")
            for a in allb:
                in_o = b in a.oconnections
                in_i = a in b.iconnections
                occ = any(x is a for x in occurs)
                if not in_o == in_i == occ:
                    V('C15/connections/biconditional',
                      f"{tag}: A={a.name}, B={b.name}: B in A.oconnections={in_o}, "
                      f"A in B.iconnections={in_i}, A occurs in B.inputs={occ}")
        for a in allb:
            for m in a.oconnections:
                if not isinstance(m, edzed.CBlock) or real.get(m.name) is not m:
                    V('C15/connections/foreign-member', f"{tag}: {a.name}.oconnections holds "
                      f"{m} which is not a combinational block of the circuit")
        # events and filters given by name
        for owner, ev, evobj, fobjs in sim.events:
            site = tag if names_resolved else 'after-explicit-finalize'
            try:
                dest = evobj.dest
            except edzed.EdzedInvalidState as err:
                dest = err
            if dest is not sim.blocks[ev['dest']]:
                if isinstance(dest, Exception) and not names_resolved:
                    V('C15/names-unresolved/after-explicit-finalize',
                      f"finalize() was called, but Event.dest of the event {owner} -> "
                      f"'{ev['dest']}' given by name still raises: {dest} (docs/events.rst: "
                      "names get resolved to objects during the circuit finalization)")
                else:
                    V('C15/event-dest/wrong-block', f"{site}: event of {owner} to "
                      f"'{ev['dest']}': dest is "
                      f"{cerr(dest) if isinstance(dest, Exception) else canon(dest)}")
            for flt, fobj in zip(ev.get('filters', []), fobjs):
                if flt[0] != 'ifo':
                    continue
                ctrl = getattr(fobj, '_ctrl_blk', None)
                try:
                    want_b = self.named(flt[-2], flt[-1])
                except KeyError:
                    want_b = None
                if isinstance(ctrl, str) and not names_resolved:
                    V('C15/names-unresolved/after-explicit-finalize',
                      f"finalize() was called, but the IfOutput control block '{ctrl}' of "
                      f"{owner}'s event is still a name")
                elif want_b is None or ctrl is not want_b:
                    V('C15/filter-ctrl/wrong-block', f"{site}: IfOutput of {owner}'s event: "
                      f"control block is {canon(ctrl)}, given was "
                      f"{('_not_' if flt[-2] == '!' else '') + flt[-1]}")

    # ---- deliveries
    def on_record(self, recname, etype, data):
        """A recorder got an event: compare with the named blocks *now*."""
        info = self.evmap.get(etype)
        if info is None:
            return
        owner, ev = info
        self.run.fired('reach:filter_passed_event')
        if data.get('source') != owner or recname != ev['dest']:
            self.run.violate('C15/event-dest/wrong-block',
                             f"event {etype} of {owner} to {ev['dest']} arrived at {recname} "
                             f"with source {data.get('source')}")
        for flt in ev.get('filters', []):
            try:
                blk = self.named(flt[-2], flt[-1])
            except KeyError:
                self.run.violate('C15/shortcut/missing', f"no block _not_{flt[-1]} (filter)")
                continue
            shown = ('_not_' if flt[-2] == '!' else '') + flt[-1]
            if flt[0] == 'ifo':
                if not blk.output:
                    self.run.violate(
                        'C15/filter-resolution/IfOutput',
                        f"event {etype} of {owner} passed IfOutput({shown!r}) while the output "
                        f"of {shown} is {reveal(blk.output)}")
            else:
                key = flt[1]
                # a later add_output with the same key overwrites: check the last one per key
                last = [f for f in ev['filters'] if f[0] == 'addout' and f[1] == key][-1]
                if last is not flt:
                    continue
                if key not in data or not (data[key] == blk.output
                                           or (data[key] is blk.output)):
                    self.run.violate(
                        'C15/filter-resolution/add_output',
                        f"event {etype} of {owner}: add_output({key!r}, {shown!r}) delivered "
                        f"{reveal(data.get(key, '<missing>'))}, the output of {shown} is "
                        f"{reveal(blk.output)}")

    def checked_send(self, op):
        """External event to a source; verify the number of deliveries of its filtered events."""
        sim = self.sim
        src = op['src']
        srcspec = None
        for s in self.spec['sources']:
            if s['name'] == src:
                srcspec = s
        evs = [ev for ev in (srcspec or {}).get('events', []) if ev['dest'] in self.recs]
        if not evs:
            return sim.send(op)
        watched = {}
        for ev in evs:
            for flt in ev.get('filters', []):
                if flt[0] == 'ifo':
                    try:
                        watched[(flt[-2], flt[-1])] = self.named(flt[-2], flt[-1])
                    except KeyError:
                        pass
        before = {k: b.output for k, b in watched.items()}
        out0 = sim.blocks[src].output
        n0 = len(sim.rec_log)
        res = sim.send(op)
        if isinstance(res, Exception):
            return res
        changed = not out0 == sim.blocks[src].output
        for ev in evs:
            expected = 1 if changed else 0
            ambiguous = False
            for flt in ev.get('filters', []):
                if flt[0] != 'ifo':
                    continue
                key = (flt[-2], flt[-1])
                if key not in watched:
                    ambiguous = True
                    continue
                blk = watched[key]
                if blk is not sim.blocks[src] and not before[key] == blk.output:
                    ambiguous = True    # changed during the call: order dependent
                elif not blk.output:
                    expected = 0
            if ambiguous:
                continue
            got = sum(1 for r in sim.rec_log[n0:] if r[1] == ev['etype'])
            if changed and expected == 0:
                self.run.fired('reach:filter_rejected_event')
            if got != expected:
                self.run.violate(
                    'C15/event-delivery/filtered-by-named-block',
                    f"{src} {'changed' if changed else 'did not change'}; its event "
                    f"{ev['etype']} with filters {ev.get('filters')} was delivered {got}x, "
                    f"expected {expected}x")
        return res

    # ---- frozen
    def attempt(self, what, tag):
        sim, circuit, run = self.sim, self.circuit, self.run
        before = self.snapshot()
        self.n_late += 1
        late = f"late{self.n_late}"
        srcname = self.spec['sources'][0]['name']
        connected = [c['name'] for c in self.spec['cblocks'] if c['name'] != 'fz']
        try:
            if what == 'new_sblock':
                edzed.Input(late, initdef=0)
            elif what == 'new_cblock':
                edzed.Not(late).connect(srcname)
            elif what == 'addblock':
                circuit.addblock(sim.spare)
            elif what == 'connect_connected':
                sim.blocks[connected[0]].connect(sim.blocks[srcname])
            elif what == 'connect_unconnected':
                if 'fz' not in sim.blocks:
                    return
                run.fired('reach:connect_of_unconnected_block')
                sim.blocks['fz'].connect(sim.blocks[srcname])
            elif what == 'set_persistent_data':
                circuit.set_persistent_data({'other': 1})
            elif what == 'set_persistent_none':
                circuit.set_persistent_data(None if self.storage is not None else {})
            else:
                raise PlanError(f"unknown modification {what}")
        except edzed.EdzedInvalidState:
            outcome = 'refused'
        except PlanError:
            raise
        except Exception as err:    # pylint: disable=broad-except
            outcome = cerr(err)
        else:
            outcome = 'accepted'
        run.log('mod', tag, what, outcome)
        run.beh('mod', tag, what, outcome == 'refused')
        if outcome == 'accepted':
            run.violate(f"C15/frozen/{what}-accepted",
                        f"{tag}: {what} was accepted in a finalized/stopped circuit")
        elif outcome != 'refused':
            run.violate(f"C15/frozen/{what}-wrong-error",
                        f"{tag}: {what} raised {outcome} instead of EdzedInvalidState")
        after = self.snapshot()
        if after != before:
            run.violate(f"C15/frozen/structure-changed/{what}",
                        f"{tag}: the circuit structure differs after the attempt: before "
                        f"{before[:300]} after {after[:300]}")
        if late in [b.name for b in circuit.getblocks()]:
            run.violate(f"C15/frozen/{what}-registered",
                        f"{tag}: the refused block {late} is a member of the circuit")


# --------------------------------------------------------------------------- execution

def execute(plan, trace=False):
    run = Run(plan['knobs'])
    sim = None
    life = Life()
    try:
        try:
            spare = edzed.Input('spare', initdef=0)     # member of a circuit thrown away now
            edzed.reset_circuit()
            sim = circlib.Sim(run, plan, PROP)
            sim.spare = spare
            inv = plan.get('invalid')
            istate = {'stage': None, 'error': None, 'done': inv is None}

            def do_inject():
                istate['done'] = True
                try:
                    inject(sim, inv)
                except PlanError:
                    raise
                except Exception as err:    # the library refused the construction
                    istate['stage'] = 'construction'
                    istate['error'] = err
                    raise _Stop() from None

            def hook(name):
                if inv is not None and not istate['done'] and inv.get('at') == name:
                    do_inject()
            try:
                sim.build(hook=hook)
                if not istate['done']:
                    do_inject()
            except _Stop:
                pass
            if inv is not None and istate['stage'] is None \
                    and (inv['cls'], inv['variant']) in PIN_CONSTRUCTION:
                run.violate(f"C15/invalid-accepted-by-constructor/{inv['cls']}-{inv['variant']}",
                            f"{inv['cls']} (variant {inv['variant']}): a block object of the "
                            "wrong kind was accepted by the constructor (the type of a "
                            "reference given as an object is checked at once)")
        except PlanError:
            raise
        except (KeyError, TypeError, IndexError, AttributeError) as err:
            raise PlanError(f"malformed plan: {type(err).__name__}: {err}") from None
        circuit = sim.circuit = edzed.get_circuit()
        if istate['stage'] == 'construction':
            run.fired('reach:invalid_detected_at_construction')
            run.log('invalid', inv['cls'], inv['variant'], 'construction', cerr(istate['error']))
            run.beh('invalid', inv['cls'], inv['variant'], 'construction')
            res = run.result()
            res['behaviour'] = None
            if trace:
                res['trace'] = run.trace
            return res

        storage = {} if plan.get('storage') else None
        if storage is not None:
            circuit.set_persistent_data(storage)
        chk = Checker(run, sim, plan, storage)
        sim.record_hook = chk.on_record
        for blk in list(circuit.getblocks()):
            life.wrap(blk)
        life.install_base()
        sim.install()
        sim.reach_static()
        spec = plan['spec']
        explicit = bool(plan.get('explicit_finalize'))
        state = {'stopping': False, 'resolved': False, 'started': False, 'failed': False}
        ainit = [s for s in spec['sources'] if s['kind'] == 'ainit']
        mods = plan.get('mods', [])
        state['valid'] = inv is None

        # static reach probes of the decoration
        connect_nots = set()
        for cb in spec['cblocks']:
            for _n, _i, ref in iter_refs(cb):
                if ref[0] == '!':
                    connect_nots.add(ref[1])
        filter_only = False
        for blk in list(spec['sources']) + list(spec['cblocks']):
            for ev in blk.get('events', []):
                if ev['byname']:
                    run.fired('reach:event_dest_by_name')
                for flt in ev.get('filters', []):
                    if flt[-2] != 'o':
                        run.fired('reach:ifoutput_by_name' if flt[0] == 'ifo'
                                  else 'reach:add_output_by_name')
                    if flt[-2] == '!' and flt[-1] not in connect_nots:
                        filter_only = True
                    if flt[-2] == '!' and flt[-1][:1] in ('n', 'o', 't'):
                        run.fired('reach:shortcut_to_name_beginning_like_not')
        if filter_only:
            run.fired('reach:shortcut_in_filter_only')

        def do_mods(instant, k=None):
            for m in mods:
                if m['at'] == instant and (k is None or m.get('k') == k):
                    run.fired({'finalized': 'reach:mod_after_explicit_finalize',
                               'first_step': 'reach:mod_first_step',
                               'async_init': 'reach:mod_during_async_init',
                               'running': 'reach:mod_running',
                               'failed': 'reach:mod_after_failed_start',
                               'stopped': 'reach:mod_after_stop'}[instant])
                    chk.attempt(m['what'], instant)

        def qhook():
            if state['stopping'] or not state['valid']:
                return
            if circuit.is_finalized() and state['started']:
                chk.check_structure('idle', True)
            if sim.inited and circuit.is_ready():
                sim.check_idle('idle')
        run.loop.quiescence_hook = qhook

        def do_pre(op):
            if sim.inited or not circuit.is_ready():
                return
            sim.send(op)

        def mod_async(m):
            if sim.inited or not circuit.is_ready():
                return
            run.fired('reach:mod_during_async_init')
            chk.attempt(m['what'], 'async_init')

        info = {'simtask': None, 'tasks': []}
        astop = [x for x in spec['sources'] if x['kind'] == 'astop']

        def repairable():
            if inv is None or getattr(sim, 'bad', None) is None:
                return False
            if inv['cls'] not in ('unknown_event_dest', 'unknown_filter'):
                return False
            for x in spec['sources']:
                if x['name'] == inv['a'] and any(ev.get('cond') for ev in x.get('events', [])):
                    return False    # 'bad' sends a 'put' to it while the circuit starts
            return True

        late = []       # (description, Event object) created after the explicit finalize()

        def make_late():
            for le in plan.get('late_events') or []:
                ev = {'dest': le['dest'], 'etype': le['etype'], 'byname': True,
                      'filters': le.get('filters', [])}
                if le['src'] not in sim.blocks or le['dest'] not in sim.blocks:
                    raise PlanError('late event of a missing block')
                evobj = sim.make_event(le['src'], ev)   # also listed in sim.events: its dest and
                late.append((le, evobj))                # control blocks are checked from now on
                chk.evmap[le['etype']] = (le['src'], ev)
                run.fired('reach:event_created_after_explicit_finalize')
            if inv is not None and inv['cls'] == 'late_unknown':
                var = inv['variant']
                rec = spec['recorders'][0]
                nii = getattr(edzed, 'NotIfInitialized', None) or edzed.IfNotIitialized
                if var == 0:
                    obj = edzed.Event('nosuch')
                elif var == 1:
                    obj = edzed.Event(rec, 'x', efilter=edzed.IfOutput('nosuch'))
                elif var == 2:
                    obj = edzed.Event(rec, 'x', efilter=edzed.DataEdit.add_output('k', 'nosuch'))
                elif var == 3:
                    obj = edzed.Event(rec, 'x', efilter=nii('nosuch'))
                elif var == 4:
                    obj = edzed.Event(inv['c'], 'put')      # a CBlock, by name
                else:
                    obj = edzed.Event(rec, 'x', efilter=nii(inv['c']))
                late.append((None, obj))
                run.fired('reach:invalid_reference_created_after_explicit_finalize')

        def send_late(k):
            for le, evobj in late:
                if le is None or le['k'] != k:
                    continue
                expected = True
                for flt in le.get('filters', []):
                    if flt[0] == 'ifo' and not chk.named(flt[-2], flt[-1]).output:
                        expected = False
                n0 = len(sim.rec_log)
                try:
                    res = evobj.send(sim.blocks[le['src']], value=le['value'])
                except Exception as err:    # pylint: disable=broad-except
                    run.violate('C15/late-event/send-failed',
                                f"event to '{le['dest']}' created after finalize(): send() raised "
                                f"{cerr(err)}")
                    continue
                got = sum(1 for r in sim.rec_log[n0:] if r[1] == le['etype'])
                run.log('late-send', le['etype'], bool(res), got)
                run.beh('late-send', expected)
                if bool(res) != expected or got != int(expected):
                    run.violate('C15/late-event/delivery',
                                f"event {le['etype']} created after finalize() with filters "
                                f"{le.get('filters')}: send() returned {res!r}, delivered {got}x, "
                                f"expected {'delivery' if expected else 'rejection'}")

        def do_second(how):
            """A second stop request; only interesting while the clean-up is in progress."""
            simtask = info['simtask']
            if simtask is None or simtask.done() or circuit.error is None:
                return
            run.fired('reach:second_stop_request_during_cleanup_of_failed_start')
            run.log('second-stop', how)
            run.beh('second-stop', how)
            if how == 'abort':
                circuit.abort(RuntimeError('second stop request'))
            elif how == 'abort_cancel':
                circuit.abort(asyncio.CancelledError('second stop request'))
            else:
                async def shut():
                    try:
                        await circuit.shutdown()
                    except Exception:   # pylint: disable=broad-except
                        pass            # the error of the failed start, re-raised
                info['tasks'].append(asyncio.ensure_future(shut(), loop=run.loop))

        def failed_start(err):
            """Oracle of a failing start."""
            state['failed'] = True
            cause = circuit.error
            run.log('start-failed', cerr(err), cerr(cause))
            if cause is None:
                run.violate('C15/failed-start/no-error-recorded',
                            f"wait_init() raised {cerr(err)} but Circuit.error is None")
            if circuit.is_ready():
                run.violate('C15/failed-start/still-ready', "is_ready() is true after a failed start")
            n_started = 0
            names = [b.name for b in circuit.getblocks()]
            for name in names:
                st = life.started.get(name, 0)
                sp = life.stopped.get(name, 0)
                n_started += bool(st)
                if sp != (1 if st else 0):
                    run.violate('C15/failed-start/started-block-not-stopped' if sp == 0
                                else 'C15/failed-start/stop-count',
                                f"{name}: start() returned {st}x, stop() called {sp}x after the "
                                f"start failed with {cerr(cause)}")
                sa = life.stop_async.get(name, 0)
                if sa > (1 if st else 0):
                    run.violate('C15/failed-start/stop-count',
                                f"{name}: start() returned {st}x, stop_async() called {sa}x after "
                                f"the start failed with {cerr(cause)}")
            simtask = info['simtask']
            if simtask is not None and simtask.done() and simtask.cancelled():
                run.violate('C15/failed-start/task-cancelled-instead-of-error',
                            f"the start failed with {cerr(cause)}, but run_forever() ended as "
                            "cancelled: the error of the failing start is lost")
            if astop and any(life.started.get(x['name']) for x in astop):
                run.fired('reach:start_failed_after_async_block_started')
            if astop and any(not life.started.get(x['name']) for x in astop) and n_started:
                run.fired('reach:start_failed_before_async_block_started')
            if inv is not None and n_started and (inv['cls'], inv['variant']) in PIN_NOTHING_STARTED:
                run.violate(f"C15/invalid-detected-late/{inv['cls']}-{inv['variant']}",
                            f"{inv['cls']} (variant {inv['variant']}): a reference by name of the "
                            f"wrong kind is refused by the name resolver, i.e. before any block "
                            f"is started; {n_started} blocks were started: {cerr(cause)}")
            if 0 < n_started < len(names):
                run.fired('reach:start_failed_partial_start')
            elif n_started == 0:
                run.fired('reach:start_failed_nothing_started')
            run.beh('failed-start', n_started, len(names))

        async def main():
            if explicit:
                run.fired('reach:explicit_finalize')
                try:
                    circuit.finalize()
                except Exception as err:    # pylint: disable=broad-except
                    if state['valid']:
                        run.violate(f"C15/finalize-failed/{type(err).__name__}",
                                    f"finalize() of a valid circuit raised {cerr(err)}")
                        return
                    run.fired('reach:invalid_detected_at_explicit_finalize')
                    run.log('invalid', inv['cls'], inv['variant'], 'finalize', cerr(err))
                    run.beh('invalid', inv['cls'], inv['variant'], 'finalize')
                    istate['stage'] = 'finalize'
                    state['failed'] = True
                    # the circuit is not finalized; what does the application do next?
                    mode = plan.get('after_failed_finalize', 'stop')
                    run.beh('after-failed-finalize', mode)
                    if mode == 'stop':
                        return
                    if mode.startswith('repair') and not repairable():
                        mode = 'finalize_again'
                    if mode.startswith('repair'):
                        # the missing block is added: now everything must get resolved
                        run.fired('reach:missing_block_added_after_failed_finalize')
                        nb = edzed.Input('nosuch', initdef=0)
                        life.wrap(nb)
                        sim.blocks['nosuch'] = nb
                        sim.blocks['bad'] = sim.bad['block']
                        sim.events.extend(sim.bad['events'])
                        state['valid'] = True
                        if mode == 'repair_finalize':
                            try:
                                circuit.finalize()
                            except Exception as err2:    # pylint: disable=broad-except
                                run.violate(f"C15/finalize-failed/after-repair/{type(err2).__name__}",
                                            "the missing block was added after a failed "
                                            f"finalize(), the next finalize() raised {cerr(err2)}")
                                return
                            chk.check_structure('finalized-after-repair', False)
                    elif mode == 'finalize_again':
                        try:
                            circuit.finalize()
                        except Exception as err2:    # pylint: disable=broad-except
                            run.fired('reach:second_finalize_failed_again')
                            run.log('invalid', 'second finalize', cerr(err2))
                        else:
                            run.violate(
                                f"C15/invalid-accepted/second-finalize/{inv['cls']}-{inv['variant']}",
                                f"finalize() failed with {cerr(err)}; nothing was changed, but a "
                                "second finalize() succeeded")
                    # ... and goes on to start the circuit
                else:
                    if state['valid']:
                        chk.check_structure('finalized', False)
                    do_mods('finalized')
                    make_late()
            simtask = asyncio.create_task(circuit.run_forever())
            info['simtask'] = simtask
            sec = plan.get('second_stop')
            if sec and not state['valid'] and astop:
                run.at(min(a['dur'] for a in astop) * sec['frac'], do_second, sec['how'])
            await asyncio.sleep(0)
            state['started'] = True
            if state['valid'] and circuit.is_finalized() and circuit.error is None:
                chk.check_structure('first_step', True)
            if circuit.is_finalized() or circuit.error is not None:
                do_mods('first_step')
            limit = ainit[0]['dur'] * 0.9 if ainit else 0.0
            for op in plan.get('pre', []):
                t = min(float(op.get('t', 0.0)), limit)
                if t <= 0.0:
                    do_pre(op)
                else:
                    run.at(t, do_pre, op)
            if ainit:
                for m in mods:
                    if m['at'] == 'async_init':
                        run.at(ainit[0]['dur'] * m.get('frac', 0.5), mod_async, m)
            try:
                await circuit.wait_init()
            except edzed.EdzedInvalidState as err:
                cause = circuit.error
                if state['valid'] and sim.is_instability(cause):
                    verdict = sim.judge_abort(cause)
                    if verdict:
                        run.violate(verdict[0], 'start-up burst: ' + verdict[1])
                elif state['valid']:
                    sig = f"C15/start-failed/{type(cause).__name__}"
                    if explicit and filter_only and isinstance(cause, edzed.EdzedInvalidState):
                        sig = 'C15/start-failed/shortcut-in-filter-after-explicit-finalize'
                    run.violate(sig, f"a valid circuit could not be started: {cerr(cause)} "
                                f"(explicit finalize() before the start: {explicit}, '_not_NAME' "
                                f"used by event filters only: {filter_only})")
                else:
                    run.fired('reach:invalid_detected_at_start')
                    run.log('invalid', inv['cls'], inv['variant'], 'start', cerr(cause))
                    run.beh('invalid', inv['cls'], inv['variant'], 'start')
                    istate['stage'] = 'start'
                failed_start(err)
                do_mods('failed')
                if not simtask.done():
                    run.violate('C15/failed-start/task-still-running',
                                "wait_init() raised but the simulation task is not finished")
                return
            if not state['valid']:
                run.violate(f"C15/invalid-accepted/{inv['cls']}-{inv['variant']}",
                            f"the invalid construction {inv['cls']} (variant {inv['variant']}, "
                            f"a={inv['a']}, b={inv['b']}, c={inv['c']}) was accepted and the "
                            "circuit started")
            sim.inited = True
            sim.evals_done()
            if state['valid']:
                sim.check_idle('wait_init')
                chk.check_structure('wait_init', True)
            for k, op in enumerate(plan['ops']):
                if not circuit.is_ready():
                    break
                do_mods('running', k)
                if state['valid']:
                    send_late(k)
                kind = op['op']
                if kind == 'send':
                    if state['valid']:
                        chk.checked_send(op)
                    else:
                        sim.send(op)
                    continue
                sim.note_yield()
                if kind == 'yield':
                    await asyncio.sleep(0)
                elif kind == 'settle':
                    await asyncio.sleep(0.01)
                else:
                    raise PlanError(f"unknown op {kind}")
                sim.evals_done()
            sim.note_yield()
            await asyncio.sleep(0.01)
            sim.evals_done()
            state['stopping'] = True
            err = None
            try:
                await circuit.shutdown()
            except Exception as exc:    # pylint: disable=broad-except
                err = exc
            run.log('stopped', cerr(err))
            if err is not None and state['valid']:
                verdict = sim.judge_abort(err)
                if verdict:
                    run.violate(*verdict)
            if state['valid']:
                chk.check_structure('stopped', True)
            do_mods('stopped')

        run.run(main())
        if run.main_exc is not None:
            # nothing in main() may raise: a PlanError means a minimised plan, anything else
            # is an error of this harness and must not pass for a clean run
            if isinstance(run.main_exc, PlanError):
                raise run.main_exc
            raise RuntimeError(f"driver failed: {circlib.cerr(run.main_exc)}") from run.main_exc
        if state['valid']:
            run.beh('shape', sim.shape(),
                    [[o, e['byname'], [[f[0], f[-2]] for f in e.get('filters', [])]]
                     for o, e, _x, _y in sim.events])
        res = run.result()
        if not (chk.n_struct or state['failed']):
            res['behaviour'] = None
        if trace:
            res['trace'] = run.trace
        return res
    finally:
        Life.uninstall_base()
        if sim is not None:
            sim.uninstall()
        run.close()
