"""
C02 - output events reproduce the source block's output history exactly.

Real code: edzed.SBlock.set_output / CBlock.eval_block / Event.send / EventCond /
event_tuple normalisation, edzed.Input, edzed.Counter, edzed.FuncBlock, the library filters
not_from_undef, Edge, DataEdit, and the simulator task that evaluates the combinational
senders - all unmodified, on the virtual loop.

One run = a generated acyclic circuit of 2-9 blocks created in a random order:
  senders   Setter probe (events set/dbl/pair -> 1-2 set_output calls), edzed.Input (with and
            without check=), edzed.Counter (with and without modulo), FuncBlock identity / tuple
            of sources / bool / ==1, edzed.Not (events emitted inside the simulator task);
  events    0-3 on_output and 0-3 on_every_output events given as None/()/[]/single/tuple/list,
            destinations by object or by name, plain and EventCond types, 0-3 filters each
            (accept / reject / replace / edit in place, library and home made), Event objects
            shared between the two lists;
  dests     recorder probes (generic and specialised handler), some forwarding to further
            blocks, and other senders (Input 'put', Setter 'set', Counter 'inc'): an output
            history is then itself produced by events;
  history   initial values, optional external events *before* the initialisation, then 1-30
            external events in bursts with and without yielding to the simulator task; values
            from a pool with 1/True/1.0/1+0j/Fraction(1), 0/False/0.0/-0.0, None, '', tuples,
            equal-but-not-identical objects, NaN (alone and inside tuples), unhashable values.

Oracle (models/outevent_model.py, written from docs/events.rst + the property):
  every *stimulus* (external event, top level initialisation of a sequential block, one
  evaluation of a combinational block) is bracketed; the ordered list of everything that
  happened inside the bracket - filter consultations F, handler receptions R with their data,
  nested assignments A..Z of further senders - must equal the model's list: events exactly for
  the changes (!=), on_every_output for every assignment, configured order, on_output before
  on_every_output, previous = the retained old object (UNDEF first), value, source, trigger,
  delivered data == data after the filters, everything finished before the assignment
  returns, nothing outside a bracket.  Sequential senders are fully predicted from the plan
  (the order in which edzed initialises blocks is consumed from the observation, it is not
  C02's business).  Combinational senders use the monitor form: the value computed by
  calc_output and the changed flag are observed by pass-through wrappers (glitches are legal);
  chain previous(k+1) is value(k), first previous UNDEF, events iff previous != computed,
  output after the evaluation is the last event's value.

Added after the seeded-change round 3 (C02-s7/s8/s9):
  * FSM senders (edzed.Timer restartable or not, edzed.InputExp, a generic FSM whose
    calc_output maps states to planned values incl. UNDEF): a transition that leaves the output
    unchanged is an assignment, on_every_output is due (C02/missing-assignment/<kind>);
  * every reception records the outputs of all senders at that moment and the stock filters
    DataEdit.add_output / IfOutput read the sender's output during delivery: value = the new
    output already then, for combinational senders too (C02/output-during-delivery/...);
  * events addressed to '_ctrl' (shutdown / abort, plain and EventCond, usually filtered so that
    they fire in mid-run) in the middle of on_output / on_every_output lists, and Setter probes
    that assign a last value in stop(): brackets are judged until the simulation task has
    ended; an output change after the stop request still owes its on_output events.

Sensitivity sweep. Each mutant applied to a scratch copy of /repo, `VERIF_REPO=<copy> ./check C02`;
all were caught within the first 8000 runs of the quick tier (quick = 100000 runs), exit 1.
Columns: mutant | what it needs to show up | dominant signature.
(M1-M5 are the mutants listed in DESIGN.md section 4; the rest are own.)

 M1  set_output compares with `is`            equal-not-identical value    spurious-event/*-unchanged
 M1b eval_block compares with `is`            same, inside simulator task  spurious-event/func, cblock/changed-flag
 M2  on_every_output sent before on_output    both lists configured        order/on_every_output-before-on_output
 M3  set_output: previous read after the      any change                   previous/<kind>
     assignment
 M4  _to_tuple reverses a list                >=2 events/filters as list   order/configured-order
 M5  CBlock sends when unchanged              unchanged evaluation (burst  spurious-event/func
                                              or 1->True->..)
 M6  Event.send ignores the mapping returned  replacing filter             data/keys
     by a filter
 M7  unchanged assignment stores the new      1 -> True -> next event      retained-output/*, previous/*/identity
     equal object
 M8  on_every_output only when unchanged      change + on_every_output     missing-event/*-on_every_output
 M9  source = destination's name              any event                    source
 M10 EventCond branches swapped               EventCond event              etype
 M11 eval_block: previous read after the      CBlock change                previous/func
     assignment
 M12 change test also compares types          1 -> True                    spurious-event/*-unchanged
 M13 on_output loop stops after a rejected    veto filter + later event    missing-event/*-on_output
     event
 M15 delivery through loop.call_soon          any event                    missing-event/* (then async-delivery)
 M16 _to_tuple keeps only two items           3 events on a trigger        missing-event/*
 M17 `previous is value or previous == value` same NaN object twice        missing-event/*-on_output
 M18 eval_block compares truth values         2 -> 3 in a CBlock           missing-event/func, output-mismatch/func
 M19 on_every_output: previous read after     change + on_every_output     previous/<kind>
     the assignment
 M20 a single event becomes (ev, ev)          single-event notation        spurious-event/*-changed
 M21 eval_block: first previous None          first evaluation             previous/func
 M22 Counter skips set_output when equal      inc by 0 / modulo wrap       event-sequence/counter
 M23 set_output: first previous None          init-time event              previous/<kind>
 M24 _to_tuple reverses a tuple               >=2 events as tuple          order/configured-order
 M25 on_every_output skipped on change when   change, no on_output events  missing-event/*-on_every_output
     no on_output events exist
Missed: none. (Whether a mutant passes edzed's own test-suite was not established.)
"""

from __future__ import annotations

import asyncio
import fractions
import re

from simkit import seams
from simkit.runner import Run, PlanError, gen_knobs
from models.outevent_model import (
    OutEventModel, ModelError, Ev, Blk, NOVAL, forward_data, setter_values, input_check,
    REC_ETYPES, SETTER_ETYPES, INPUT_ETYPES, COUNTER_ETYPES, TIMER_ETYPES, INPUTEXP_ETYPES,
    GFSM_ETYPES, CTRL_ETYPES, FSM_KINDS, SENDER_KINDS, GFSM_TABLE)

edzed = seams.install()
UNDEF = edzed.UNDEF

PROP = 'C02'
LEVEL = 'exploration'
RUNS = {'quick': 100000, 'thorough': 2500000}
CHUNK = 500
RULE = ("one run = one generated acyclic circuit (2-9 blocks in random creation order: Setter "
        "probe / Input / Counter / FuncBlock senders with 0-3 on_output and 0-3 on_every_output "
        "events in every accepted notation, 0-3 filters per event, EventCond types; recorder "
        "probes, forwarding recorders and other senders as destinations; FSM senders Timer / "
        "InputExp / a generic 3-state FSM; some events address the control block '_ctrl' "
        "(shutdown/abort in mid-run, further events of the same trigger follow); some Setter "
        "probes assign a last value in stop(); every reception records all senders' outputs) "
        "+ initial values, "
        "optional external events before the initialisation and 1-30 external events in bursts "
        "with/without yielding, values from a pool of equal-but-not-identical objects; every "
        "16th run index uses one sender + recorders and only the 1/True/1.0 and 0/False/0.0/"
        "-0.0 families with up to 30 events; hash_salt decides the evaluation order of the combinational senders; "
        "non-trivial = after the initialisation at least two events reached a handler and at "
        "least one assignment left the output unchanged or one event was rejected by a filter; "
        "distinct = hash of the per-stimulus shapes (stimulus kind, sender kind, sequence of "
        "A/F/R/Z entries with destination kinds and changed flags), values removed")
REACH_EXPECTED = [
    'unchanged_eq_not_identical', 'nan_change', 'every_unchanged_event', 'event_prev_undef',
    'veto', 'edit', 'early_init_dest', 'pre_init_ext', 'nested_assignment', 'forwarded',
    'cblock_event', 'cblock_to_sblock', 'cblock_unchanged_eval', 'cblock_glitch_free_burst',
    'multi_assign_one_event', 'input_rejected', 'cond_none', 'cond_event', 'both_kinds',
    'three_events_one_trigger', 'shared_event_object', 'dest_by_name_created_later',
    'burst_without_yield', 'fsm_unchanged_every', 'fsm_undef_output', 'ctrl_event',
    'change_after_stop_request', 'stop_assignment', 'addout_filter']
ASSUMPTIONS = [
    "identity of objects is judged where the harness can observe it: two different pool "
    "objects are different even when equal; values computed by edzed (Counter arithmetic) are "
    "compared by type and repr",
    "an unchanged assignment keeps the old output object (DESIGN section 4, C02): a tree that "
    "stores the new equal object instead is reported as C02/retained-output or C02/previous",
    "the order in which edzed initialises sequential blocks is consumed from the observation",
    "the probe blocks' own behaviour (Setter: which values it assigns; recorder: what it "
    "forwards) is harness code shared with the model",
    "output events are owed for every assignment between the start of the simulation task and "
    "its end, also after a shutdown/abort request and during the clean-up (the property does "
    "not say 'only while the circuit is ready')",
    "FSM senders never reach a timer expiry within a run (InputExp duration 1000 s, Timer "
    "without durations): timed transitions are C04's business",
]
REAL_EXTRA = ["edzed.Input, edzed.Counter, edzed.FuncBlock, edzed.Not, edzed.Timer, edzed.InputExp, "
              "edzed.FSM (generic subclass), edzed.ControlBlock ('_ctrl'), edzed.EventCond, "
              "edzed.not_from_undef, edzed.Edge, edzed.DataEdit (incl. add_output), edzed.IfOutput"]
STUB_EXTRA = ["Setter and recorder probe blocks (subclasses of the real edzed.SBlock); "
              "pass-through wrappers (instance attributes) around set_output, eval_block and "
              "calc_output of the senders"]

# --------------------------------------------------------------------------- value pool

class Eq:
    """Equal-but-not-identical objects that can be told apart by repr."""
    __slots__ = ('key', 'tag')

    def __init__(self, key, tag):
        self.key = key
        self.tag = tag

    def __eq__(self, other):
        if isinstance(other, Eq):
            return self.key == other.key
        return NotImplemented

    def __ne__(self, other):
        if isinstance(other, Eq):
            return self.key != other.key
        return NotImplemented

    __hash__ = None

    def __repr__(self):
        return f"Eq({self.key}{self.tag})"


def build_pool():
    """Fresh objects for every run: [(label, object)]."""
    nan = float('nan')
    nan2 = float('nan')
    big = 10 ** 20
    return [
        ('1', 1), ('True', True), ('1.0', 1.0), ('1+0j', complex(1, 0)),        # 0-3
        ('Fr(1)', fractions.Fraction(1, 1)),                                    # 4
        ('0', 0), ('False', False), ('0.0', 0.0), ('-0.0', -0.0),               # 5-8
        ('None', None), ("''", ''), ('()', ()),                                 # 9-11
        ('(1,2)#a', tuple([1, 2])), ('(1,2)#b', tuple([1, 2])),                 # 12-13
        ('(1,True)', (1, True)), ('(1.0,1)', (1.0, 1)),                         # 14-15
        ('nan#a', nan), ('nan#b', nan2),                                        # 16-17
        ('(nan#a,)#a', (nan,)), ('(nan#a,)#b', (nan,)), ('(nan#b,)', (nan2,)),  # 18-20
        ('Eq1a', Eq(1, 'a')), ('Eq1b', Eq(1, 'b')), ('Eq2', Eq(2, 'c')),        # 21-23
        ('2', 2), ("'a'", 'a'), ("'ab'#x", 'ab'), ("'ab'#y", ''.join(['a', 'b'])),  # 24-27
        ('[1]#a', [1]), ('[1]#b', [1]), ('{}', {}),                             # 28-30
        ('big#a', big), ('big#b', big + 1 - 1),                                 # 31-32
        ('{1}', {1}), ('fz{1}', frozenset([1])),                                # 33-34
        ('3', 3), ('-1', -1), ('5', 5), ('7', 7),                               # 35-38
    ]


NPOOL = len(build_pool())
FAMILIES = [[0, 1, 2, 3, 4], [5, 6, 7, 8], [12, 13], [14, 15], [16, 17], [18, 19, 20],
            [21, 22], [26, 27], [28, 29], [31, 32], [33, 34], [9], [10, 11]]
FAMILY_OF = {}
for _fam in FAMILIES:
    for _i in _fam:
        FAMILY_OF[_i] = _fam
SMALL_VALUES = [0, 1, 2, 5, 6, 7, 8, 24]
NUMERIC = [0, 1, 2, 5, 6, 7, 8, 24, 35, 36, 37, 38]      # what a Counter may be 'put' to


# --------------------------------------------------------------------------- generation

FILTER_KINDS_ANY = ['pass', 'one', 'passd', 'veto', 'none', 'zero', 'truthy', 'nfu', 'edge',
                    'add', 'inplace', 'copyv']
FILTER_KINDS_LAST = ['delprev', 'only']


def gen_filters(rng, fwd=False, owner=None):
    r = rng.random()
    n = 0 if r < 0.5 else 1 if r < 0.8 else 2 if r < 0.93 else 3
    flist = []
    for i in range(n):
        if i == n - 1 and rng.random() < 0.2:
            kind = rng.choice(FILTER_KINDS_LAST)
        else:
            kind = rng.choice(FILTER_KINDS_ANY)
        if fwd and kind == 'edge':      # forwarded data carry no 'previous'
            kind = 'truthy'
        if not fwd and owner is not None and rng.random() < 0.12:
            # stock filters that read the SENDER's output while its event is being delivered
            kind = rng.choice(['addout', 'addout', 'ifout'])
        arg = None
        if kind in ('addout', 'ifout'):
            arg = owner
        if kind == 'edge':
            arg = [rng.random() < 0.6, rng.random() < 0.6, rng.choice([None, None, True, False]),
                   rng.random() < 0.4]
        elif kind in ('add', 'inplace'):
            arg = rng.choice([1, 'x', None])
        flist.append({'k': kind, 'a': arg})
    form = 'none' if not flist else rng.choice(['tuple', 'list'] + (['single'] * 2 if n == 1 else []))
    if not flist:
        form = rng.choice(['omit', 'omit', 'none', 'tuple', 'list'])
    return {'form': form, 'list': flist}


def dest_etypes(kind):
    return {'rec': list(REC_ETYPES), 'setter': ['set', 'set', 'dbl', 'pair'],
            'input': ['put'], 'counter': ['inc', 'dec'], 'timer': list(TIMER_ETYPES),
            'inputexp': ['put'], 'gfsm': list(GFSM_ETYPES)}[kind]


def gen_ctrl_event(rng):
    """An event asking the control block to stop the simulation - usually in mid-run."""
    r = rng.random()
    if r < 0.4:
        flist = [{'k': 'nfu', 'a': None}]           # the first change after the initialisation
    elif r < 0.7:
        flist = [{'k': 'veq', 'a': rng.choice(SMALL_VALUES + [rng.randrange(NPOOL)])}]
    elif r < 0.85:
        flist = [{'k': 'truthy', 'a': None}]
    else:
        flist = []
    etype = rng.choice(['shutdown', 'shutdown', 'shutdown', 'abort', ['cond', 'shutdown', None],
                        ['cond', None, 'abort']])
    return {'dest': '_ctrl', 'byname': True, 'etype': etype,
            'filters': {'form': 'list', 'list': flist}}


def gen_event(rng, dests, fwd=False, owner=None):
    """dests: [(name, kind)] candidates."""
    recs = [d for d in dests if d[1] == 'rec']
    if recs and rng.random() < 0.7:
        name, kind = rng.choice(recs)
    else:
        name, kind = rng.choice(dests)
    etypes = dest_etypes(kind)
    if rng.random() < 0.15:
        etype = ['cond', rng.choice(etypes + [None]), rng.choice(etypes + [None])]
    else:
        etype = rng.choice(etypes)
    filters = gen_filters(rng, fwd, owner)
    if kind == 'rec' and rng.random() < 0.08:
        # a filter may return an EMPTY mapping: that is an edit (the destination gets no
        # items at all), not a veto; only recorders accept events without a value
        filters['list'].append({'k': 'empty', 'a': None})
        filters['list'] = filters['list'][-3:]
        if filters['form'] in ('omit', 'none') or (filters['form'] == 'single'
                                                   and len(filters['list']) != 1):
            filters['form'] = 'list'
    return {'dest': name, 'byname': rng.random() < 0.35, 'etype': etype,
            'filters': filters}


def gen_evlist(rng, dests, weights, fwd=False, owner=None, ctrl=0.0):
    if not dests:
        n = 0
    else:
        n = rng.choices([0, 1, 2, 3], weights)[0]
    events = [gen_event(rng, dests, fwd, owner) for _ in range(n)]
    if ctrl and n < 3 and rng.random() < ctrl:
        # ... followed (and preceded) by ordinary events of the same trigger
        events.insert(rng.randrange(n + 1), gen_ctrl_event(rng))
        n += 1
    if n == 0:
        form = rng.choice(['omit', 'none', 'tuple', 'list'])
    elif n == 1:
        form = rng.choice(['single', 'single', 'tuple', 'list'])
    else:
        form = rng.choice(['tuple', 'list'])
    return {'form': form, 'events': events}


def pick_value(rng, last, small):
    """Pool index of the next value; 'last' = index assigned last to that sender."""
    r = rng.random()
    if last is not None and r < 0.3:
        return rng.choice(FAMILY_OF.get(last, [last]))
    if last is not None and r < 0.42:
        return last
    if small:
        return rng.choice(SMALL_VALUES)
    return rng.randrange(NPOOL)


def gen(rng, tier, index=0):
    small = index % 16 == 0
    if small:
        nblk = rng.randint(2, 4)
    else:
        nblk = rng.choice([2, 3, 3, 4, 4, 5, 5, 6, 7] + ([8, 9] if tier == 'thorough' else []))
    # kinds by rank (all references point from lower to higher rank)
    kinds = []
    nfunc = 0
    for rank in range(nblk):
        if rank == 0:
            kind = rng.choice(['setter', 'setter', 'setter', 'input', 'input', 'counter',
                               'timer', 'inputexp', 'gfsm'])
        elif small:
            kind = 'rec'
        else:
            kind = rng.choices(
                ['setter', 'input', 'counter', 'timer', 'inputexp', 'gfsm', 'func', 'rec'],
                [0.14, 0.11, 0.07, 0.05, 0.05, 0.05, 0.2 if nfunc < 3 else 0.0, 0.33])[0]
        if kind == 'func':
            nfunc += 1
        kinds.append(kind)
    if 'rec' not in kinds:
        kinds[-1] = 'rec'
    names = []
    counters = {}
    for kind in kinds:
        prefix = {'setter': 'S', 'input': 'I', 'counter': 'C', 'func': 'F', 'rec': 'R',
                  'timer': 'T', 'inputexp': 'X', 'gfsm': 'G'}[kind]
        counters[prefix] = counters.get(prefix, 0) + 1
        names.append(f"{prefix}{counters[prefix]}")
    blocks = []
    for rank, (name, kind) in enumerate(zip(names, kinds)):
        b = {'name': name, 'kind': kind, 'rank': rank}
        dests = [(names[r], kinds[r]) for r in range(rank + 1, nblk) if kinds[r] != 'func']
        if kind == 'rec':
            b['fwd'] = {'form': 'list', 'events': []}
            if dests and rng.random() < 0.25:
                b['fwd'] = gen_evlist(rng, dests, [0, 0.75, 0.25, 0], fwd=True)
        else:
            b['on_output'] = gen_evlist(rng, dests, [0.12, 0.43, 0.25, 0.2], owner=name, ctrl=0.05)
            if kind != 'func':
                b['on_every_output'] = gen_evlist(
                    rng, dests, [0.4, 0.33, 0.15, 0.12] if kind not in FSM_KINDS
                    else [0.15, 0.5, 0.2, 0.15], owner=name, ctrl=0.02)
                oo = b['on_output']['events']
                eo = b['on_every_output']['events']
                if oo and eo and rng.random() < 0.2:
                    # the same Event object in both lists
                    eo[rng.randrange(len(eo))] = {'share': rng.randrange(len(oo))}
        if kind == 'setter':
            b['init'] = pick_value(rng, None, small)
            b['initvia'] = rng.choice(['reg', 'def'])
            b['alt'] = pick_value(rng, None, small)
            if rng.random() < 0.25:
                # the probe assigns a last value in its stop(), i.e. during the clean-up
                b['stopval'] = pick_value(rng, b['init'], small)
        elif kind == 'timer':
            b['init'] = rng.choice(['off', 'off', 'on'])
            b['restartable'] = rng.random() < 0.7
        elif kind == 'inputexp':
            b['expired'] = pick_value(rng, None, small)
            if rng.random() < 0.6:
                b['init'] = pick_value(rng, b['expired'], small)
        elif kind == 'gfsm':
            first = pick_value(rng, None, small)
            b['outmap'] = {'a': first, 'b': pick_value(rng, first, small),
                           'c': rng.choice(['U', pick_value(rng, first, small)])}
            b['init'] = rng.choice(['a', 'a', 'b'])
        elif kind == 'input':
            b['check'] = rng.choice([None, None, 'notnone', 'nottuple'])
            while True:
                b['init'] = pick_value(rng, None, small)
                if input_check(b['check'], build_pool()[b['init']][1]):
                    break
        elif kind == 'counter':
            b['init'] = rng.choice([5, 0, 24, 36, 35])      # pool indices of 0 0 2 -1 3
            b['mod'] = rng.choice([None, None, 3, 5])
        elif kind == 'func':
            srcs = [names[r] for r in range(rank) if kinds[r] != 'rec']
            fn = rng.choice(['ident', 'ident', 'tuple', 'tuple', 'bool', 'eq1', 'not'])
            if fn == 'tuple':
                k = rng.choice([1, 2, 2, 3])
                b['src'] = [rng.choice(srcs) for _ in range(k)]
                b['unpack'] = rng.random() < 0.5
            else:
                b['src'] = [rng.choice(srcs)]
            b['fn'] = fn
            b['srcbyname'] = rng.random() < 0.5
        blocks.append(b)
    order = list(range(nblk))
    rng.shuffle(order)
    blocks = [blocks[i] for i in order]

    sblocks = [b for b in blocks if b['kind'] in ('setter', 'input', 'counter') + FSM_KINDS]
    sblocks.sort(key=lambda b: b['rank'])
    last = {}

    def gen_op():
        if rng.random() < 0.6:
            b = sblocks[0]
        else:
            b = rng.choice(sblocks)
        name = b['name']
        op = {'blk': name}
        if b['kind'] == 'counter':
            op['ev'] = rng.choice(['inc', 'inc', 'dec', 'put', 'reset'])
            if op['ev'] in ('inc', 'dec') and rng.random() < 0.5:
                op['amt'] = rng.choice([0, 1, 2, 3, -1, 5])
            if op['ev'] == 'put':
                op['v'] = rng.choice(NUMERIC)
        elif b['kind'] == 'timer':
            op['ev'] = rng.choice(['start', 'start', 'stop', 'toggle'])
        elif b['kind'] == 'gfsm':
            op['ev'] = rng.choice(['next', 'next', 'stay', 'stay', 'back'])
        elif b['kind'] == 'inputexp':
            op['ev'] = 'put'
            op['v'] = pick_value(rng, last.get(name, b.get('init', b['expired'])), small)
            last[name] = op['v']
        else:
            op['ev'] = 'put' if b['kind'] == 'input' else rng.choice(['set'] * 6 + ['dbl', 'pair'])
            op['v'] = pick_value(rng, last.get(name, b['init']), small)
            last[name] = op['v']
        op['y'] = rng.choices([0, 1, 2], [0.45, 0.45, 0.1])[0]
        return op

    pre_ops = []
    if rng.random() < 0.15:
        pre_ops = [gen_op() for _ in range(rng.randint(1, 2))]
    maxops = 30 if tier == 'thorough' or small else 16
    nops = rng.choice([1, 2, 3, 4, 5, 6, 8, 10, 12, maxops])
    ops = [gen_op() for _ in range(nops)]
    knobs = gen_knobs(rng, latency=False, cost=False, ties=False)
    return {'knobs': knobs, 'blocks': blocks, 'pre_ops': pre_ops, 'ops': ops}


# --------------------------------------------------------------------------- probes

class Setter(edzed.SBlock):
    """Sender probe: events set/dbl/pair -> set_output(value) calls."""

    def init_regular(self):
        if self.x_reg is not NOVAL:
            self.set_output(self.x_reg)

    def init_from_value(self, value):
        self.set_output(value)

    def _event(self, etype, data):
        for value in setter_values(etype, data, self.x_alt):
            self.set_output(value)
        return 'ok'

    def stop(self):
        if self.x_stopval is not NOVAL:
            self.x_stop_hook(self)      # an output assignment during the clean-up
        super().stop()


class GFsm(edzed.FSM):
    """Small generic FSM sender; calc_output maps the state to a planned value."""
    STATES = ['a', 'b', 'c']
    EVENTS = [(_ev, _st, _new) for (_ev, _st), _new in GFSM_TABLE.items()]

    def calc_output(self):
        return self.x_outmap[self._state]


class Rec(edzed.SBlock):
    """Destination probe: logs what it receives, optionally forwards."""

    def init_regular(self):
        self.set_output(0)

    def _handle(self, etype, data):
        self.x_log(self.name, etype, dict(data))
        for ev in self.x_fwd:
            ev.send(self, **forward_data(data))

    def _event(self, etype, data):          # generic handler: data as a dict
        self._handle(etype, data)

    def _event_put(self, **data):           # specialised handler: data as keyword arguments
        self._handle('put', data)


def real_filter(kind, arg):
    if kind == 'addout':
        return edzed.DataEdit.add_output('now', arg)
    if kind == 'ifout':
        return edzed.IfOutput(arg)
    if kind == 'pass':
        return lambda data: True
    if kind == 'one':
        return lambda data: 1
    if kind == 'passd':
        return lambda data: data
    if kind == 'veto':
        return lambda data: False
    if kind == 'none':
        return lambda data: None
    if kind == 'zero':
        return lambda data: 0
    if kind == 'truthy':
        return lambda data: bool(data.get('value'))
    if kind == 'nfu':
        return edzed.not_from_undef
    if kind == 'edge':
        try:
            rise, fall, u_rise, u_fall = arg
        except (TypeError, ValueError):
            raise PlanError('bad Edge arguments') from None
        return edzed.Edge(rise=rise, fall=fall, u_rise=u_rise, u_fall=u_fall)
    if kind == 'add':
        return edzed.DataEdit.add(tag=arg)
    if kind == 'inplace':
        def inplace(data):
            data['mark'] = arg
            return True
        return inplace
    if kind == 'delprev':
        return edzed.DataEdit.delete('previous')
    if kind == 'copyv':
        return edzed.DataEdit.copy('value', 'v2')
    if kind == 'only':
        return edzed.DataEdit.permit('value', 'source')
    if kind == 'empty':
        return lambda data: {}
    if kind == 'veq':
        return lambda data: data.get('value', NOVAL) == arg
    raise PlanError(f"unknown filter {kind!r}")


FUNCS = {
    'ident': lambda x: x,
    'bool': lambda x: bool(x),      # (inspect.signature(bool) fails in FuncBlock.start)
    'eq1': lambda x: x == 1,
}


# --------------------------------------------------------------------------- harness

def clean(text):
    """No object addresses in anything that reaches the trace."""
    return re.sub(r' at 0x[0-9a-fA-F]+', '', str(text))


class Harness:

    def __init__(self, run, plan):
        self.run = run
        self.plan = plan
        self.pool = build_pool()
        self.pool_ids = {id(obj): label for label, obj in self.pool}
        self.model = OutEventModel(UNDEF)
        self.real = {}              # name -> real block
        self.kind = {}              # name -> kind
        self.log = []               # observed entries
        self.consumed = 0
        self.active = None          # current top level stimulus
        self.start = 0
        self.dead = False           # a violation was reported; model and reality may differ
        self.phase = 'build'
        self.computed = {}          # func name -> value computed by calc_output in this evaluation
        self.delivered_after_init = 0
        self.src_changes = {}       # func name -> number of source assignments since last eval
        self.build()

    # ---- values ----
    def val(self, idx):
        if not isinstance(idx, int) or isinstance(idx, bool) or not 0 <= idx < len(self.pool):
            raise PlanError(f"bad pool index {idx!r}")
        return self.pool[idx][1]

    def show(self, v, depth=0):
        label = self.pool_ids.get(id(v))
        if label is not None:
            return label
        if v is UNDEF:
            return '<UNDEF>'
        if isinstance(v, tuple) and depth < 4:
            return '(' + ','.join(self.show(i, depth + 1) for i in v) + (',)' if len(v) == 1 else ')')
        if isinstance(v, dict) and depth < 4:
            return '{' + ', '.join(f"{k}: {self.show(v[k], depth + 1)}" for k in sorted(v, key=str)) + '}'
        return repr(v)

    def same(self, exp, obs, depth=0):
        """Identity where observable."""
        if exp is obs:
            return True
        if id(exp) in self.pool_ids and id(obs) in self.pool_ids:
            return False
        if type(exp) is not type(obs):
            return False
        if isinstance(exp, tuple) and depth < 4:
            return len(exp) == len(obs) and all(
                self.same(a, b, depth + 1) for a, b in zip(exp, obs))
        return repr(exp) == repr(obs)

    def show_entry(self, e):
        if e[0] == 'A':
            return f"A {e[1]} := {self.show(e[2])}"
        if e[0] == 'Z':
            return f"Z {e[1]}"
        if e[0] == 'F':
            return f"F {e[1]}"
        if e[0] == 'R':
            return f"R {e[1]} <- {e[2]} {self.show(e[3])}"
        return str(e[0])

    # ---- construction ----
    def build(self):
        plan = self.plan
        blocks = plan.get('blocks')
        if not isinstance(blocks, list) or not blocks:
            raise PlanError('no blocks')
        spec = {}
        for b in blocks:
            if not isinstance(b, dict) or b.get('kind') not in SENDER_KINDS + ('rec',):
                raise PlanError('bad block')
            if b['name'] in spec:
                raise PlanError('duplicate name')
            spec[b['name']] = b
            self.kind[b['name']] = b['kind']
        self.spec = spec
        created = {}
        real_events = {}        # (owner, list, idx) -> Event object

        def check_edge(owner, dest):
            if dest not in spec:
                raise PlanError(f"unknown destination {dest}")
            if spec[dest]['rank'] <= spec[owner]['rank']:
                raise PlanError('reference to a lower rank')

        def mk_events(owner, key, lst):
            """-> (argument for edzed, [Ev] for the model)"""
            evspecs = lst.get('events', [])
            real = []
            mevs = []
            for idx, es in enumerate(evspecs):
                if 'share' in es:
                    if key != 'e':
                        raise PlanError('share outside on_every_output')
                    try:
                        robj, mobj = real_events[(owner, 'o', es['share'])]
                    except KeyError:
                        raise PlanError('bad share') from None
                    real.append(robj)
                    mevs.append(mobj)
                    self.run.fired('reach:shared_event_object')
                    continue
                dest = es['dest']
                if dest == '_ctrl':
                    # the automatically created control block: stops the simulation
                    dkind = 'ctrl'
                    if '_ctrl' not in self.model.blocks:
                        self.model.add(Blk('_ctrl', 'ctrl', UNDEF))
                        self.kind['_ctrl'] = 'ctrl'
                else:
                    check_edge(owner, dest)
                    dkind = spec[dest]['kind']
                allowed = {'rec': REC_ETYPES, 'setter': SETTER_ETYPES, 'input': INPUT_ETYPES,
                           'counter': ('inc', 'dec'), 'timer': TIMER_ETYPES,
                           'inputexp': INPUTEXP_ETYPES, 'gfsm': GFSM_ETYPES,
                           'ctrl': CTRL_ETYPES}.get(dkind)
                if allowed is None:
                    raise PlanError('event to a combinational block')
                etype = es['etype']
                if isinstance(etype, list):
                    if len(etype) != 3 or etype[0] != 'cond':
                        raise PlanError('bad etype')
                    for alt in etype[1:]:
                        if alt is not None and alt not in allowed:
                            raise PlanError('bad etype')
                    retype = edzed.EventCond(etype[1], etype[2])
                    metype = ('cond', etype[1], etype[2])
                else:
                    if etype not in allowed:
                        raise PlanError('bad etype')
                    retype = metype = etype
                fl = es.get('filters', {'form': 'omit', 'list': []})
                rfilters = []
                mfilters = []
                for k, fs in enumerate(fl.get('list', [])):
                    fid = f"{owner}.{key}{idx}.f{k}"
                    arg = fs.get('a')
                    if fs['k'] == 'veq':
                        arg = self.val(arg)
                    elif fs['k'] in ('addout', 'ifout'):
                        if arg != owner or key == 'f':
                            raise PlanError('output reading filter outside its sender')
                    rfilters.append(self.filter_probe(fid, real_filter(fs['k'], arg)))
                    mfilters.append((fid, fs['k'], tuple(arg) if fs['k'] == 'edge' and isinstance(arg, list) else arg))
                form = fl.get('form', 'omit')
                kwargs = {}
                if form == 'single' and len(rfilters) == 1:
                    kwargs['efilter'] = rfilters[0]
                elif form == 'list':
                    kwargs['efilter'] = list(rfilters)
                elif form == 'none' and not rfilters:
                    kwargs['efilter'] = None
                elif form == 'omit' and not rfilters:
                    pass
                else:
                    kwargs['efilter'] = tuple(rfilters)
                target = dest
                if not es.get('byname') and dest in created:
                    target = created[dest]
                elif dest not in created and dest != '_ctrl':
                    self.run.fired('reach:dest_by_name_created_later')
                try:
                    robj = edzed.Event(target, retype, **kwargs)
                except Exception as err:
                    raise PlanError(f"Event(): {err}") from None
                mobj = Ev(dest, metype, mfilters)
                real_events[(owner, key, idx)] = (robj, mobj)
                real.append(robj)
                mevs.append(mobj)
            form = lst.get('form', 'list')
            if form == 'omit' and not real:
                arg = NOVAL
            elif form == 'none' and not real:
                arg = None
            elif form == 'single' and len(real) == 1:
                arg = real[0]
            elif form == 'list':
                arg = list(real)
            else:
                arg = tuple(real)
            return arg, mevs

        for b in blocks:
            name, kind = b['name'], b['kind']
            mb = Blk(name, kind, UNDEF)
            kwargs = {}
            if kind == 'rec':
                arg, mb.forward = mk_events(name, 'f', b.get('fwd', {}))
                fwd = [] if arg is NOVAL or arg is None else (
                    [arg] if not isinstance(arg, (list, tuple)) else list(arg))
                try:
                    blk = Rec(name, x_log=self.rec_log, x_fwd=fwd)
                except Exception as err:
                    raise PlanError(f"Rec: {err}") from None
            else:
                arg, mb.on_output = mk_events(name, 'o', b.get('on_output', {}))
                if arg is not NOVAL:
                    kwargs['on_output'] = arg
                if kind != 'func':
                    arg, mb.on_every = mk_events(name, 'e', b.get('on_every_output', {}))
                    if arg is not NOVAL:
                        kwargs['on_every_output'] = arg
                try:
                    if kind == 'setter':
                        mb.init = self.val(b['init'])
                        mb.alt = self.val(b.get('alt', 0))
                        if b.get('stopval') is not None:
                            mb.stopval = self.val(b['stopval'])
                        kwargs.update(x_alt=mb.alt, x_stopval=mb.stopval, x_stop_hook=self.stop_assign)
                        mb.initreg = b.get('initvia') != 'def'
                        if not mb.initreg:
                            blk = Setter(name, x_reg=NOVAL, initdef=mb.init, **kwargs)
                        else:
                            blk = Setter(name, x_reg=mb.init, **kwargs)
                    elif kind == 'timer':
                        mb.init = b.get('init', 'off')
                        mb.restartable = bool(b.get('restartable', True))
                        if mb.init not in ('on', 'off'):
                            raise PlanError('bad timer state')
                        blk = edzed.Timer(name, restartable=mb.restartable, initdef=mb.init, **kwargs)
                    elif kind == 'inputexp':
                        mb.expired = self.val(b.get('expired'))
                        if b.get('init') is not None:
                            mb.has_init = True
                            mb.init = self.val(b['init'])
                            kwargs['initdef'] = mb.init
                        # (the value never expires within a run: C02 is not about timers)
                        blk = edzed.InputExp(name, duration=1000.0, expired=mb.expired, **kwargs)
                    elif kind == 'gfsm':
                        omap = b.get('outmap')
                        if not isinstance(omap, dict) or sorted(omap) != ['a', 'b', 'c']:
                            raise PlanError('bad outmap')
                        mb.outmap = {st: UNDEF if v == 'U' else self.val(v) for st, v in omap.items()}
                        mb.init = b.get('init', 'a')
                        if mb.outmap.get(mb.init, UNDEF) is UNDEF:
                            raise PlanError('initial state without output')
                        blk = GFsm(name, initdef=mb.init, x_outmap=mb.outmap, **kwargs)
                    elif kind == 'input':
                        mb.init = self.val(b['init'])
                        mb.check = b.get('check')
                        if mb.check is not None:
                            ckind = mb.check
                            kwargs['check'] = lambda v, ckind=ckind: input_check(ckind, v)
                        blk = edzed.Input(name, initdef=mb.init, **kwargs)
                    elif kind == 'counter':
                        mb.init = self.val(b['init'])
                        mb.mod = b.get('mod')
                        if not isinstance(mb.init, (int, float)) or (
                                mb.mod is not None and (not isinstance(mb.mod, int) or mb.mod <= 0)):
                            raise PlanError('bad counter parameters')
                        blk = edzed.Counter(name, initdef=mb.init, modulo=mb.mod, **kwargs)
                    else:
                        srcs = b.get('src') or []
                        if not srcs:
                            raise PlanError('func without sources')
                        for s in srcs:
                            if s not in spec or spec[s]['rank'] >= b['rank'] or spec[s]['kind'] == 'rec':
                                raise PlanError('bad source')
                        fn = b.get('fn')
                        if fn == 'tuple':
                            if b.get('unpack', True):
                                blk = edzed.FuncBlock(name, func=lambda *args: args, **kwargs)
                            else:
                                blk = edzed.FuncBlock(name, func=tuple, unpack=False, **kwargs)
                        elif fn in FUNCS and len(srcs) == 1:
                            blk = edzed.FuncBlock(name, func=FUNCS[fn], **kwargs)
                        elif fn == 'not' and len(srcs) == 1:
                            blk = edzed.Not(name, **kwargs)
                        else:
                            raise PlanError('bad func')
                        blk.connect(*[
                            s if b.get('srcbyname') or s not in created else created[s]
                            for s in srcs])
                except PlanError:
                    raise
                except ModelError as err:
                    raise PlanError(str(err)) from None
                except Exception as err:
                    raise PlanError(f"{kind}: {type(err).__name__}: {err}") from None
            created[name] = blk
            self.real[name] = blk
            self.model.add(mb)
            if kind == 'func':
                self.wrap_func(name, blk)
                self.src_changes[name] = 0
            elif kind != 'rec':
                self.wrap_sender(name, blk)
        self.senders = [(n, blk) for n, blk in self.real.items() if self.kind[n] != 'rec']
        self.funcs = [b['name'] for b in blocks if b['kind'] == 'func']
        self.func_srcs = {b['name']: list(b.get('src', [])) for b in blocks if b['kind'] == 'func'}

    # ---- probes ----
    def filter_probe(self, fid, func):
        log = self.log

        def probe(data):
            log.append(('F', fid))
            return func(data)
        probe.__name__ = f"filter_{fid}"
        return probe

    def rec_log(self, name, etype, data):
        # ... and what every sender's output is at this very moment
        self.log.append(('R', name, etype, data, {n: blk.output for n, blk in self.senders}))

    def stop_assign(self, blk):
        """Setter.stop(): one more assignment, while the simulation is being cleaned up."""
        name = blk.name
        if self.active is not None:
            self.fail('C02/harness/nested-stop', f"{name} stopped inside {self.active}")
            blk.set_output(blk.x_stopval)
            return
        self.begin('stop', name)
        try:
            blk.set_output(blk.x_stopval)
        finally:
            try:
                exp = self.model.stop_top(name)
            except ModelError as err:
                self.fail('C02/unexpected-assignment', f"{name}: {err}")
                exp = None
            self.end(exp, 'stop', name)

    def wrap_sender(self, name, blk):
        orig = blk.set_output

        def set_output(value):
            top = self.active is None
            if top:
                self.begin('init', name)
            self.log.append(('A', name, value))
            for fname, srcs in self.func_srcs.items():
                if name in srcs:
                    self.src_changes[fname] += 1
            try:
                orig(value)
            except BaseException as err:
                self.log.append(('X', name, clean(f"{type(err).__name__}: {err}")))
                if top:
                    self.finish_init(name)
                raise
            self.log.append(('Z', name))
            if top:
                self.finish_init(name)
        blk.set_output = set_output

    def finish_init(self, name):
        if self.phase not in ('init', 'pre'):
            self.fail('C02/unexpected-assignment',
                      f"{name}: output assigned outside any event, initialisation or evaluation "
                      f"(phase {self.phase})")
            self.end(None, 'init', name)
            return
        try:
            exp = self.model.init_top(name)
        except ModelError as err:
            self.fail('C02/unexpected-assignment', f"{name}: {err}")
            exp = None
        self.end(exp, 'init', name)

    def wrap_func(self, name, blk):
        orig_eval = blk.eval_block
        orig_calc = blk.calc_output

        def calc_output():
            value = orig_calc()
            self.computed[name] = value
            return value

        def eval_block():
            if self.active is not None:
                self.fail('C02/harness/nested-evaluation', f"{name} evaluated inside {self.active}")
                return orig_eval()
            before = blk.output
            self.computed.pop(name, None)
            self.begin('eval', name)
            try:
                changed = orig_eval()
            except BaseException as err:
                self.log.append(('X', name, clean(f"{type(err).__name__}: {err}")))
                self.end(None, 'eval', name)
                self.fail('C02/exception', f"evaluation of {name} raised {type(err).__name__}: {err}")
                raise
            self.finish_eval(name, blk, before, changed)
            return changed
        blk.calc_output = calc_output
        blk.eval_block = eval_block

    def finish_eval(self, name, blk, before, changed):
        run = self.run
        mb = self.model.blocks[name]
        if name not in self.computed:
            self.fail('C02/harness/no-calc_output', f"{name}: eval_block did not call calc_output")
            self.end(None, 'eval', name)
            return
        computed = self.computed[name]
        nsrc = self.src_changes[name]
        self.src_changes[name] = 0
        if not self.dead and before is not mb.out:
            self.fail('C02/cblock/chain',
                      f"{name}: output before the evaluation is {self.show(before)}, but the last "
                      f"reported value was {self.show(mb.out)}")
        exp, exp_changed = self.model.cblock_eval(name, computed)
        if not exp_changed:
            run.fired('reach:cblock_unchanged_eval')
        if nsrc >= 2 and self.phase == 'run':
            run.fired('reach:cblock_glitch_free_burst')
        self.end(exp, 'eval', name)
        if self.dead:
            return
        if bool(changed) != exp_changed:
            self.fail('C02/cblock/changed-flag',
                      f"{name}: evaluation {self.show(before)} -> {self.show(computed)} reported "
                      f"changed={changed}, expected {exp_changed}")
        elif blk.output is not mb.out:
            self.fail('C02/cblock/output-after-evaluation',
                      f"{name}: evaluation {self.show(before)} -> {self.show(computed)}: output is "
                      f"{self.show(blk.output)}, expected {self.show(mb.out)}")

    # ---- stimulus brackets ----
    def fail(self, sig, msg):
        if not self.dead:
            self.run.violate(sig, clean(msg))
        self.dead = True

    def stray(self, where):
        if len(self.log) != self.consumed:
            extra = self.log[self.consumed:]
            self.consumed = len(self.log)
            self.fail('C02/async-delivery',
                      f"{where}: {len(extra)} event action(s) happened outside any assignment, "
                      f"evaluation or external event: " + '; '.join(map(self.show_entry, extra[:4])))

    def begin(self, kind, name):
        self.stray(f"before {kind} {name}")
        self.active = (kind, name)
        self.start = len(self.log)

    def end(self, expected, kind, name):
        obs = self.log[self.start:]
        self.consumed = len(self.log)
        self.active = None
        run = self.run
        run.log(kind, name, [self.show_entry(e) for e in obs])
        shape = []
        nrec = 0
        for e in obs:
            if e[0] == 'R':
                nrec += 1
                shape.append('R' + self.kind.get(e[1], '?')[0])
            elif e[0] == 'A':
                shape.append('A' + self.kind.get(e[1], '?')[0])
            else:
                shape.append(e[0])
        if expected is not None:
            for e in expected:
                if e[0] == 'A' and not e[3]['changed']:
                    shape.append('u')
        run.beh(kind, self.kind.get(name, '?'), ''.join(shape))
        if self.phase in ('run', 'stop'):
            self.delivered_after_init += nrec
        if expected is None or self.dead:
            return
        self.compare(expected, obs, kind, name)
        if not self.dead:
            self.check_outputs(f"after {kind} {name}")

    def output_differs(self, name, expected, out):
        """None | 'mismatch' | 'retained' (equal, but not the object the model retains)."""
        if self.same(expected, out):
            return None
        if out is UNDEF or expected is UNDEF or bool(expected != out):
            return 'mismatch'
        mb = self.model.blocks[name]
        if mb.on_output or mb.on_every:
            # (identity of the retained object matters only to a block that sends events)
            return 'retained'
        return None

    def check_outputs(self, where):
        for name, blk in self.senders:
            kind = self.kind[name]
            mb = self.model.blocks[name]
            out = blk.output
            diff = self.output_differs(name, mb.out, out)
            if diff == 'mismatch':
                self.fail(f"C02/output-mismatch/{kind}",
                          f"{where}: output of {name} is {self.show(out)}, the events/assignments "
                          f"say {self.show(mb.out)}")
            elif diff == 'retained':
                self.fail(f"C02/retained-output/{kind}",
                          f"{where}: output of {name} is {self.show(out)}; the last change set "
                          f"{self.show(mb.out)} and later assignments compared equal")
            if self.dead:
                return

    # ---- comparison ----
    def compare(self, exp, obs, kind, name):
        """exp: model entries (with meta), obs: observed entries."""
        stack = [name] if kind == 'eval' else []
        last_changed = {name: True}
        where = f"{kind} {name}"
        n = max(len(exp), len(obs))
        for i in range(n):
            e = exp[i] if i < len(exp) else None
            o = obs[i] if i < len(obs) else None
            if e is not None and o is not None and e[0] == o[0] and e[1] == o[1]:
                if e[0] == 'A':
                    stack.append(e[1])
                    last_changed[e[1]] = e[3]['changed']
                    if not self.same(e[2], o[2]):
                        # (a sender fed by events: what it is assigned is what the events carried)
                        self.fail(f"C02/assigned-value/{self.kind[e[1]]}",
                                  f"{where}: {e[1]} was assigned {self.show(o[2])}, the events/"
                                  f"operations so far should have produced {self.show(e[2])}")
                        return
                elif e[0] == 'Z':
                    if stack:
                        stack.pop()
                elif e[0] == 'R':
                    if not self.compare_reception(e, o, where):
                        return
                continue
            # structural difference
            encl = stack[-1] if stack else name
            ekind = self.kind.get(encl, '?')
            if o is not None and o[0] == 'X':
                self.fail('C02/exception', f"{where}: {o[1]}: {o[2]}")
                return
            if e is not None and e[0] == 'A' and (o is None or o[0] != 'A'):
                what = 'changing' if e[3]['changed'] else 'unchanged (on_every_output is due)'
                self.fail(f"C02/missing-assignment/{self.kind[e[1]]}",
                          f"{where}: {e[1]} did not assign its output; expected "
                          f"{self.show_entry(e)} ({what}), observed "
                          f"{self.show_entry(o) if o else 'nothing'}")
                return
            rest_e = sorted(self.key(x) for x in exp[i:])
            rest_o = sorted(self.key(x) for x in obs[i:])
            if rest_e == rest_o:
                # same actions, different order
                site = 'configured-order'
                meta_e = self.meta(e) if e[0] in 'RF' else None
                meta_o = None
                for x in exp[i:]:
                    if self.key(x) == self.key(o) and x[0] in 'RF':
                        meta_o = self.meta(x)
                        break
                if (meta_e and meta_o and meta_e['src'] == meta_o['src']
                        and meta_e['list'] != meta_o['list']):
                    site = 'on_every_output-before-on_output'
                self.fail(f"C02/order/{site}",
                          f"{where}: at step {i} expected {self.show_entry(e)}, observed "
                          f"{self.show_entry(o)} (same actions, wrong order)")
                return
            if e is not None and o is not None and e[0] in 'RF' and o[0] in 'RF':
                # which of the two is out of place?
                if self.key(o) in [self.key(x) for x in exp[i + 1:]]:
                    o = None        # the expected action was skipped
                elif self.key(e) in [self.key(x) for x in obs[i + 1:]]:
                    e = None        # the observed action is extra
            if e is not None and e[0] in 'RF' and (o is None or o[0] in 'ZA'):
                meta = self.meta(e)
                what = 'changing' if meta['changed'] else 'unchanged'
                lst = {'o': 'on_output', 'e': 'on_every_output', 'f': 'forward'}[meta['list']]
                self.fail(f"C02/missing-event/{self.kind[meta['src']]}-{lst}",
                          f"{where}: {lst}[{meta['idx']}] of {meta['src']} ({what} assignment) was "
                          f"not sent/delivered before the assignment returned: expected "
                          f"{self.show_entry(e)}, observed {self.show_entry(o) if o else 'nothing'}")
                return
            if o is not None and o[0] in 'RF' and (e is None or e[0] in 'ZA'):
                what = 'changed' if last_changed.get(encl, True) else 'unchanged'
                self.fail(f"C02/spurious-event/{ekind}-{what}",
                          f"{where}: {self.show_entry(o)} although nothing more was due for "
                          f"{encl} ({what} assignment/evaluation); expected "
                          f"{self.show_entry(e) if e else 'nothing'}")
                return
            self.fail(f"C02/event-sequence/{ekind}",
                      f"{where}: at step {i} expected {self.show_entry(e) if e else 'nothing'}, "
                      f"observed {self.show_entry(o) if o else 'nothing'}")
            return

    @staticmethod
    def key(entry):
        return (entry[0], entry[1])

    @staticmethod
    def meta(entry):
        return entry[4] if entry[0] == 'R' else entry[2]

    def compare_reception(self, e, o, where):
        _r, dest, etype, data, meta, outs = e
        _r, _dest, oetype, odata, oouts = o
        src = meta['src'] if meta else '?'
        skind = self.kind.get(src, 'ext')
        lst = {'o': 'on_output', 'e': 'on_every_output', 'f': 'forward'}.get(
            meta['list'] if meta else None, 'ext')
        desc = f"{where}: {lst}[{meta['idx'] if meta else 0}] of {src} -> {dest}"
        if etype != oetype:
            self.fail('C02/etype', f"{desc}: delivered as {oetype!r}, expected {etype!r}")
            return False
        if set(data) != set(odata):
            self.fail('C02/data/keys',
                      f"{desc}: handler got keys {sorted(odata)}, the filters left {sorted(data)}")
            return False
        for key in ('source', 'trigger', 'previous', 'value'):
            if key not in data:
                continue
            if self.same(data[key], odata[key]):
                continue
            sig = f"C02/{key}"
            if key in ('previous', 'value'):
                sig += f"/{skind}"
                try:
                    equal = not bool(data[key] != odata[key])
                except Exception:   # pylint: disable=broad-except
                    equal = False
                if equal:
                    sig += '/identity'
            self.fail(sig, f"{desc}: {key} = {self.show(odata[key])}, expected "
                           f"{self.show(data[key])}; data {self.show(odata)}")
            return False
        for key in data:
            if not self.same(data[key], odata[key]):
                self.fail('C02/data', f"{desc}: item {key} = {self.show(odata[key])}, the filters "
                                      f"left {self.show(data[key])}")
                return False
        # the outputs of the senders while the handler runs (the sender of this event first)
        for name in sorted(outs, key=lambda n: n != src):
            diff = self.output_differs(name, outs[name], oouts.get(name, UNDEF))
            if diff is None:
                continue
            role = 'sender' if name == src else 'other'
            self.fail(f"C02/output-during-delivery/{role}-{self.kind[name]}"
                      + ('/identity' if diff == 'retained' else ''),
                      f"{desc}: while the handler runs the output of {name} is "
                      f"{self.show(oouts.get(name, UNDEF))}, expected {self.show(outs[name])}"
                      + (f" (= the delivered value)" if name == src and lst != 'forward' else ''))
            return False
        return True

    # ---- driver ----
    def do_op(self, op):
        run = self.run
        name = op.get('blk')
        kind = self.kind.get(name)
        if kind not in ('setter', 'input', 'counter') + FSM_KINDS:
            raise PlanError('op addressed to a non-sender')
        etype = op.get('ev')
        allowed = {'setter': SETTER_ETYPES, 'input': INPUT_ETYPES, 'counter': COUNTER_ETYPES,
                   'timer': TIMER_ETYPES, 'inputexp': INPUTEXP_ETYPES, 'gfsm': GFSM_ETYPES}[kind]
        if etype not in allowed:
            raise PlanError('bad op event')
        data = {}
        if kind == 'counter':
            if etype == 'put':
                data['value'] = self.val(op.get('v'))
                if not isinstance(data['value'], (int, float)):
                    raise PlanError('non-numeric counter value')
            elif 'amt' in op and etype in ('inc', 'dec'):
                if not isinstance(op['amt'], int):
                    raise PlanError('bad amount')
                data['amount'] = op['amt']
        elif kind in ('timer', 'gfsm'):
            pass
        else:
            data['value'] = self.val(op.get('v'))
        if self.active is not None:
            raise PlanError('driver op inside a stimulus')
        self.begin('ext', name)
        exc = None
        try:
            edzed.ExtEvent(self.real[name], etype).send(**data)
        except Exception as err:     # pylint: disable=broad-except
            exc = err
            self.log.append(('X', name, clean(f"{type(err).__name__}: {err}")))
        mdata = dict(data)
        try:
            exp = self.model.ext_event(name, etype, mdata)
        except ModelError as err:
            self.end(None, 'ext', name)
            raise PlanError(f"model: {err}") from None
        self.end(exp, 'ext', name)
        if exc is not None and not self.dead:
            self.fail('C02/exception', f"external event {etype} to {name} raised "
                                       f"{type(exc).__name__}: {exc}")

    def quiescent(self):
        if self.active is not None or self.phase not in ('run',):
            return
        self.stray('idle point')
        if not self.dead:
            self.check_outputs('idle point')


def execute(plan, trace=False):
    run = Run(plan['knobs'])
    try:
        har = Harness(run, plan)
        circuit = edzed.get_circuit()
        model = har.model
        run.loop.quiescence_hook = har.quiescent
        ops = plan.get('ops') or []
        pre_ops = plan.get('pre_ops') or []

        async def main():
            simtask = asyncio.create_task(circuit.run_forever())
            har.phase = 'init'
            if pre_ops:
                await asyncio.sleep(0)
                if circuit.is_ready():
                    har.phase = 'pre'
                    for op in pre_ops:
                        if circuit.is_ready():
                            har.do_op(op)
                    har.phase = 'init'
            init_err = None
            try:
                await circuit.wait_init()
            except edzed.EdzedInvalidState as err:
                init_err = err
            har.stray('after the initialisation')
            har.phase = 'run'
            if init_err is not None:
                # (legal when an initial value asked the control block to stop the simulation)
                if model.stop_requested is None:
                    har.fail('C02/unexpected-abort', f"start-up failed: {init_err}")
            else:
                for name, mb in model.blocks.items():
                    if mb.kind not in ('func', 'rec', 'ctrl') and not mb.inited:
                        har.fail('C02/harness/not-initialised',
                                 f"{name}: no initial assignment was observed")
                if not har.dead:
                    har.check_outputs('after the initialisation')
            noyield = 0
            for op in ops:
                if not circuit.is_ready():
                    break
                if noyield and har.funcs:
                    # second or later external event of a burst the simulator task has not seen
                    run.fired('reach:burst_without_yield')
                har.do_op(op)
                y = op.get('y', 1)
                if y == 0:
                    noyield += 1
                else:
                    noyield = 0
                    if y == 1:
                        await asyncio.sleep(0)
                    else:
                        await asyncio.sleep(0.01)
            await asyncio.sleep(0.01)
            har.stray('end of the run')
            if not har.dead:
                har.check_outputs('end of the run')
            err = None
            if not circuit.is_ready() and init_err is None:
                err = circuit.error
            har.phase = 'stop'
            try:
                await circuit.shutdown()
            except Exception as exc:    # pylint: disable=broad-except
                err = err or exc
            if err is not None and init_err is None and model.stop_requested is None:
                har.fail('C02/unexpected-abort',
                         f"simulation ended with {type(err).__name__}: {err}")
            har.stray('after the stop')
            if not har.dead:
                har.check_outputs('after the stop')
            run.log("stopped", clean(err) if err else None)
            return simtask

        run.run(main())
        if run.main_exc is not None and run.harness_error is None:
            if isinstance(run.main_exc, PlanError):
                raise run.main_exc
            run.harness_error = f"MAIN-EXC: {type(run.main_exc).__name__}: {run.main_exc}"
        for key, n in model.stats.items():
            if key != 'delivered':
                run.fired('reach:' + key, n)
        res = run.result()
        st = model.stats
        if har.delivered_after_init < 2 or not (st['unchanged'] or st['veto']
                                                or st['every_unchanged_event']):
            res['behaviour'] = None
        if trace:
            res['trace'] = run.trace
        return res
    finally:
        run.close()
