"""
C11 - a block never handles two events at the same time.

Real code: edzed.SBlock.event (guard, EventCond, early initialisation by an event),
Event.send with filters, ExtEvent.send, FSM chained transitions / zero-length timers, Input,
Counter, Repeat, OutputFunc, generated FSMs (fsmlib) and forwarding probe blocks - wired into
random directed event graphs and driven by external events on the virtual loop.

Three oracles
 (a) runtime monitor: a pass-through wrapper around every block's event() (instance attribute,
     fsmlib.hook_events) keeps its own per-block depth and the stack of open deliveries.
     A delivery to a block that is inside event() and is not a documented window (the block
     itself calls its own event(): FSM entry action / zero-length timer / init_from_value
     during the early initialisation by an event; recognised structurally: no other block's
     event() in between, no 'source' item, which Event.send always adds, and the callback of
     the block that is running - the FSM builder here keeps a stack of them - is not an exit
     action or a condition function) must raise the
     "Forbidden recursive event() call" EdzedCircuitError *in that innermost frame* (the same
     exception object then travels through every caller's event(), which is not a refusal by
     them) and the simulation must stop with an EdzedCircuitError. A delivery to an idle block,
     or inside a documented window, must never raise it.
 (b) predictive model (models/eventflow_model.py, values matter): verdict of every external
     event (ok / unknown / param / recursion / abort), whether the simulation goes on, and
     the outputs (FSM states, probe counters) of all blocks afterwards. Start-up is predicted
     too, but only counted (`init_model_mismatch`): the order in which blocks are initialised
     is not documented; the model is re-synchronised after start-up.
 (c) after every external event that did not stop the simulation a test event is delivered
     to EVERY block (probe: 'nop', others: an unknown type, which is reported only after the
     guard was passed) and must not be refused; 'ok', 'unknown', 'param' verdicts (filter
     veto, EventCond -> None, unknown type, missing parameter, early returns) must leave the
     simulation running; when the simulation has ended no block may be left marked
     (`_event_active`, `_fsm_event_active`: observation only).

Interpretation (DESIGN.md 3.3, docs/errors.rst "Recursive events"): the early initialisation
of a block inside event() is part of handling that event; the only thing permitted there is
the block's *own* initialising event. `STRICT_EARLY_INIT = False` would instead treat the
whole early initialisation as a window.

Finding on the pinned tree (signature C11/not-refused/early-init, known/C11-*.json): while a
block is initialised early inside event() (`with self._enable_event: init_sblock(...)`) the
guard is open for everybody: an output event sent by init_regular()/Counter.init_from_value()
that comes back through other blocks is handled by the block *inside* the pending event
(and before it); a forbidden loop is then detected one round later or, when the values have
settled, not at all (start-up succeeds). Candidate repair: /tmp/C11/fix-early-init-window.diff
(close the guard while a block that is inside event() sends its output events); with it the
check is clean and the start-up model never disagrees.

Mutants (scratch copy with the candidate repair, 20 000 runs each = 1/3 of the quick tier;
"(n)" = violation reports with that signature):
  DESIGN  guard reset only on the success path ............ caught: guard-left-set (43495),
          refused-while-idle (30629), locked-after-event, recursion-error-without-refusal
  DESIGN  EventCond `return None` before the try ........... caught: refused-while-idle (1807),
          guard-left-set (1718), locked-after-event (761)
  DESIGN  _enable_event.__exit__ sets False ................ caught: not-refused/handler (162)
  DESIGN  FSM accepts two chained requests ................. caught: model/verdict (9)
  own     guard checked after EventCond resolution (a recursive event that resolves to
          "no event" is dropped silently) .................. caught: not-refused/handler (427)
  own     Repeat passes the original event on asynchronously caught: model/outputs (777),
          model/verdict (496), stopped-without-cause (101)
  own     FSM transition lock released on success only (needs: unknown event reported through
          an FSM in transition, then another event to it) .. caught: guard-left-set (1419),
          model/verdict (13)
  own     guard allows one nested level .................... caught: not-refused/handler (9589)
  own     a refusal does not abort (EdzedCircuitError re-raised like EdzedUnknownEvent)
          .................................................. caught: refusal-did-not-stop (9635)
  own     guard opened while on_every_output events are sent caught: not-refused (5464),
          unbounded-nesting (253) (the nesting watchdog keeps the run deterministic)
  own     guard stored in the class (shared by all blocks of a type) caught: not-refused (42091)
  own     FSM sends on_notrans with the guard open ......... caught: not-refused/handler (872)
  own     missing-parameter path leaves the guard set (needs: external event without 'value',
          then any event to the same block) ................ caught: locked-after-event (567),
          refused-while-idle (568), guard-left-set (851)
  own     _enable_event never opens the window ............. caught: window-refused (5151)
  own     guard per event type ............................. caught: not-refused/handler (4213)
  own     early initialisation leaves the guard open for the rest of the event
          .................................................. caught: not-refused/handler (86)
None missed. (Whether they pass edzed's own 249 tests was not established, except for the
candidate repair, which does.)

Seeded change C11-s2 (FSM guard open during the exit action of an intermediate state of a
chained transition) was missed by the first version, whose FSM callbacks never sent events.
Now exit actions (preferably of states that an entry action or a zero-length timer leaves at
once) and condition functions send events: directly to their own FSM, through Event.send, and
to other blocks (preferably ones with an event addressed back to the FSM). Model and monitor
demand a refusal for everything that comes back. Quick tier on the seeded tree:
not-refused/exit-action (975 reports), model/verdict (134); 15 000 runs with other seeds: 231/195.

Seeded change C11-s7 (the simulator swallows its own cancellation while it waits for
init_async tasks: a refusal during the asynchronous initialisation stops the simulation only
after the remaining init tasks / time-outs) was missed while every event came after the
start-up. Now 20 % of the runs have 2-3 InitAsync blocks with slow scripted init coroutines
(different durations, some timing out) and deliver their first external event(s) while the
simulator waits for them (the destinations are then initialised early by the external event;
the model does the same; no follow-up events in that phase, they follow after the start-up).
And after EVERY legitimate refusal (start-up, async-init window, normal operation, Repeat
tick) the simulation task must have ended within STOP_BOUND = 0.25 virtual seconds
(signature refusal-did-not-stop/still-running). An unknown event type or missing parameter
met by an initialisation routine that runs early because of a pending event is a fatal
initialisation error (verdict 'abort'), as for any other initialisation error.

Seeded changes C11-s11 (save_persistent_state() lets get_state() of a still uninitialised
block escape after a conditional event that resolved to 'no event') and C11-s12 (DataEdit
goes on with the next step after a rejecting modify()) broke "a filter rejection / a
conditional event resolving to 'no event' never stops the simulation" in configurations the
generator did not have. Now half of the runs have a persistent storage (SimStorage) with 60 %
of the Input/Counter/FSM blocks persistent; 12 % of the value carrying edges get one DataEdit
filter of 2-3 chained steps (modify() rejecting / deleting by value, add, setdefault) with the
rejecting step mostly not last; and a start-up that fails although the model sees nothing
that could stop it (no refusal, no error, every block initialised) is a violation
(stopped-without-cause/start-up; this direction never disagreed in > 5 M runs; the other
disagreements stay counted only).

Corrections made while building (false alarms of the harness, not of edzed):
  - a mutant with unbounded event recursion ended in Python's RecursionError at a process
    dependent depth (non-deterministic digests): nesting watchdog at 40 open deliveries.
"""

from __future__ import annotations

import asyncio
import collections
import copy

from simkit import seams
from simkit.runner import Run, PlanError, canon, gen_knobs
from simkit.storage import SimStorage
from models import eventflow_model as efm
from checks import fsmlib

edzed = seams.install()

PROP = 'C11'
LEVEL = 'exploration'
RUNS = {'quick': 60000, 'thorough': 1500000}
CHUNK = 500
RULE = ("one run = 2-6 blocks (forwarding probes, Input, Counter, generated FSM with "
        "on_enter/on_exit/on_notrans, chaining entry actions / zero-length timers and - in half "
        "of them - exit actions / condition functions that send events to the FSM itself or "
        "to other blocks, Repeat, "
        "OutputFunc with on_success/on_error) wired by a random directed event graph (dag / ring "
        "/ diamond / free incl. self-loops) with filters (veto, value dependent, edit, chained "
        "DataEdit steps with rejecting modify) and "
        "EventCond (incl. None branches) on the edges, started, then driven by 1-4 external "
        "events (valid, unknown type, missing parameter; in 20 % of the runs the first ones "
        "arrive while the simulator waits for 2-3 slow init_async tasks), each followed by a "
        "guard test event "
        "to every block; non-trivial = at least one external event caused a block-to-block "
        "delivery or a refusal; distinct = hash of (block kinds, per external event: verdict, "
        "kinds and outcome of the deliveries it caused), values removed")
REACH_EXPECTED = [
    'refused_ext', 'refused_init', 'refused_self_loop', 'refused_long_cycle',
    'window_own_event', 'fsm_chained_request', 'fsm_zero_timer', 'early_init_by_event',
    'init_by_own_event_in_window', 'init_time_delivery',
    'filter_veto', 'cond_none', 'cond_resolved', 'ext_unknown', 'ext_param', 'nested_unknown',
    'nested_param_abort', 'handler_error_abort', 'early_return', 'unchanged_no_event',
    'diamond', 'via_repeat', 'via_ofunc', 'followup_all_ok', 'second_event_after_failure',
    'repeat_tick_delivery', 'refused_tick',
    'dataedit_reject_nonfinal', 'cond_none_uninitialised_persistent',
    'async_init_window_event', 'refused_in_async_init', 'stopped_promptly',
    'exit_action_sends', 'exit_action_intermediate_sends', 'cond_function_sends',
    'refused_from_exit_action', 'refused_from_intermediate_exit', 'refused_from_cond_function',
]
ASSUMPTIONS = [
    "entry actions of the generated FSMs only request chained transitions from their own FSM "
    "(the documented exception) and never call other blocks; exit actions and condition "
    "functions DO send events (to their own FSM directly, via Event.send, and to other blocks "
    "that may relay them back) - none of that is a documented exception. The windows are "
    "recognised structurally: the delivery comes directly from the block itself (no other "
    "block's event() in between, no 'source' item added by Event.send) and the block's running "
    "callback, if any, is an entry action",
    "blocks are initialised in creation order, output events are sent in definition order, "
    "on_output before on_every_output (used by the predictive model only; a start-up whose "
    "outcome differs from the model is counted, not reported, and the model is re-synchronised)",
    "no virtual time passes while external events are delivered (Repeat interval 1 h): the "
    "model covers the synchronous pass-through of a Repeat; in 40 % of the runs with a Repeat "
    "two repetitions are let through afterwards, judged by the monitor and the follow-up "
    "events only; Repeat -> Repeat destination chains are acyclic",
    "in half of the runs a persistent storage is configured and most Input/Counter/FSM blocks "
    "are persistent (state saved after every event); the storage starts empty",
    "OutputFunc is used with f_args=() (its documented precondition: the put data contain all "
    "listed keys)",
]

# False = the whole early initialisation of a block inside event() counts as a documented
# window (deliveries from other blocks are then neither required nor forbidden to be refused)
STRICT_EARLY_INIT = True


# --------------------------------------------------------------------------- generation

VALUES = [0, 1, 2, 3]
KIND_LETTER = {'probe': 'p', 'input': 'i', 'counter': 'c', 'fsm': 'f', 'repeat': 'r',
               'ofunc': 'o'}


def _gen_block(rng, idx):
    r = rng.random()
    if r < 0.28:
        return {'kind': 'probe', 'name': f"p{idx}",
                'mode': rng.choice(['count', 'count', 'same', None]), 'out': {}}
    if r < 0.48:
        b = {'kind': 'input', 'name': f"i{idx}", 'out': {}}
        if rng.random() < 0.9:
            b['initdef'] = rng.choice(VALUES)
        if rng.random() < 0.25:
            allowed = sorted(set(rng.sample(VALUES, 2)) | ({b['initdef']} if 'initdef' in b else set()))
            b['allowed'] = allowed
        return b
    if r < 0.62:
        b = {'kind': 'counter', 'name': f"c{idx}", 'out': {}}
        if rng.random() < 0.5:
            b['modulo'] = rng.choice([2, 3, 5])
        if rng.random() < 0.3:
            b['initdef'] = rng.choice([1, 2])
        return b
    if r < 0.84:
        spec, inst = fsmlib.gen_spec(rng, idx, timers=rng.random() < 0.5, max_states=3,
                                     max_events=2)
        for tm in spec['timers'].values():
            tm['dur'] = rng.choice([0, 0.0, 'inf', 'inf', -1.0])
        inst['t'] = {s: rng.choice([0, 'inf']) for s in inst['t'] if s in spec['timers']}
        inst['undef_in'] = []
        for reqs in inst['chain'].values():
            for req in reqs:
                if 'duration' in req['data']:
                    req['data']['duration'] = rng.choice([0, 'inf'])
        return {'kind': 'fsm', 'name': f"f{idx}", 'spec': spec, 'inst': inst, 'out': {}}
    if r < 0.92:
        return {'kind': 'repeat', 'name': f"r{idx}", 'dest': None, 'etype': None,
                'count': rng.choice([0, None, 2]), 'out': {}}
    return {'kind': 'ofunc', 'name': f"o{idx}",
            'script': [rng.choice([0, 1, 2, 'E']) for _ in range(rng.randint(1, 3))], 'out': {}}


def _fsm_states(b):
    return list(b['spec']['states']) + [s for s in b['spec']['timers']
                                        if s not in b['spec']['states']]


def _fsm_events(b):
    return sorted({r[0] for r in b['spec']['rules']})


def _triggers(b, quiet):
    """Triggers of a block; quiet = prefer those that do not fire during start-up."""
    k = b['kind']
    if k == 'probe':
        t = ['fwd', 'fwd', 'fwd']
        if b['mode'] == 'count':
            t += ['on_output', 'on_every_output']
        elif b['mode'] == 'same':
            t += ['on_every_output']
        return t
    if k in ('input', 'counter'):
        return ['on_output', 'on_output', 'on_every_output']
    if k == 'fsm':
        states = _fsm_states(b)
        init = b['inst'].get('initdef') or states[0]
        t = ['on_notrans', 'on_output', 'on_every_output']
        for s in states:
            t.append(f"on_exit:{s}")
            if not quiet or s != init:
                t.append(f"on_enter:{s}")
        return t
    if k == 'repeat':
        return ['on_every_output']
    return ['on_success', 'on_success', 'on_error'] + ([] if quiet else ['on_output'])


def _has_value(trigger):
    return trigger not in ('on_notrans', 'on_error')


def _gen_ev(rng, dst, p_unknown):
    k = dst['kind']
    if k == 'probe':
        ev = 'nop' if rng.random() < 0.08 else 'ping'
    elif k == 'input':
        ev = 'put'
    elif k == 'counter':
        ev = rng.choice(['inc', 'inc', 'dec', 'reset', 'put'])
    elif k == 'fsm':
        ev = rng.choice(_fsm_events(dst)) if rng.random() < 0.8 else \
            {'goto': rng.choice(_fsm_states(dst))}
    elif k == 'repeat':
        ev = dst['etype'] if rng.random() < 0.9 else 'other'
    else:
        ev = 'put'
    if k not in ('probe', 'repeat') and rng.random() < p_unknown:
        ev = 'bogus'
    return ev


def _gen_edge(rng, blocks, src, dst, trigger, p_unknown, quiet):
    ev = _gen_ev(rng, dst, p_unknown)
    if rng.random() < 0.16:
        other = _gen_ev(rng, dst, 0.0) if rng.random() < 0.5 else None
        pair = [ev, other]
        if rng.random() < 0.5:
            pair.reverse()
        if rng.random() < 0.1:
            pair[rng.randrange(2)] = {'cond': [pair[0], None]}
        ev = {'cond': pair}
    filters = []
    needs_value = dst['kind'] in ('input',) or ev == 'put'
    if needs_value and not _has_value(trigger) and rng.random() < 0.9:
        filters.append({'set': rng.choice(VALUES)})
    if quiet and trigger == 'on_output' and rng.random() < 0.7:
        filters.append('nfu')
    r = rng.random()
    if r < 0.07:
        filters.append('veto')
    elif r < 0.16:
        filters.append('truthy')
    elif r < 0.24:
        filters.append({'set': rng.choice(VALUES)})
    elif r < 0.28:
        filters.append({'setdef': rng.choice(VALUES)})
    elif r < 0.31:
        filters.append('del')
    elif r < 0.36:
        filters.append('pass')
    elif r < 0.42 and trigger in ('on_output', 'on_every_output'):
        filters.append('nfu')
    if len(filters) > 1 and rng.random() < 0.3:
        rng.shuffle(filters)
    if _has_value(trigger) and rng.random() < 0.12:
        # one DataEdit filter with 2-3 chained steps; a rejecting modify() is mostly NOT the
        # last step. It comes first: modify() needs the 'value' item.
        steps = []
        for _ in range(rng.choice([2, 2, 3])):
            r = rng.random()
            if r < 0.3:
                steps.append(['rej_eq', rng.choice(VALUES)])
            elif r < 0.45:
                steps.append(['rej_falsy'])
            elif r < 0.6:
                steps.append(['add', rng.choice(VALUES)])
            elif r < 0.8:
                steps.append(['setdef', rng.choice(VALUES)])
            else:
                steps.append(['del_eq', rng.choice(VALUES)])
        if not any(st[0].startswith('rej') for st in steps[:-1]) and rng.random() < 0.7:
            steps[0] = rng.choice([['rej_eq', rng.choice(VALUES)], ['rej_falsy']])
        # (a modify step after a deleting step would be used against its documentation)
        seen_del = False
        clean = []
        for st in steps:
            if seen_del and st[0] in ('rej_eq', 'rej_falsy', 'del_eq'):
                st = ['setdef', rng.choice(VALUES)]
            if st[0] == 'del_eq':
                seen_del = True
            elif st[0] in ('add', 'setdef'):
                seen_del = False
            clean.append(st)
        filters.insert(0, {'edit': clean})
    return {'dst': dst['name'], 'ev': ev, 'filters': filters}


def _add_edge(rng, blocks, si, di, p_unknown, quiet):
    src, dst = blocks[si], blocks[di]
    if src['kind'] == 'repeat' and dst['kind'] == 'repeat' and src['dest'] is None \
            and dst['dest'] is None:
        return False        # the destination Repeat's event type is not known yet
    if src['kind'] == 'repeat' and src['dest'] is None:
        # the mandatory destination of a Repeat
        ev = _gen_ev(rng, dst, p_unknown)
        src['dest'] = dst['name']
        src['etype'] = ev
        return True
    trigger = rng.choice(_triggers(src, quiet))
    edge = _gen_edge(rng, blocks, src, dst, trigger, p_unknown, quiet)
    src['out'].setdefault(trigger, []).append(edge)
    return True


def _gen_circuit(rng, tier):
    n = rng.choice([2, 2, 3, 3, 3, 4, 4, 5, 6])
    blocks = [_gen_block(rng, i) for i in range(n)]
    # a Repeat needs a non-Repeat destination to exist
    if all(b['kind'] == 'repeat' for b in blocks):
        blocks[0] = {'kind': 'probe', 'name': 'p0', 'mode': 'count', 'out': {}}
    p_unknown = rng.choice([0.0, 0.0, 0.03, 0.1])
    shape = rng.choice(['dag', 'ring', 'ring', 'diamond', 'free', 'free'])
    quiet = rng.random() < 0.8
    # Repeat destinations first (their etype is needed by edges pointing to them)
    for i, b in enumerate(blocks):
        if b['kind'] == 'repeat':
            cands = [j for j in range(n) if blocks[j]['kind'] != 'repeat'
                     and (shape != 'dag' or j > i)]
            if not cands:
                cands = [j for j in range(n) if blocks[j]['kind'] != 'repeat']
            done = [j for j in range(i) if blocks[j]['kind'] == 'repeat'
                    and blocks[j]['dest'] is not None]
            if done and rng.random() < 0.3:
                cands = done        # Repeat -> Repeat chain (acyclic: earlier ones only)
            _add_edge(rng, blocks, i, rng.choice(cands), p_unknown, quiet)
    pairs = []
    if shape == 'dag':
        for _ in range(rng.randint(1, 2 * n)):
            i, j = sorted(rng.sample(range(n), 2))
            pairs.append((i, j))
    elif shape == 'ring':
        k = rng.randint(1, n)
        ring = rng.sample(range(n), k)
        for a in range(k):
            pairs.append((ring[a], ring[(a + 1) % k]))
        for _ in range(rng.randint(0, n)):
            pairs.append((rng.randrange(n), rng.randrange(n)))
    elif shape == 'diamond':
        if n >= 4:
            a, b, c, d = rng.sample(range(n), 4)
            pairs += [(a, b), (a, c), (b, d), (c, d)]
        else:
            a, b = rng.sample(range(n), 2)
            pairs += [(a, b), (a, b)]
        if rng.random() < 0.4:
            pairs.append((pairs[-1][1], pairs[0][0]))
        for _ in range(rng.randint(0, 2)):
            pairs.append((rng.randrange(n), rng.randrange(n)))
    else:
        for _ in range(rng.randint(1, 2 * n + 1)):
            pairs.append((rng.randrange(n), rng.randrange(n)))
    for i, j in pairs:
        _add_edge(rng, blocks, i, j, p_unknown, quiet)
    for b in blocks:
        if b['kind'] == 'fsm' and rng.random() < 0.55:
            _gen_actions(rng, blocks, b)
    return {'blocks': blocks, 'shape': shape}


def _feeders(blocks, name):
    """Blocks with an event addressed to the block 'name'."""
    out = []
    for b in blocks:
        if b['name'] == name:
            continue
        if b['kind'] == 'repeat' and b.get('dest') == name:
            out.append(b)
        elif any(e['dst'] == name for edges in b['out'].values() for e in edges):
            out.append(b)
    return out


def _gen_action(rng, blocks, fsm):
    """One event sent by an exit action or a condition function of an FSM."""
    r = rng.random()
    others = [b for b in blocks if b['name'] != fsm['name']]
    if r < 0.35 or not others:
        dst, how = fsm, ('call' if rng.random() < 0.75 else 'send')
    else:
        feeders = _feeders(blocks, fsm['name'])
        dst = rng.choice(feeders) if feeders and rng.random() < 0.65 else rng.choice(others)
        how = rng.choice(['call', 'send'])
    ev = _gen_ev(rng, dst, 0.0)
    if rng.random() < 0.1:
        ev = {'cond': [ev, None] if rng.random() < 0.5 else [None, ev]}
    return {'to': dst['name'], 'how': how, 'ev': ev, 'data': {'value': rng.choice(VALUES)}}


def _gen_actions(rng, blocks, fsm):
    """
    Exit actions and condition functions that send events (to the FSM itself directly, or to
    other blocks that may relay them back). Exit actions are preferred on states that an
    entry action leaves at once (intermediate states of chained transitions).
    """
    spec, inst = fsm['spec'], fsm['inst']
    acts = {}

    def attach(cbname):
        where = rng.choice(['m:', 'i:'])
        acts[where + cbname] = [_gen_action(rng, blocks, fsm)
                                for _ in range(1 if rng.random() < 0.85 else 2)]
        lst = spec['methods'] if where == 'm:' else inst['funcs']
        if cbname not in lst:
            lst.append(cbname)

    timers = spec.get('timers', {})
    for s in _fsm_states(fsm):
        chained = bool(inst['chain'].get(s)) and f"enter_{s}" in spec['methods']
        zero = s in timers and (inst['t'].get(s, timers[s]['dur']) not in ('inf',))
        if rng.random() < (0.5 if chained or zero else 0.12):
            attach(f"exit_{s}")
    for e in _fsm_events(fsm):
        if rng.random() < 0.1:
            attach(f"cond_{e}")
    if acts:
        inst['acts'] = acts


def _gen_ext(rng, blocks):
    ops = []
    senders = [b for b in blocks if b['out'] or b['kind'] == 'repeat'] or blocks
    last = None
    for _ in range(rng.choice([1, 2, 2, 3, 3, 4])):
        if last is not None and rng.random() < 0.35:
            b = last
        else:
            b = rng.choice(senders if rng.random() < 0.75 else blocks)
        last = b
        k = b['kind']
        data = {}
        if k == 'probe':
            ev = 'nop' if rng.random() < 0.08 else 'ping'
            if rng.random() < 0.6:
                data['value'] = rng.choice(VALUES)
        elif k == 'input':
            ev = 'put'
            data['value'] = rng.choice(VALUES)
        elif k == 'counter':
            ev = rng.choice(['inc', 'inc', 'dec', 'reset', 'put'])
            if ev == 'put':
                data['value'] = rng.choice(VALUES)
        elif k == 'fsm':
            ev = rng.choice(_fsm_events(b))
            if rng.random() < 0.1:
                data['ok'] = False
            if rng.random() < 0.1:
                data['duration'] = rng.choice([0, 'inf'])
            if rng.random() < 0.3:
                data['value'] = rng.choice(VALUES)
        elif k == 'repeat':
            ev = b['etype'] if isinstance(b['etype'], str) and rng.random() < 0.85 else 'other'
            if rng.random() < 0.7:
                data['value'] = rng.choice(VALUES)
        else:
            ev = 'put'
            data['value'] = rng.choice(VALUES)
        r = rng.random()
        if r < 0.07:
            ev = 'bogus'
        elif r < 0.14 and ev == 'put' and k in ('input', 'counter'):
            data.pop('value', None)
        ops.append({'blk': b['name'], 'ev': ev, 'data': data, 'yield': rng.random() < 0.4})
    return ops


def gen(rng, tier, index=0):
    knobs = gen_knobs(rng, latency=False, cost=True, ties=False)
    circ = None
    for _attempt in range(12):
        circ = _gen_circuit(rng, tier)
        try:
            model = efm.FlowModel(circ['blocks'])
            res = model.initialise()
        except RecursionError:
            continue
        if res['verdict'] == 'ok':
            break
        # start-up failures are kept rare, but not excluded
        if rng.random() < (0.06 if res['verdict'] == 'recursion' else 0.03):
            break
    ext = _gen_ext(rng, circ['blocks'])
    # let the Repeat blocks repeat (twice) after the external events: roots that are no event
    tick = any(b['kind'] == 'repeat' and b['count'] != 0 for b in circ['blocks']) \
        and rng.random() < 0.4
    plan = {'knobs': knobs, 'blocks': circ['blocks'], 'shape': circ['shape'], 'ext': ext,
            'tick': tick}
    if rng.random() < 0.5:
        # persistent state: the blocks that support it save their state after every event
        plan['storage'] = True
        for b in circ['blocks']:
            if b['kind'] in ('input', 'counter', 'fsm') and rng.random() < 0.6:
                b['persistent'] = True
    if rng.random() < 0.2:
        # the first external event(s) arrive while the simulator still waits for 2-3 blocks
        # with a slow asynchronous initialisation (different durations, some time out)
        durs = rng.sample([1.0, 1.5, 2.0, 3.5, 6.0], rng.choice([2, 2, 3]))
        slow = [[d, rng.choice([d + 1.0, d + 1.0, 20.0, max(0.6, d - 0.5)])] for d in durs]
        plan['ainit'] = {'slow': slow, 'at': rng.choice([0.05, 0.2, 0.45]),
                         'n_ext': rng.randint(1, len(ext))}
    return plan


# --------------------------------------------------------------------------- real circuit

class Probe(edzed.SBlock):
    """Accepts every event, counts, optionally sets its output, forwards to x_fwd."""

    def init_regular(self):
        self.set_output(0)

    def _event(self, etype, data):
        if etype == 'nop':
            return 'nop'
        self.x_st['n'] += 1
        n = self.x_st['n']
        value = data['value'] if 'value' in data else n
        if self.x_mode == 'count':
            self.set_output(n)
        elif self.x_mode == 'same':
            self.set_output(0)
        for event in self.x_fwd:
            event.send(self, trigger='fwd', value=value)
        return 'rec'


def _f_truthy(data):
    return bool(data.get('value'))


def _f_veto(_data):
    return False


def _f_pass(_data):
    return True


def mk_filter(f):
    if f == 'veto':
        return _f_veto
    if f == 'pass':
        return _f_pass
    if f == 'truthy':
        return _f_truthy
    if f == 'nfu':
        return edzed.not_from_undef
    if f == 'del':
        return edzed.DataEdit.delete('value')
    if isinstance(f, dict) and 'set' in f:
        return edzed.DataEdit.add(value=f['set'])
    if isinstance(f, dict) and 'setdef' in f:
        return edzed.DataEdit.setdefault(value=f['setdef'])
    if isinstance(f, dict) and isinstance(f.get('edit'), list) and f['edit']:
        edit = edzed.DataEdit      # the first step is a class method call, the others chain
        for step in f['edit']:
            if not isinstance(step, list) or not step:
                raise PlanError('bad edit step')
            op = step[0]
            if op == 'rej_falsy':
                edit = edit.modify('value', lambda v: v if v else edzed.DataEdit.REJECT)
            elif op == 'rej_eq' and len(step) == 2:
                edit = edit.modify(
                    'value', lambda v, _k=step[1]: edzed.DataEdit.REJECT if v == _k else v)
            elif op == 'del_eq' and len(step) == 2:
                edit = edit.modify(
                    'value', lambda v, _k=step[1]: edzed.DataEdit.DELETE if v == _k else v)
            elif op == 'add' and len(step) == 2:
                edit = edit.add(value=step[1])
            elif op == 'setdef' and len(step) == 2:
                edit = edit.setdefault(value=step[1])
            elif op == 'del':
                edit = edit.delete('value')
            else:
                raise PlanError(f"unknown edit step {step!r}")
        return edit
    raise PlanError(f"unknown filter {f!r}")


def mk_etype(ev, depth=0):
    if ev is None and depth:
        return None
    if isinstance(ev, str) and ev:
        return ev
    if isinstance(ev, dict) and 'goto' in ev:
        return edzed.Goto(ev['goto'])
    if isinstance(ev, dict) and 'cond' in ev and depth < 4:
        pair = ev['cond']
        if not isinstance(pair, list) or len(pair) != 2:
            raise PlanError('bad EventCond')
        return edzed.EventCond(mk_etype(pair[0], depth + 1), mk_etype(pair[1], depth + 1))
    raise PlanError(f"bad event type {ev!r}")


def mk_events(edges, names):
    out = []
    for e in edges:
        if not isinstance(e, dict) or e.get('dst') not in names:
            raise PlanError('edge to a missing block')
        try:
            out.append(edzed.Event(e['dst'], mk_etype(e['ev']),
                                   efilter=[mk_filter(f) for f in e.get('filters', [])]))
        except PlanError:
            raise
        except Exception as err:
            raise PlanError(f"Event: {err}") from None
    return out


def build_fsm(b, name, kw, ctx, names):
    """
    The real FSM subclass and instance for one generated FSM (after fsmlib.build_class /
    build_instance; not shared because the callbacks here also SEND events).
    ctx['actx'] is the stack of running callbacks [(block name, kind, open deliveries)]:
    the monitor needs it to tell the entry action (documented exception) from exit actions
    and condition functions (no exception).
    """
    spec, inst = b['spec'], b['inst']
    if inst.get('undef_in'):
        raise PlanError('undef_in not supported here')
    fed = edzed.fsm_event_data
    acts = inst.get('acts', {})
    if not isinstance(acts, dict):
        raise PlanError('bad acts')
    holder = {}
    prepared = {}
    for key, todo in acts.items():
        items = []
        for act in todo:
            if not isinstance(act, dict) or act.get('to') not in names:
                raise PlanError('action addressed to a missing block')
            etype = mk_etype(act['ev'])
            data = fsmlib.real_data(act.get('data', {}))
            if act.get('how') == 'send':
                try:
                    items.append(('send', edzed.Event(act['to'], etype), data))
                except Exception as err:
                    raise PlanError(f"Event: {err}") from None
            else:
                items.append(('call', act['to'], etype, data))
        prepared[key] = items

    def run_acts(blk, key, kind):
        todo = prepared.get(key)
        if not todo:
            return
        ctx['actx'].append((blk.name, kind, len(ctx['stack'])))
        try:
            for item in todo:
                if item[0] == 'send':
                    item[1].send(blk, **item[2])
                else:
                    ctx['real'][item[1]][1].event(item[2], **item[3])
        finally:
            ctx['actx'].pop()

    def mk_enter(sname):
        def method(self):
            ctx['actx'].append((self.name, 'enter', len(ctx['stack'])))
            try:
                for req in self.x_chain.get(sname, []):
                    self.event(fsmlib.mk_ev(req['ev']), **fsmlib.real_data(req.get('data', {})))
            finally:
                ctx['actx'].pop()
        method.__name__ = f"enter_{sname}"
        return method

    def mk_exit(sname):
        def method(self):
            run_acts(self, f"m:exit_{sname}", 'exit')
        method.__name__ = f"exit_{sname}"
        return method

    def mk_cond(ename):
        def method(self):
            run_acts(self, f"m:cond_{ename}", 'cond')
            return bool(fed.get().get('ok', True))
        method.__name__ = f"cond_{ename}"
        return method

    def mk_func(kind, cbname):
        def func():
            run_acts(holder['blk'], f"i:{kind}_{cbname}", kind)
            return True if kind == 'cond' else None
        return func

    timers = {s: (fsmlib.mk_dur(tm['dur']), fsmlib.mk_ev(tm['ev']))
              for s, tm in spec['timers'].items()}
    ns = {'STATES': list(spec['states']), 'TIMERS': timers,
          'EVENTS': [tuple(r) for r in spec['rules']]}
    for m in spec['methods']:
        kind, cbname = m.split('_', 1)
        maker = {'enter': mk_enter, 'exit': mk_exit, 'cond': mk_cond}.get(kind)
        if maker is None:
            raise PlanError(f"bad method {m}")
        ns[m] = maker(cbname)
    try:
        cls = type(spec['cls'], (edzed.FSM,), ns)
    except Exception as err:
        raise PlanError(f"class construction failed: {err}") from None
    kwargs = dict(kw)
    for f in inst.get('funcs', []):
        kind, cbname = f.split('_', 1)
        if kind not in ('enter', 'exit', 'cond'):
            raise PlanError(f"bad callback {f}")
        kwargs[f] = mk_func(kind, cbname)
    for sname, dur in inst.get('t', {}).items():
        kwargs[f"t_{sname}"] = fsmlib.mk_dur(dur)
    if inst.get('initdef') is not None:
        kwargs['initdef'] = inst['initdef']
    try:
        blk = cls(name, x_chain=inst.get('chain', {}), **kwargs)
    except Exception as err:
        raise PlanError(f"instance construction failed: {type(err).__name__}: {err}") from None
    holder['blk'] = blk
    return blk


def build(plan, ctx):
    """Create the real blocks in plan order. Returns {name: (spec, blk)}."""
    blocks = plan['blocks']
    if not isinstance(blocks, list) or not blocks:
        raise PlanError('no blocks')
    names = {b.get('name') for b in blocks}
    kinds = {b['name']: b['kind'] for b in blocks}
    real = ctx['real'] = {}
    for b in blocks:
        kind, name, out = b['kind'], b['name'], b.get('out', {})
        ev = {t: mk_events(edges, names) for t, edges in out.items()}
        common = {}
        for t in ('on_output', 'on_every_output'):
            if ev.get(t):
                common[t] = ev[t]
        pers = {'persistent': True} if b.get('persistent') and plan.get('storage') else {}
        try:
            if kind == 'probe':
                blk = Probe(name, x_mode=b.get('mode'), x_fwd=ev.get('fwd', []), x_st={'n': 0},
                            **common)
            elif kind == 'input':
                kw = dict(pers)
                if 'initdef' in b:
                    kw['initdef'] = b['initdef']
                if b.get('allowed') is not None:
                    kw['allowed'] = b['allowed']
                blk = edzed.Input(name, **kw, **common)
            elif kind == 'counter':
                kw = dict(pers)
                if 'initdef' in b:
                    kw['initdef'] = b['initdef']
                blk = edzed.Counter(name, modulo=b.get('modulo'), **kw, **common)
            elif kind == 'repeat':
                if b.get('dest') not in names:
                    raise PlanError('Repeat without a valid destination')
                seen_rep, cur = {name}, b['dest']
                while kinds.get(cur) == 'repeat':      # Repeat -> Repeat chains: acyclic only
                    if cur in seen_rep:
                        raise PlanError('cyclic Repeat destinations')
                    seen_rep.add(cur)
                    cur = next((x.get('dest') for x in plan['blocks'] if x['name'] == cur), None)
                if cur not in names:
                    raise PlanError('Repeat without a valid destination')
                blk = edzed.Repeat(name, dest=b['dest'], etype=mk_etype(b['etype']),
                                   interval=REPEAT_INTERVAL, count=b.get('count'), **common)
            elif kind == 'ofunc':
                script = b['script']
                if not script:
                    raise PlanError('empty script')
                st = {'calls': 0}

                def func(_st=st, _script=script):
                    outcome = _script[_st['calls'] % len(_script)]
                    _st['calls'] += 1
                    if outcome == 'E':
                        raise RuntimeError('scripted failure')
                    return outcome
                blk = edzed.OutputFunc(name, func=func, f_args=(), on_success=ev.get('on_success'),
                                       on_error=ev.get('on_error'), x_st=st, **common)
            elif kind == 'fsm':
                kw = dict(common, **pers)
                if ev.get('on_notrans'):
                    kw['on_notrans'] = ev['on_notrans']
                for t, events in ev.items():
                    if t.startswith('on_enter:') or t.startswith('on_exit:'):
                        kw[t.replace(':', '_')] = events
                blk = build_fsm(b, name, kw, ctx, names)
            else:
                raise PlanError(f"unknown kind {kind}")
        except PlanError:
            raise
        except Exception as err:
            raise PlanError(f"{name}: {type(err).__name__}: {err}") from None
        real[name] = (b, blk)
    return real


def real_state(spec, blk):
    out = canon(blk.output)
    if spec['kind'] == 'probe':
        return [out, blk.x_st['n']]
    if spec['kind'] == 'ofunc':
        return [out, blk.x_st['calls']]
    if spec['kind'] == 'fsm':
        return [out, canon(blk.state)]
    return out


def adopt(model, real):
    """Synchronise the model with the real circuit (after start-up only)."""
    for name, (spec, blk) in real.items():
        m = model.blocks[name]
        m.output = efm.UNDEF if blk.output is edzed.UNDEF else blk.output
        m.init = 2
        m.busy = m.window = 0
        if spec['kind'] == 'probe':
            m.n = blk.x_st['n']
        elif spec['kind'] == 'ofunc':
            m.calls = blk.x_st['calls']
        elif spec['kind'] == 'fsm':
            m.fstate = efm.UNDEF if blk.state is edzed.UNDEF else blk.state
            m.pending = None
            m.in_transition = False
    model.alive = True


REPEAT_INTERVAL = 3600.0
STOP_BOUND = 0.25       # virtual seconds the clean-up after a fatal error may take
SITES = {'early-init': 'its early initialisation by an event', 'handler': 'its handler',
         'exit-action': 'running an exit action, which must not cause events for its own FSM',
         'cond-function': 'running a condition function, which must not cause events for its '
                          'own FSM'}


class DepthCap(Exception):
    """Harness watchdog: event deliveries nested deeper than any legal circuit allows."""


MAX_NESTING = 40


def is_recursion_error(err):
    return isinstance(err, edzed.EdzedCircuitError) and 'recursive event' in str(err).lower()


def jev(etype):
    """Real event type -> JSON."""
    if isinstance(etype, str):
        return etype
    if isinstance(etype, edzed.Goto):
        return {'goto': etype.state}
    if isinstance(etype, edzed.EventCond):
        return {'cond': [None if etype.etrue is None else jev(etype.etrue),
                         None if etype.efalse is None else jev(etype.efalse)]}
    return repr(type(etype).__name__)


# --------------------------------------------------------------------------- execution

def execute(plan, trace=False):
    run = Run(plan['knobs'])
    try:
        try:
            model = efm.FlowModel(plan['blocks'])
        except (ValueError, KeyError, TypeError) as err:
            raise PlanError(f"model: {err}") from None
        ctx = {'stack': [], 'actx': [], 'real': None}
        if plan.get('storage'):
            edzed.get_circuit().set_persistent_data(SimStorage(clock=run.now))
        real = build(plan, ctx)
        if plan.get('ainit'):
            # blocks with a slow asynchronous initialisation keep the start-up open
            async def slow(duration):
                await asyncio.sleep(duration)
                return 1
            try:
                for i, (dur, tmo) in enumerate(plan['ainit']['slow']):
                    edzed.InitAsync(f"slow{i}", init_coro=[slow, float(dur)],
                                    init_timeout=float(tmo))
            except Exception as err:
                raise PlanError(f"InitAsync: {err}") from None
        circuit = edzed.get_circuit()
        kinds = {name: spec['kind'] for name, (spec, _b) in real.items()}

        # ---------------- (a) the monitor
        stack = ctx['stack']
        actx = ctx['actx']
        depth = collections.Counter()
        mon = {'last_exc': None, 'refusals': [], 'dlv': [], 'phase': 'init', 'nested': 0}

        def hook(phase, blk, etype, arg):
            name = blk.name
            if phase == 'pre':
                if len(stack) >= MAX_NESTING:
                    # unbounded recursion in the code under test: stop it deterministically,
                    # well before Python's own recursion limit
                    run.violate('C11/unbounded-nesting',
                                f"{name}: {len(stack)} event deliveries are nested "
                                f"({[f['name'] for f in stack[-6:]]} ...)")
                    raise DepthCap(f"{len(stack)} nested deliveries")
                active = depth[name] > 0
                own = bool(stack) and stack[-1]['name'] == name and 'source' not in arg
                # the callback of this block that makes the call (exit action / condition
                # function: NOT a documented exception; entry action: the documented one)
                action = None
                if own and actx and actx[-1][0] == name and actx[-1][2] == len(stack):
                    action = actx[-1][1]
                steps = blk.init_steps_completed
                tolerated = active and not own and steps < 0 and not STRICT_EARLY_INIT
                site = 'early-init' if steps < 0 else 'handler'
                # the innermost running callback of the addressed block, if any
                running = next((k for n, k, _d in reversed(actx) if n == name), None)
                if active and running in ('exit', 'cond'):
                    site = 'exit-action' if running == 'exit' else 'cond-function'
                frame = {'name': name, 'active': active,
                         'window': active and own and action not in ('exit', 'cond'), 'own': own,
                         'tolerated': tolerated, 'early': 0 <= steps < 2, 'site': site,
                         'ev': jev(etype)}
                if stack and not own:
                    mon['nested'] += 1
                    if mon['phase'] == 'init':
                        run.fired('reach:init_time_delivery')
                stack.append(frame)
                depth[name] += 1
                run.log('dlv', name, frame['ev'], 'value' in arg, len(stack), active, own)
                return
            frame = stack.pop()
            depth[name] -= 1
            refused = False
            if phase == 'exc':
                origin = arg is not mon['last_exc']
                mon['last_exc'] = arg
                if origin and is_recursion_error(arg):
                    refused = True
            mon['dlv'].append((name, refused))
            if refused:
                run.log('refused', name, frame['active'], frame['window'])
                if frame['active'] and not frame['window']:
                    mon['refusals'].append(name)
                    chain = [f['name'] for f in stack]
                    first = len(chain) - 1 - chain[::-1].index(name)
                    loop = len(set(chain[first:]))
                    if stack and stack[-1]['name'] == name:
                        run.fired('reach:refused_self_loop')
                    if loop >= 3:
                        run.fired('reach:refused_long_cycle')
                    if any(kinds.get(n) == 'repeat' for n in chain[first:]):
                        run.fired('reach:via_repeat')
                    if any(kinds.get(n) == 'ofunc' for n in chain[first:]):
                        run.fired('reach:via_ofunc')
                elif frame['active']:
                    run.violate('C11/window-refused',
                                f"{name}: its own event {canon(frame['ev'])} (documented exception: "
                                "chained transition / initialisation by an event) was refused as "
                                "recursive")
                else:
                    run.violate('C11/refused-while-idle',
                                f"{name}: event {canon(frame['ev'])} was refused as recursive although "
                                f"the block was not handling any event (open deliveries: "
                                f"{[f['name'] for f in stack][-8:]})")
                return
            # the delivery got past the guard
            if frame['tolerated']:
                run.fired('early_init_third_party_accepted')
            elif frame['active'] and not frame['window']:
                run.violate(f"C11/not-refused/{frame['site']}",
                            f"{name}: event {canon(frame['ev'])} was accepted while the block was "
                            f"inside event() ({SITES[frame['site']]}); "
                            f"open deliveries: {[f['name'] for f in stack][-8:]}")
            elif frame['window']:
                run.fired('reach:window_own_event')
                if frame['site'] == 'early-init':
                    run.fired('reach:init_by_own_event_in_window')
            if frame['early'] and phase == 'post' and mon['phase'] == 'init' and blk.is_initialized():
                run.fired('reach:early_init_by_event')

        for _spec, blk in real.values():
            fsmlib.hook_events(blk, hook)

        def begin_root():
            mon['refusals'] = []
            mon['dlv'] = []
            mon['nested'] = 0

        def end_root(label):
            if stack:
                run.harness_error = run.harness_error or f"monitor stack not empty after {label}"
                del stack[:]
                depth.clear()
            if mon['refusals'] and circuit.error is None:
                run.violate('C11/refusal-did-not-stop',
                            f"{label}: {mon['refusals'][0]} refused a recursive event but the "
                            "simulation was not stopped")

        def note_reach(res):
            for tag, probe in (('filter_veto', 'filter_veto'), ('cond_none', 'cond_none'),
                               ('early_return', 'early_return'),
                               ('cond_resolved', 'cond_resolved'),
                               ('edit_reject_nonfinal', 'dataedit_reject_nonfinal'),
                               ('cond_none_uninit_persistent',
                                'cond_none_uninitialised_persistent'),
                               ('unchanged_output_no_event', 'unchanged_no_event'),
                               ('act_exit_first', 'exit_action_sends'),
                               ('act_exit_intermediate', 'exit_action_intermediate_sends'),
                               ('act_cond', 'cond_function_sends'),
                               ('refused_exit_first', 'refused_from_exit_action'),
                               ('refused_exit_intermediate', 'refused_from_intermediate_exit'),
                               ('refused_cond', 'refused_from_cond_function'),
                               ('fsm_own_event', 'fsm_chained_request'),
                               ('zero_timer', 'fsm_zero_timer')):
                if tag in res['notes']:
                    run.fired('reach:' + probe)

        def compare_outputs(label):
            exp = model.outputs()
            for name, (spec, blk) in real.items():
                obs = real_state(spec, blk)
                if canon(exp[name]) != obs:
                    run.violate('C11/model/outputs',
                                f"{label}: {name} ({spec['kind']}) is {obs}, the event-flow model "
                                f"expects {canon(exp[name])}")
                    return False
            return True

        info = {'stopped_by': None, 'nontrivial': False, 'failures_survived': 0, 'precise': True,
                'window_stop': False}
        ainit = plan.get('ainit')
        nwin = 0
        if ainit:
            nwin = max(0, min(int(ainit.get('n_ext', 0)), len(plan['ext'])))
        shape = [kinds[n][0] for n in model.order]

        def followups(label):
            """(c) every block must let an event past its guard."""
            ok = True
            for name, (spec, blk) in real.items():
                begin_root()
                try:
                    edzed.ExtEvent(blk, 'nop' if spec['kind'] == 'probe' else 'c11_chk').send()
                    err = None
                except Exception as exc:        # pylint: disable=broad-except
                    err = exc
                end_root(f"{label} follow-up {name}")
                if isinstance(err, edzed.EdzedCircuitError) or (
                        err is not None and not isinstance(err, edzed.EdzedUnknownEvent)):
                    ok = False
                    run.violate('C11/locked-after-event',
                                f"{label}: follow-up event to {name} ({spec['kind']}) was not "
                                f"accepted: {canon(err)}")
                if not circuit.is_ready():
                    ok = False
                    run.violate('C11/followup-stopped-simulation',
                                f"{label}: follow-up event to {name} stopped the simulation: "
                                f"{canon(circuit.error)}")
                    break
            if ok:
                run.fired('reach:followup_all_ok')
            return ok

        async def do_ext(n, op, window):
            """One external event: deliver, judge (a)(b), follow-ups (c). False = stop."""
            label = f"{'init-' if window else ''}ext#{n} {op['blk']}.{op['ev']}"
            if op['blk'] not in real or not isinstance(op['ev'], str) or not op['ev']:
                raise PlanError('bad external event')
            blk = real[op['blk']][1]
            data = fsmlib.real_data(op.get('data', {}))
            was_precise = info['precise'] and not model.imprecise
            exp = model.external(op['blk'], op['ev'], op.get('data', {}))
            begin_root()
            try:
                ret = edzed.ExtEvent(blk, op['ev']).send(**data)
                err = None
            except Exception as exc:        # pylint: disable=broad-except
                ret, err = None, exc
            end_root(label)
            alive = circuit.is_ready()
            if err is None:
                obs = 'ok'
            elif is_recursion_error(err):
                obs = 'recursion'
            elif isinstance(err, edzed.EdzedUnknownEvent) and (alive or exp['verdict'] != 'abort'):
                # (an unknown event type met by an initialisation routine is an initialisation
                # error: the model says 'abort' then)
                obs = 'unknown'
            elif isinstance(err, TypeError) and alive:
                obs = 'param'
            else:
                obs = 'abort'
            run.log('ext', label, canon(op.get('data', {})), obs, canon(ret), canon(err), alive,
                    exp['verdict'], exp.get('at'))
            dk = [kinds[d][0] + ('!' if r else '') for d, r in mon['dlv']]
            run.beh('W' if window else 'E', kinds[op['blk']][0], obs, dk)
            if window:
                run.fired('reach:async_init_window_event')
                if obs == 'recursion' and mon['refusals']:
                    run.fired('reach:refused_in_async_init')
            if mon['nested'] or mon['refusals']:
                info['nontrivial'] = True
            # reach
            note_reach(exp)
            if obs == 'recursion' and mon['refusals']:
                run.fired('reach:refused_ext')
            if obs == 'unknown':
                run.fired('reach:nested_unknown' if mon['nested'] else 'reach:ext_unknown')
            if obs == 'param':
                run.fired('reach:ext_param')
            if obs == 'abort':
                run.fired('reach:nested_param_abort' if isinstance(err, TypeError)
                          and exp.get('nested') else 'reach:handler_error_abort')
            names = [d for d, r in mon['dlv'] if not r]
            if len(names) != len(set(names)) and obs == 'ok':
                run.fired('reach:diamond')
            if info['failures_survived'] and obs == 'ok':
                run.fired('reach:second_event_after_failure')
            # the property itself: these never stop the simulation
            if obs in ('ok', 'unknown', 'param') and not alive:
                run.violate('C11/stopped-without-cause',
                            f"{label}: the event ended with '{obs}' ({canon(err)}) but the "
                            f"simulation was stopped: {canon(circuit.error)}")
            if obs == 'recursion' and not mon['refusals']:
                run.violate('C11/recursion-error-without-refusal',
                            f"{label}: raised {canon(err)} but no block refused an event")
            # (b) the model
            if was_precise:
                exp_alive = exp['verdict'] in ('ok', 'unknown', 'param')
                if obs != exp['verdict'] or alive != exp_alive:
                    run.violate('C11/model/verdict',
                                f"{label} {canon(op.get('data', {}))}: observed '{obs}' "
                                f"({canon(err)}), simulation {'running' if alive else 'stopped'}; "
                                f"the event-flow model expects '{exp['verdict']}' at "
                                f"{exp.get('at')} {exp.get('what', '')}")
                    info['precise'] = False
                elif alive and not model.imprecise:
                    info['precise'] = compare_outputs(label)
            if model.imprecise:
                run.fired('model_imprecise')
            if not alive:
                info['stopped_by'] = obs
                info['window_stop'] = window
                return False
            if obs in ('unknown', 'param') or 'filter_veto' in exp['notes'] \
                    or 'cond_none' in exp['notes']:
                info['failures_survived'] += 1
            if window:
                # the blocks are not all initialised yet: no follow-up events here (they
                # would initialise every block); they follow after the start-up
                return True
            # (c)
            if not followups(label):
                return False
            if info['precise'] and not model.imprecise and circuit.is_ready():
                info['precise'] = compare_outputs(label + ' after follow-ups')
            if op.get('yield'):
                await asyncio.sleep(0)
            return True

        async def start_up():
            """Wait for the end of the start-up and compare it with the model."""
            try:
                exp = model.initialise()
            except RecursionError:
                raise PlanError('model recursion') from None
            init_err = None
            try:
                await circuit.wait_init()
            except edzed.EdzedInvalidState as err:
                init_err = err
            end_root('start-up')
            mon['phase'] = 'run'
            if init_err is None:
                obs = 'ok'
            elif mon['refusals']:
                obs = 'recursion'
                run.fired('reach:refused_init')
            else:
                obs = 'fail'
            run.log('init', obs, canon(init_err), exp['verdict'], exp.get('at'), exp.get('why'))
            note_reach(exp)
            was_precise = info['precise'] and not model.imprecise
            info['precise'] = True
            if obs != exp['verdict']:
                run.fired('init_model_mismatch')
                info['precise'] = False
                if obs == 'fail' and exp['verdict'] == 'ok' and was_precise:
                    # Nothing documented explains this failure: no refusal, no error in a
                    # handler or initialisation routine, every block gets its output. (The
                    # other disagreements may be a matter of the undocumented initialisation
                    # order and are only counted.)
                    run.violate('C11/stopped-without-cause/start-up',
                                f"the start-up failed ({canon(init_err)}) although no event was "
                                "refused and filters / conditional events resolving to 'no "
                                "event' / rejected values are the only things that happened")
            if obs == 'ok':
                if info['precise'] and canon(model.outputs()) != {n: real_state(s, b)
                                                          for n, (s, b) in real.items()}:
                    run.fired('init_model_mismatch')
                adopt(model, real)
                info['precise'] = True
            else:
                info['stopped_by'] = 'init-' + obs

        async def main():
            simtask = asyncio.create_task(circuit.run_forever())
            begin_root()
            if ainit:
                # The simulator is waiting for the init_async tasks of the slow blocks: external
                # events are accepted already and initialise their destinations early.
                await asyncio.sleep(float(ainit['at']))
                for n, op in enumerate(plan['ext'][:nwin]):
                    if info['stopped_by'] is not None or not circuit.is_ready() or simtask.done():
                        break
                    if not await do_ext(n, op, True):
                        break
                begin_root()
            if info['stopped_by'] is None:
                await start_up()
                if nwin and info['stopped_by'] is None and circuit.is_ready():
                    followups('after the start-up')
            for n, op in enumerate(plan['ext']):
                if n < nwin:
                    continue
                if info['stopped_by'] is not None or not circuit.is_ready():
                    break
                if not await do_ext(n, op, False):
                    break
            await asyncio.sleep(0)
            if plan.get('tick') and info['stopped_by'] is None and circuit.is_ready():
                # two repetitions of every repeating Repeat: deliveries whose root is a task.
                # Monitor and follow-ups only (the model does not follow the timing).
                begin_root()
                await asyncio.sleep(2 * REPEAT_INTERVAL + 1.0)
                end_root('repeat ticks')
                dk = [kinds[d][0] + ('!' if r else '') for d, r in mon['dlv']]
                run.log('ticks', dk, circuit.is_ready())
                if mon['dlv']:
                    run.fired('reach:repeat_tick_delivery')
                    run.beh('tick', dk)
                    if mon['nested'] or mon['refusals']:
                        info['nontrivial'] = True
                if mon['refusals']:
                    run.fired('reach:refused_tick')
                    info['stopped_by'] = 'recursion'
                elif not circuit.is_ready():
                    info['stopped_by'] = 'tick-abort'
                else:
                    followups('after repeat ticks')
            if info['stopped_by'] in ('recursion', 'init-recursion'):
                # "refused with an EdzedCircuitError that stops the simulation": the simulation
                # task has to END now - a few loop iterations for the clean-up, not the time the
                # remaining initialisation (or any time-out) takes
                t_ref = run.now()
                await asyncio.wait([simtask], timeout=STOP_BOUND)
                if not simtask.done():
                    run.violate('C11/refusal-did-not-stop/still-running',
                                f"a recursive event was refused ({info['stopped_by']}"
                                f"{', during the asynchronous initialisation' if info['window_stop'] else ''}) "
                                f"but the simulation task was still running {run.now() - t_ref:.3f} s "
                                "later")
                else:
                    run.fired('reach:stopped_promptly')
            err = None
            try:
                await circuit.shutdown()
            except Exception as exc:    # pylint: disable=broad-except
                err = exc
            run.log('stopped', canon(err), info['stopped_by'])
            if info['stopped_by'] is None:
                if err is not None:
                    run.violate('C11/stopped-without-cause',
                                f"no event stopped the simulation, but it ended with {canon(err)}")
            elif not isinstance(err, edzed.EdzedCircuitError) and info['stopped_by'] in (
                    'recursion', 'init-recursion'):
                run.violate('C11/refusal-did-not-stop',
                            f"a recursive event was refused ({info['stopped_by']}), but the "
                            f"simulation ended with {canon(err)} instead of an EdzedCircuitError")
            # nothing may be left marked, whatever happened
            for name, (_spec, blk) in real.items():
                if getattr(blk, '_event_active', False) or getattr(blk, '_fsm_event_active', False):
                    run.violate('C11/guard-left-set',
                                f"{name}: still marked as handling an event after the simulation "
                                "ended")
            return simtask

        run.run(main())
        if isinstance(run.main_exc, PlanError):
            raise run.main_exc
        if run.main_exc is not None and run.harness_error is None:
            run.harness_error = f"main raised {type(run.main_exc).__name__}: {run.main_exc}"
        res = run.result()
        if not info['nontrivial']:
            res['behaviour'] = None
        elif res['behaviour']:
            res['behaviour'] = res['behaviour'] + ''.join(shape)
        if trace:
            res['trace'] = run.trace
        return res
    finally:
        run.close()
