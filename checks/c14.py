"""
C14 - external events enter only a running circuit and are always marked as external.

One run = one circuit (recorder probe with scripted handler results, Input with a validator,
Counter, FSM, auto-named Input, auto-named block of a generated user class, Not on a
'_not_NAME' shortcut, optionally an auto-named TimeDate (-> '_cron_local') and an implicit
Repeat (-> '_Repeat_0'), '_ctrl' through a trigger block, an async-init probe and a clean-up
probe) and a driver script that calls the real ExtEvent.send() in every lifecycle phase:
no task - task created but not started - first step (blocks started, nothing initialised) -
during async initialisation (from the driver and from inside an init_async) - running -
right after the termination cause (abort(), shutdown(), '_ctrl' shutdown/abort events, a
failing event handler, raw cancellation of the simulation task, SIGTERM under edzed.run(), a
supporting coroutine that returns/raises, a CBlock that starts failing, a failed
initialisation) but before the simulation task ran again - during clean-up (from the driver,
from stop() and from stop_async() of a probe block) - finished; also abort() before start.

Oracle (predictive; the driver knows what it did):
  running  <=>  the simulation task has started executing (first yield after create_task /
                supporting coroutine started) and no stop has been requested or happened.
  running      -> delivered exactly once, handler's result returned (model of Input /
                  Counter / FSM / scripted recorder), data == other items unchanged +
                  'value' from the positional value + 'source' (caller's or default) with
                  '_ext_' prepended unless present;
  not running  -> EdzedInvalidState and no block received anything;
  a stop that happens inside the simulation task (a CBlock function that raises, a block
  whose init_regular raises - run by the simulator or forced early by an external event) or
  inside a block's own monitored task (AddonMainTask service task, ValuePoll function) is
  caused by scripted user code, which tells the model at the very moment it raises; send() calls are then made from callbacks queued at that moment
  (0-2 call_soon hops) and from a task resumed right behind the failing step;
  a raw cancel() of an idle (fully initialised) simulation task counts as noticed as soon as
  the cancelling task has yielded once (FIFO ready queue), a raw cancel() during the start-up
  as soon as virtual time has passed (the loop was idle in between); only inside that window
  and for the SIGTERM hand-over (call_soon_threadsafe) both answers are accepted until
  Circuit.error is set or a block's stop() has been called. A simulation that is still
  running 60 s after its stop is a violation (stop-never-completed); the harness then forces
  the end.
  An explicit, documented Circuit.finalize() before the start (per-run option) does not make
  the circuit running.
  Every delivery that is not the top of an ExtEvent.send() is internal: its 'source' must not
  begin with '_ext_'; no block of the circuit may have a name beginning with '_ext_';
  explicit reserved names are refused.

Finding F14 (genuine, contrived but reachable with the documented API only): a block created
with name=None gets the name '_<ClassName>_<n>'; for a user class called 'ext' or 'ext_...'
that is '_ext_0' / '_ext_relay_0', so the 'source' of its (internal) events carries the
external mark. Signature C14/external-mark-forged/auto-name-of-class-ext.

Sensitivity (VERIF_RUNS=8000 of the quick tier against mutated scratch copies of the tree
with the F14 repair; all 19 caught, typical signature in brackets):
  M1  is_ready(): 'not _simtask.done()' instead of '_error is None'   [delivered-when-not-running/aborting:abort]
  M2  caller's source prefixed unconditionally ('_ext__ext_x')         [wrong-data/source]
  M3  constructor's default source not prefixed                        [external-mark-missing/constructor-source]
  M4  positional value dropped when falsy                              [wrong-data/value]
  M6  send() returns None instead of the handler's result              [handler-result/*]
  M7  send() only checks that a task exists (ignores the error)        [delivered-when-not-running/finished]
  M8  caller's source never prefixed                                   [external-mark-missing/given-source]
  M9  reserved-name check refuses only '__' names                      [reserved-name-accepted]
  M10 abort() records the error only when there is no task to cancel   [delivered-when-not-running/aborting:*]
  M11 caller's source replaced by the default one                      [wrong-data/source]
  M12 is_ready() additionally waits for the end of the initialisation  [refused-while-running/first_step]
  M13 send() returns None instead of raising when not ready            [no-invalid-state-error/*]
  M14 prefix test 'startswith("_ext")' ('_ext' stays unmarked)         [external-mark-missing/given-source]
  M15 a positional value replaces all other data items                 [wrong-data/other-items]
  M16 run_forever never records the exception that ended it            [delivered-when-not-running/finished]
  M19 an ExtEvent object that was ready once stays ready for ever      [delivered-when-not-running/finished]
      (needs the same pre-created object used while running and after the stop)
  M22 a raw cancellation of the simulation task is not recorded        [delivered-when-not-running/cleanup_stop:cancel_task]
      (needs the cancel_task cause and a send from stop()/stop_async())
  M23 run_forever yields once more before it registers its task        [refused-while-running/first_step]
      (needs a send right after the first yield following create_task)
Planted changes seeded/C14-s1..s6: all detected at the quick tier; s4 (the error that ended
the simulation task is recorded one loop iteration late) needs a stop inside the simulation
task that does not go through abort() plus a send() queued at that moment / resumed right
behind the failing step [delivered-when-not-running/after_failure:*, aborting:calc_error,
aborting:cancel_task]; s6 (is_ready() derived from the 'finalized' flag) needs the explicit
finalize() before the start [delivered-when-not-running/no_task, created].
s7 (Circuit._run_tasks swallows the cancellation of the simulation task during an async
initialisation: the stop is lost) needs cancel_task in phase async_init, sends after virtual
time has passed, and a bounded wait for the end [delivered-when-not-running/aborting:
cancel_task, stop-never-completed/cancel_task]; s8 (a failed monitored block task reports to
abort() one loop iteration late) needs cause task_error (AddonMainTask service task or
ValuePoll function that tells the model when it raises) and sends 0 hops later
[delivered-when-not-running/after_failure:task_error]; s9 (an init routine that raises during a
forced early initialisation is not fatal) needs cause early_init_error: an external event to a
not yet initialised block whose init_regular raises, then further sends
[delivered-when-not-running/aborting:early_init_error].
s10 (a failing get_state() escapes from the state saving done after the handler) needs
persistent storage and a persistent Input without initdef that receives a rejected value while
still uninitialised: send() must return False [unexpected-exception/first_step]; s11
(run_forever registers its task before the eager-task test) needs the cause eager_start: the
start is attempted under asyncio.eager_task_factory, fails with RuntimeError, every later
send() must be refused [delivered-when-not-running/created ...].
Not expressible: "ready as soon as the task object exists" (_simtask is assigned by the task).
Side observation (not C14): Circuit.wait_init() after abort()-before-start raises
AttributeError('_init_done') instead of EdzedInvalidState; counted as wait_init_attribute_error.
"""

from __future__ import annotations

import asyncio
import signal

from simkit import seams
from simkit.runner import Run, PlanError, canon, gen_knobs
from checks import fsmlib

edzed = seams.install()

PROP = 'C14'
LEVEL = 'exploration'
RUNS = {'quick': 40000, 'thorough': 1000000}
CHUNK = 500
RULE = ("one run = one circuit (scripted recorder, validated Input, optional persistent Input "
        "without initdef on a dict storage, Counter, FSM, auto-named "
        "Input, auto-named instance of a generated user class, Not on a _not_ shortcut, "
        "optional auto-named TimeDate/_cron_local and implicit Repeat, _ctrl, async-init probe, "
        "clean-up probe) x entry point (run_forever task / edzed.run with a supporting "
        "coroutine) x termination cause (abort, abort before start, shutdown awaited / in a "
        "task, _ctrl shutdown/abort from a block, external event to _ctrl, failing handler, raw "
        "task cancel, failing CBlock, failed initialisation, init routine failing in a forced early "
        "initialisation, failing block task (AddonMainTask / ValuePoll), start attempted under an "
        "eager task factory, SIGTERM, supporting coroutine "
        "returns/raises) x termination phase (first step, async init, running) x 0-3 "
        "ExtEvent.send() calls in each of the phases no-task/created/first-step/async-init/"
        "running/aborting/clean-up (driver, stop(), stop_async())/finished with generated data "
        "shapes (value positional/keyword/absent incl. falsy values, source absent/plain/"
        "prefixed/odd strings/non-string, default source of the constructor, extra items, "
        "destination by name/object, ExtEvent object created before the start or on the spot) "
        "x loop knobs; the first 1300 run indices walk entry x cause x phase systematically; "
        "non-trivial = at least one call expected to be delivered and one expected to be "
        "refused; distinct = hash of (entry, cause, per call: phase, destination kind, "
        "expectation, outcome kind, data shape)")
REACH_EXPECTED = ['phase_no_task', 'phase_created', 'phase_first_step', 'phase_async_init',
                  'phase_init_async_probe', 'phase_running', 'phase_aborting',
                  'phase_cleanup_driver', 'phase_cleanup_stop', 'phase_cleanup_async',
                  'phase_finished', 'phase_after_failure', 'self_stop', 'explicit_finalize',
                  'cancel_noticed_after_yield', 'cancel_noticed_after_sleep', 'early_init_error',
                  'task_error_main', 'task_error_vpoll', 'eager_start',
                  'rejected_value_uninitialised_persistent', 'lenient_window', 'falsy_value',
                  'source_given_prefixed', 'source_given_plain', 'source_odd', 'default_source',
                  'ctor_source', 'internal_user_named', 'internal_auto_named', 'internal_repeat',
                  'internal_timedate', 'internal_generated_class', 'handler_error',
                  'reserved_name_refused', 'entry_run', 'sigterm', 'abort_before_start',
                  'refused_then_nothing_recorded', 'nonstring_source', 'uninitialised_dest',
                  'term_during_async_init']
ASSUMPTIONS = [
    "'running' is read from docs/simulation.rst (is_ready): true immediately after the "
    "simulation task started, also during the initialisation, false when the simulation stops",
    "between a raw cancel() of a still initialising simulation task (or the SIGTERM handler, "
    "which hands over with call_soon_threadsafe, or the end of a supporting coroutine under "
    "edzed.run) and the moment the circuit notices, both answers are accepted unless "
    "Circuit.error is already set; a raw cancel() of an idle simulation counts as noticed after "
    "one yield of the cancelling task",
    "non-string 'source' values are outside the quantifier: TypeError, refusal, or a delivery "
    "with a marked string source are all accepted",
]

FALSY_VALUES = [0, None, '', False, [], 0.0]
VALUES = FALSY_VALUES + ['v', 7, [1], {'k': 2}, True]
ODD_SOURCES = ['', '_ext', '_ext_', 'ext_', '_EXT_x', ' _ext_x', '__ext_x', '_ext__x', 'a_ext_b',
               'x' * 40, 'źdroj', '_', 'src with space']
CLASS_NAMES = ['Relay', 'extra', 'Ext', 'EXT_', 'xext_', 'e', 'ext', 'ext_relay']
FORGING = ('ext', 'ext_relay')
RESERVED_TRIES = ['_ext_x', '_x', '_ext_', '__', '_ext', '_Input_0']

CAUSES_RF = ['abort', 'shutdown_await', 'shutdown_task', 'ctrl_shutdown', 'ctrl_abort',
             'ext_ctrl_shutdown', 'handler_error', 'cancel_task', 'calc_error', 'init_failure',
             'abort_before_start', 'task_error', 'early_init_error', 'eager_start']
CAUSES_RUN = ['sup_return', 'sup_raise', 'sigterm', 'shutdown_await', 'abort', 'ctrl_shutdown',
              'task_error']
EARLY_OK = ('abort', 'shutdown_task', 'cancel_task', 'ctrl_shutdown', 'ctrl_abort',
            'shutdown_await', 'handler_error', 'task_error', 'early_init_error')
SELF_STOP = ('calc_error', 'init_failure', 'task_error', 'early_init_error')
TERM_PHASES = ['first_step', 'async_init', 'running']


class Injected(Exception):
    pass


# --------------------------------------------------------------------------- generation

def gen_send(rng, phase, forge_ok=True):
    dest = rng.choice(['rec', 'rec', 'rec', 'inp', 'cnt', 'fsm', 'auto', 'relay'])
    spec = {'do': 'send', 'phase': phase, 'dest': dest, 'extra': {}}
    if dest == 'rec':
        spec['etype'] = rng.choice(['ev', 'put', 'x1'])
        spec['ret'] = rng.choice([None, 0, False, '', 'r', 7, [1, 2], {'k': 1}, True])
        if rng.random() < 0.65:
            spec['value'] = {'v': rng.choice(VALUES)}
    elif dest in ('inp', 'auto', 'relay'):
        spec['etype'] = 'put'
        spec['value'] = {'v': rng.choice(['a', 'b', 0, None, 'bad', [1], '', False, 'c', 'd'])}
    elif dest == 'cnt':
        spec['etype'] = rng.choice(['inc', 'inc', 'dec', 'put', 'reset'])
        if spec['etype'] == 'put':
            spec['value'] = {'v': rng.choice([0, 5, -3, 2.5, 100])}
        elif rng.random() < 0.4:
            spec['extra']['amount'] = rng.choice([2, -1, 0, 0.5])
    else:
        spec['etype'] = rng.choice(['go', 'go', 'back'])
        if rng.random() < 0.3:
            spec['value'] = {'v': rng.choice(VALUES)}
    spec['value_kw'] = rng.random() < 0.35
    r = rng.random()
    if r < 0.35:
        spec['source'] = None
    elif r < 0.55:
        spec['source'] = {'s': rng.choice(['plain', 'fred', 'sensor1'])}
    elif r < 0.75:
        spec['source'] = {'s': rng.choice(['_ext_pre', '_ext_', '_ext_fred', '_ext__ext_x'])}
    elif r < 0.95:
        spec['source'] = {'s': rng.choice(ODD_SOURCES)}
    else:
        spec['source'] = {'s': rng.choice([5, None, ['_ext_l'], True])}
    r = rng.random()
    spec['dsrc'] = None if r < 0.5 else {'s': rng.choice(['dflt', '_ext_dflt', '', '_ext_', 'x_ext_',
                                                           '_Ext_d'])}
    for _ in range(rng.choice([0, 0, 1, 1, 2, 3])):
        key = rng.choice(['a', 'b', 'k', 'trigger', 'previous', 'orig_source', 'repeat', 'error',
                          'etype', 'data', 'src', 'Source'])
        spec['extra'][key] = rng.choice(VALUES + ['_ext_fake'])
    spec['byname'] = rng.random() < 0.4
    spec['pre'] = rng.random() < 0.3
    return spec


def gen_sends(rng, phase, lo=0, hi=3):
    return [gen_send(rng, phase) for _ in range(rng.randint(lo, hi))]


def gen(rng, tier, index=0):
    if index < 1300:
        k = index
        entry = ['rf', 'rf', 'run'][k % 3]
        k //= 3
        causes = CAUSES_RF if entry == 'rf' else CAUSES_RUN
        cause = causes[k % len(causes)]
        k //= len(causes)
        tphase = TERM_PHASES[k % 3]
    else:
        entry = rng.choice(['rf', 'rf', 'rf', 'run'])
        cause = rng.choice(CAUSES_RF if entry == 'rf' else CAUSES_RUN)
        tphase = rng.choice(TERM_PHASES + ['running'])
    if cause not in EARLY_OK or entry == 'run' and cause in ('shutdown_await',):
        tphase = 'running'
    if cause == 'early_init_error' and tphase == 'running':
        tphase = 'async_init'       # only an uninitialised block gets the forced early init
    if entry == 'run' and cause in ('sup_return', 'sup_raise', 'sigterm'):
        tphase = rng.choice(TERM_PHASES + ['running']) if index >= 1300 else tphase
    async_init = None
    if rng.random() < 0.6 or tphase == 'async_init':
        async_init = {'dur': rng.choice([0.2, 1.0, 2.0]), 'probe_send': gen_send(rng, 'init_async_probe')}
    cleanup = {'dur': rng.choice([0.0, 0.2, 0.5]),
               'stop_send': gen_send(rng, 'cleanup_stop') if rng.random() < 0.8 else None,
               'async_sends': [gen_send(rng, 'cleanup_async') for _ in range(rng.randint(0, 2))]}
    relay_cls = rng.choice(CLASS_NAMES[:6])
    if rng.random() < 0.06 or index % 97 == 5:
        relay_cls = rng.choice(FORGING)
    with_td = rng.random() < 0.2
    with_repeat = rng.random() < 0.35
    knobs = gen_knobs(rng, latency=True, cost=True, ties=True,
                      min_cost_ns=2000 if with_td else 0)
    pre = gen_sends(rng, 'no_task')
    if cause == 'abort_before_start':
        pre.append({'do': 'cause', 'cause': 'abort_before_start'})
        pre += gen_sends(rng, 'no_task', 0, 1)
    created = gen_sends(rng, 'created') if entry == 'rf' else []
    body = []
    term = [{'do': 'cause', 'cause': cause}] + gen_sends(rng, 'aborting', 1, 3)
    if cause in ('cancel_task', 'sigterm', 'calc_error', 'task_error', 'early_init_error'):
        term += [{'do': 'yield'}] + gen_sends(rng, 'aborting', 1, 2)
    if cause in ('cancel_task', 'task_error'):
        # virtual time passes: whatever the cancellation / the failing task had to go
        # through (wait_for, nested tasks, a polling interval) is over afterwards
        term += [{'do': 'sleep', 't': rng.choice([0.001, 0.01, 0.3])}] \
            + gen_sends(rng, 'aborting', 1, 2)
    term += [{'do': 'sleep', 't': cleanup['dur'] * 0.5}] + gen_sends(rng, 'cleanup_driver', 1, 2)
    body += gen_sends(rng, 'first_step')
    done = False
    if tphase == 'first_step' and cause != 'abort_before_start':
        body += term
        done = True
    if not done and async_init:
        body.append({'do': 'sleep', 't': async_init['dur'] * rng.choice([0.25, 0.5, 0.75])})
        body += gen_sends(rng, 'async_init', 1, 3)
        if tphase == 'async_init':
            body += term
            done = True
    if not done:
        body.append({'do': 'wait_init'})
        for _ in range(rng.randint(1, 6)):
            r = rng.random()
            if r < 0.7:
                body.append(gen_send(rng, 'running'))
            elif r < 0.85:
                body.append({'do': 'yield'})
            else:
                body.append({'do': 'sleep', 't': rng.choice([0.1, 0.6, 1.0])})
        if with_td:
            body.append({'do': 'sleep', 't': 3.6})
            body.append(gen_send(rng, 'running'))
        body += term
    post = gen_sends(rng, 'finished', 1, 3)
    after_failure = []
    if cause in SELF_STOP:
        # send() from callbacks queued at the very moment the simulation task fails
        for hops in rng.choice([[0], [0, 1], [0, 0, 2], [1, 0], [2, 1, 0]]):
            after_failure.append({'hops': hops, 'send': gen_send(rng, 'after_failure')})
    # persistent storage and a persistent Input without initdef ('pinp'): a rejected value
    # leaves it uninitialised, its state cannot be saved - send() must still return False
    persist = rng.random() < 0.5
    if entry == 'run' and not async_init:
        # a supporting coroutine is started after the (purely synchronous) initialisation:
        # nobody could give the persistent Input its first value in time
        persist = False
    if persist:
        steps = [st for part in (pre, created, body, post) for st in part]
        steps += [async_init['probe_send']] if async_init else []
        steps += [cleanup['stop_send']] if cleanup['stop_send'] else []
        steps += cleanup['async_sends'] + [item['send'] for item in after_failure]
        for st in steps:
            if st.get('do') == 'send' and st['dest'] in ('inp', 'auto') and rng.random() < 0.5:
                st['dest'] = 'pinp'
        bad = gen_send(rng, 'first_step')
        bad.update({'dest': 'pinp', 'etype': 'put', 'value': {'v': 'bad'}, 'extra': {}})
        body.insert(0, bad)
    return {'knobs': knobs, 'finalize': rng.random() < 0.3, 'after_failure': after_failure,
            'persist': persist,
            'task_kind': rng.choice(['main', 'main', 'vpoll']),
            'failinit_sets_output': rng.random() < 0.4, 'entry': entry, 'cause': cause, 'tphase': tphase,
            'async_init': async_init, 'cleanup': cleanup, 'relay_cls': relay_cls,
            'with_td': with_td, 'with_repeat': with_repeat,
            'reserved': [rng.choice(RESERVED_TRIES) for _ in range(rng.randint(0, 2))],
            'pre': pre, 'created': created, 'body': body, 'post': post}


# --------------------------------------------------------------------------- probe classes

class Rec(edzed.SBlock):
    """Recorder with a scripted handler result."""

    def init_regular(self):
        self.set_output(0)

    def _event(self, etype, data):
        script = self.x_ctx.rec_script
        self.x_ctx.rec_seen.append((etype, dict(data)))
        if script is not None and not script['used']:
            script['used'] = True
            if script.get('raise'):
                raise Injected('handler failure')
            return script['ret']
        return None


class Gate(edzed.FSM):
    STATES = ['a', 'b']
    EVENTS = [['go', ['a'], 'b'], ['back', ['b'], 'a']]


class Trig(edzed.SBlock):
    def init_regular(self):
        self.set_output(0)

    def _event_fire(self, *, which, **_data):
        self.x_events[which].send(self, error='requested')
        return 'fired'


class InitProbe(edzed.AddonAsync, edzed.SBlock):
    def init_regular(self):
        if not self.is_initialized():
            self.set_output('regular')

    async def init_async(self):
        spec = self.x_spec
        await asyncio.sleep(spec['dur'] * 0.5)
        self.x_ctx.ext_send(spec['probe_send'])
        await asyncio.sleep(spec['dur'] * 0.5)
        if not self.is_initialized():
            self.set_output('async')


class CleanProbe(edzed.AddonAsync, edzed.SBlock):
    def init_regular(self):
        self.set_output(0)

    def stop(self):
        spec = self.x_spec
        # stop() is only called by the simulator's clean-up: the circuit is shutting down
        self.x_ctx.in_cleanup = True
        self.x_ctx.lenient = False
        self.x_ctx.stopped = True
        if spec.get('stop_send'):
            self.x_ctx.ext_send(spec['stop_send'])
        super().stop()

    async def stop_async(self):
        spec = self.x_spec
        sends = spec.get('async_sends', [])
        if sends:
            self.x_ctx.ext_send(sends[0])
        await asyncio.sleep(spec['dur'])
        for s in sends[1:]:
            self.x_ctx.ext_send(s)


def relay_put(self, *, value, **_data):
    self.set_output(value)
    return ['relayed', value]


def relay_init(self):
    self.set_output('r0')


class FailInit(edzed.SBlock):
    """A block whose initialisation fails: the simulation stops by itself."""

    def init_regular(self):
        if self.x_set_first:
            self.set_output('half')     # the output is set, the routine fails nevertheless
        self.x_ctx.failure()
        raise Injected('init failure')

    def _event_put(self, *, value, **_data):
        self.set_output(value)
        return 'stored'


class TaskProbe(edzed.AddonMainTask, edzed.SBlock):
    """A block whose own (monitored service) task fails on request."""

    def init_regular(self):
        self.set_output(0)

    async def _maintask(self):
        ctx = self.x_ctx
        await ctx.task_fail.wait()
        ctx.failure()       # the block's task is failing right now
        raise Injected('main task failure')


def make_boom_func(ctx):
    def boom_func(x):
        if x == 'BOOM':
            ctx.failure()
            raise Injected('calc failure')
        return x
    return boom_func


def mark(source):
    return source if source.startswith('_ext_') else '_ext_' + source


# --------------------------------------------------------------------------- context

class Ctx:
    def __init__(self, run, plan):
        self.run = run
        self.plan = plan
        self.circuit = edzed.get_circuit()
        self.blocks = {}
        self.pre_events = {}
        # model of the lifecycle
        self.started = False
        self.stopped = False
        self.lenient = False
        self.deferred_error = None
        self.task_fail = asyncio.Event()
        self.cause_done = False
        self.in_cleanup = False
        # observation
        self.cur = []               # stack of ext sends in progress
        self.rec_script = None
        self.rec_seen = []
        self.n_send = 0
        self.n_exp = {'deliver': 0, 'refuse': 0, 'either': 0}
        # models of the destinations
        self.cnt = 0
        self.fsm = 'a'
        self.auto_names = {}
        self.uniq = 0

    # ---- what the property demands now
    def expect(self):
        err = self.circuit.error
        if not self.started:
            return 'refuse'
        if self.stopped:
            return 'refuse'
        if self.lenient:
            self.run.fired('reach:lenient_window')
            return 'refuse' if err is not None else 'either'
        return 'deliver'

    # ---- the simulation task is failing right now (called by scripted user code that
    # raises inside the simulation task): from this moment the simulation is stopped
    def failure(self):
        self.stopped = True
        self.lenient = False
        self.run.fired('reach:self_stop')
        for item in self.plan.get('after_failure', []):
            self.run.loop.call_soon(self._hop, item, int(item.get('hops', 0)))

    def _hop(self, item, hops):
        if hops > 0:
            self.run.loop.call_soon(self._hop, item, hops - 1)
            return
        try:
            self.ext_send(item['send'])
        except PlanError as err:
            self.deferred_error = err
        except (KeyError, TypeError) as err:
            self.deferred_error = PlanError(f"bad after_failure item: {err!r}")

    # ---- observation of deliveries (hook on every destination block)
    def hook(self, phase, blk, etype, arg):
        if phase != 'pre':
            return
        run = self.run
        if self.cur and self.cur[-1]['dest'] is blk and self.cur[-1]['top'] is None:
            self.cur[-1]['top'] = (etype, dict(arg))
            return
        if self.cur:
            self.cur[-1]['nested'] += 1
        source = arg.get('source')
        run.log('internal', blk.name, canon(etype), canon(arg))
        if isinstance(source, str) and source.startswith('_ext_'):
            auto = f"_{self.plan['relay_cls']}_"
            if source.startswith(auto) and self.plan['relay_cls'] in FORGING:
                run.violate('C14/external-mark-forged/auto-name-of-class-ext',
                            f"internal event {canon(etype)} from the auto-named block {source!r} "
                            f"(user class {self.plan['relay_cls']!r}, name=None) reached "
                            f"{blk.name} with a 'source' carrying the external mark")
            else:
                run.violate('C14/external-mark-forged/internal-event',
                            f"internal event {canon(etype)} to {blk.name} carries source "
                            f"{source!r}")
            return
        if isinstance(source, str):
            names = {b.name for b in self.circuit.getblocks()}
            if source not in names:
                run.violate('C14/internal-source-unknown',
                            f"internal event {canon(etype)} to {blk.name}: source {source!r} is "
                            "not a block name")
            elif source == 'inp' or source == 'n1':
                run.fired('reach:internal_user_named')
            elif source.startswith('_Repeat_'):
                run.fired('reach:internal_repeat')
            elif source.startswith('_TimeDate_'):
                run.fired('reach:internal_timedate')
            elif source.startswith('_Input_'):
                run.fired('reach:internal_auto_named')
            elif source.startswith(f"_{self.plan['relay_cls']}_") or source.startswith('_blk_'):
                run.fired('reach:internal_generated_class')

    # ---- one ExtEvent.send() call, judged
    def ext_send(self, spec):
        run = self.run
        phase = spec.get('phase', '?')
        cause = self.plan['cause']
        site = f"{phase}:{cause}" if phase in ('aborting', 'cleanup_driver', 'cleanup_stop',
                                               'cleanup_async', 'after_failure') else phase
        dest_name = spec['dest']
        dest = self.blocks.get(dest_name)
        if dest is None:
            raise PlanError(f"no destination {dest_name}")
        self.n_send += 1
        n = self.n_send
        exp = self.expect()
        run.fired(f"reach:phase_{phase}")
        # --- arguments
        kwargs = {k: v for k, v in spec.get('extra', {}).items()}
        has_value = spec.get('value') is not None
        value = spec['value']['v'] if has_value else None
        if has_value and dest_name in ('inp', 'pinp', 'auto', 'relay') and value not in ('bad',):
            # make every accepted put an output change (-> internal events)
            if isinstance(value, str) and value and not spec.get('raw'):
                self.uniq += 1
                value = f"{value}{self.uniq}"
        src_given = spec.get('source')
        if src_given is not None:
            kwargs['source'] = src_given['s']
        dsrc = spec.get('dsrc')
        etype = spec['etype']
        try:
            key = None
            if spec.get('pre'):
                key = (dest_name, etype, dsrc['s'] if dsrc else None, bool(spec.get('byname')))
            ev = self.pre_events.get(key) if key else None
            if ev is None:
                target = dest.name if spec.get('byname') else dest
                if dsrc is not None:
                    ev = edzed.ExtEvent(target, etype, source=dsrc['s'])
                else:
                    ev = edzed.ExtEvent(target, etype)
        except Exception as err:    # pylint: disable=broad-except
            raise PlanError(f"ExtEvent construction failed: {err!r}") from None
        # --- expected data
        nonstring = src_given is not None and not isinstance(src_given['s'], str)
        if src_given is not None and not nonstring:
            exp_source = mark(src_given['s'])
            run.fired('reach:source_given_prefixed' if src_given['s'].startswith('_ext_')
                      else 'reach:source_given_plain')
            if src_given['s'] in ODD_SOURCES:
                run.fired('reach:source_odd')
        elif dsrc is not None:
            exp_source = mark(dsrc['s'])
            run.fired('reach:ctor_source')
        else:
            exp_source = '_ext_'
            run.fired('reach:default_source')
        exp_data = dict(kwargs)
        exp_data['source'] = exp_source
        if has_value:
            exp_data['value'] = value
            if not value:
                run.fired('reach:falsy_value')
        if nonstring:
            run.fired('reach:nonstring_source')
        # --- the call
        frame = {'dest': dest, 'top': None, 'nested': 0}
        self.cur.append(frame)
        if dest_name == 'rec':
            self.rec_script = {'ret': spec.get('ret'), 'raise': spec.get('raise'), 'used': False}
        rec_before = len(self.rec_seen)
        was_init = dest.is_initialized()
        try:
            if has_value and not spec.get('value_kw'):
                res = ev.send(value, **kwargs)
            elif has_value:
                res = ev.send(value=value, **kwargs)
            else:
                res = ev.send(**kwargs)
            outcome = 'returned'
        except edzed.EdzedInvalidState as err:
            res, outcome = err, 'refused'
        except Exception as err:    # pylint: disable=broad-except
            res, outcome = err, 'raised'
        finally:
            self.cur.pop()
            self.rec_script = None
        top = frame['top']
        delivered = top is not None
        run.log('ext', n, phase, dest_name, canon(etype), canon(kwargs),
                canon(value) if has_value else '<none>', exp, outcome, canon(res),
                canon(top), frame['nested'])
        shape = [has_value and not spec.get('value_kw'), has_value,
                 'abs' if src_given is None else ('ns' if nonstring else
                                                  ('pre' if src_given['s'].startswith('_ext_') else 'plain')),
                 dsrc is not None, len(spec.get('extra', {}))]
        run.beh(phase, dest_name, exp, outcome, delivered, shape)
        self.n_exp[exp] += 1

        class Label:
            def __format__(self, _spec):
                return (f"send #{n} in phase {site} to {dest_name} ({canon(etype)}, value="
                        f"{canon(value) if has_value else '<none>'}, data {canon(kwargs)}, "
                        f"default source {canon(dsrc['s']) if dsrc else '<default>'})")
        label = Label()
        # --- non-string source: outside the quantifier
        if nonstring:
            if delivered:
                s = top[1].get('source')
                if not (isinstance(s, str) and s.startswith('_ext_')):
                    run.violate('C14/external-mark-missing/nonstring-source',
                                f"{label}: delivered with source {canon(s)}")
                if exp == 'refuse':
                    run.violate(f"C14/delivered-when-not-running/{site}",
                                f"{label}: delivered although the circuit is not running")
                self.model_delivery(dest_name, etype, top[1], spec)
            return
        # --- not running
        if exp == 'refuse' or (exp == 'either' and not delivered):
            if delivered:
                run.violate(f"C14/delivered-when-not-running/{site}",
                            f"{label}: the event was delivered ({canon(top)}) and send() "
                            f"{outcome} {canon(res)} although the circuit is not running "
                            f"(started={self.started}, stopped={self.stopped}, "
                            f"error={canon(self.circuit.error)})")
                self.model_delivery(dest_name, etype, top[1], spec)
                return
            if outcome != 'refused':
                run.violate(f"C14/no-invalid-state-error/{site}",
                            f"{label}: not running, expected EdzedInvalidState, send() {outcome} "
                            f"{canon(res)}")
            if frame['nested'] or len(self.rec_seen) != rec_before:
                run.violate(f"C14/something-recorded-on-refusal/{site}",
                            f"{label}: refused, but blocks received events")
            else:
                run.fired('reach:refused_then_nothing_recorded')
            return
        # --- running
        if not delivered:
            run.violate(f"C14/refused-while-running/{site}",
                        f"{label}: the circuit is running (started, no stop requested, error="
                        f"{canon(self.circuit.error)}), send() {outcome} {canon(res)} and nothing "
                        "was delivered")
            return
        if not was_init:
            run.fired('reach:uninitialised_dest')
        if top[0] != etype:
            run.violate('C14/wrong-event-type', f"{label}: delivered as {canon(top[0])}")
        got = top[1]
        if got != exp_data or canon(got) != canon(exp_data):
            gs, es = got.get('source'), exp_data['source']
            if not (isinstance(gs, str) and gs.startswith('_ext_')):
                sig = 'C14/external-mark-missing/' + (
                    'given-source' if src_given is not None else
                    'constructor-source' if dsrc is not None else 'default-source')
            elif gs != es:
                sig = 'C14/wrong-data/source'
            elif ('value' in got) != ('value' in exp_data) or got.get('value') != exp_data.get('value'):
                sig = 'C14/wrong-data/value'
            else:
                sig = 'C14/wrong-data/other-items'
            run.violate(sig, f"{label}: the destination received {canon(got)}, expected "
                             f"{canon(exp_data)}")
        exp_res = self.model_delivery(dest_name, etype, got, spec)
        if spec.get('raise_init'):
            run.fired('reach:early_init_error')
            if outcome != 'raised' or not isinstance(res, Injected):
                run.violate('C14/init-exception-lost',
                            f"{label}: the forced early initialisation raised, send() {outcome} "
                            f"{canon(res)}")
            return
        if spec.get('raise') and dest_name == 'rec':
            run.fired('reach:handler_error')
            if outcome != 'raised' or not isinstance(res, Injected):
                run.violate('C14/handler-exception-lost',
                            f"{label}: the handler raised, send() {outcome} {canon(res)}")
            return
        if outcome != 'returned':
            run.violate(f"C14/unexpected-exception/{site}",
                        f"{label}: delivered, but send() {outcome} {canon(res)}")
            return
        if exp_res is not NotImplemented:
            same = res == exp_res and isinstance(res, bool) == isinstance(exp_res, bool)
            if exp_res is None or isinstance(exp_res, bool):
                same = res is exp_res
            if not same:
                run.violate(f"C14/handler-result/{dest_name}",
                            f"{label}: send() returned {canon(res)}, the handler's result is "
                            f"{canon(exp_res)}")

    def model_delivery(self, dest_name, etype, data, spec):
        """Step the model of the destination; return the handler's result."""
        if dest_name == 'rec':
            return spec.get('ret')
        if dest_name in ('inp', 'pinp'):
            if 'value' not in data:
                return NotImplemented
            if dest_name == 'pinp' and data['value'] == 'bad' \
                    and not self.blocks['pinp'].is_initialized():
                self.run.fired('reach:rejected_value_uninitialised_persistent')
            return data['value'] != 'bad'
        if dest_name == 'auto':
            return True if 'value' in data else NotImplemented
        if dest_name == 'relay':
            return ['relayed', data['value']] if 'value' in data else NotImplemented
        if dest_name == 'cnt':
            amount = data.get('amount', 1)
            if etype == 'inc':
                self.cnt += amount
            elif etype == 'dec':
                self.cnt -= amount
            elif etype == 'put':
                if 'value' not in data:
                    return NotImplemented
                self.cnt = data['value']
            elif etype == 'reset':
                self.cnt = 0
            return self.cnt
        if dest_name == 'fsm':
            if etype == 'go' and self.fsm == 'a':
                self.fsm = 'b'
                return True
            if etype == 'back' and self.fsm == 'b':
                self.fsm = 'a'
                return True
            return False
        return NotImplemented


# --------------------------------------------------------------------------- execution

def build(ctx, plan):
    run = ctx.run
    blocks = ctx.blocks
    try:
        if plan.get('persist'):
            ctx.circuit.set_persistent_data({})
        rec = Rec('rec', x_ctx=ctx)
        blocks['rec'] = rec
        if plan.get('persist'):
            blocks['pinp'] = edzed.Input('pinp', persistent=True, check=lambda v: v != 'bad')
        inp_events = [edzed.Event(rec, 'from_inp')]
        if plan.get('with_repeat'):
            inp_events.append(edzed.Event('rec', 'rep', repeat=0.5, count=1))
        blocks['inp'] = edzed.Input('inp', check=lambda v: v != 'bad', initdef='i0',
                                    on_output=inp_events)
        blocks['cnt'] = edzed.Counter('cnt')
        blocks['fsm'] = Gate('fsm')
        blocks['auto'] = edzed.Input(None, initdef='a0', on_output=edzed.Event(rec, 'from_auto'))
        clsname = plan.get('relay_cls', 'Relay')
        if not isinstance(clsname, str) or not clsname.isidentifier():
            raise PlanError('bad class name')
        relay_class = type(clsname, (edzed.SBlock,),
                           {'_event_put': relay_put, 'init_regular': relay_init})
        blocks['relay'] = relay_class(None, on_every_output=edzed.Event(rec, 'from_relay'))
        edzed.Not('n1', on_output=edzed.Event(rec, 'from_not')).connect('_not_inp')
        edzed.FuncBlock('fb', func=make_boom_func(ctx)).connect('inp')
        if plan.get('with_td'):
            edzed.TimeDate(None, times=[[[22, 13, 22], [22, 13, 23]]],
                           on_output=edzed.Event(rec, 'from_td'))
        events = {'abort': edzed.Event.abort(),
                  'shutdown': (edzed.Event.shutdown() if hasattr(edzed.Event, 'shutdown')
                               else edzed.Event('_ctrl', 'shutdown'))}
        blocks['trig'] = Trig('trig', x_events=events)
        if plan.get('async_init'):
            InitProbe('iprobe', x_ctx=ctx, x_spec=plan['async_init'])
        CleanProbe('cprobe', x_ctx=ctx, x_spec=plan['cleanup'])
        if plan['cause'] in ('init_failure', 'early_init_error'):
            blocks['failinit'] = FailInit('failinit', x_ctx=ctx,
                                          x_set_first=bool(plan.get('failinit_sets_output')))
        if plan['cause'] == 'task_error':
            if plan.get('task_kind') == 'vpoll':
                def poll():
                    if ctx.task_fail.is_set():
                        ctx.failure()   # the block's polling task is failing right now
                        raise Injected('acquisition failure')
                    return 1
                edzed.ValuePoll('tprobe', func=poll, interval=0.25)
            else:
                TaskProbe('tprobe', x_ctx=ctx)
    except PlanError:
        raise
    except Exception as err:    # pylint: disable=broad-except
        raise PlanError(f"build failed: {type(err).__name__}: {err}") from None
    # user-defined blocks cannot have names beginning with an underscore
    for name in plan.get('reserved', []):
        try:
            edzed.Input(name, initdef=0)
        except ValueError:
            run.fired('reach:reserved_name_refused')
        except Exception as err:    # pylint: disable=broad-except
            run.log('reserved-other', name, err)
        else:
            run.violate('C14/reserved-name-accepted',
                        f"a user block could be created with the reserved name {name!r}")
    for name in ('rec', 'inp', 'pinp', 'cnt', 'fsm', 'auto', 'relay', 'failinit'):
        if name in blocks:
            fsmlib.hook_events(blocks[name], ctx.hook)
    # ExtEvent objects created before the start
    for part in ('pre', 'created', 'body', 'post'):
        for step in plan.get(part, []):
            if step.get('do') == 'send' and step.get('pre'):
                dsrc = step.get('dsrc')
                key = (step['dest'], step['etype'], dsrc['s'] if dsrc else None,
                       bool(step.get('byname')))
                if key in ctx.pre_events or step['dest'] not in blocks:
                    continue
                target = blocks[step['dest']].name if step.get('byname') else blocks[step['dest']]
                try:
                    if dsrc is not None:
                        ctx.pre_events[key] = edzed.ExtEvent(target, step['etype'], dsrc['s'])
                    else:
                        ctx.pre_events[key] = edzed.ExtEvent(target, step['etype'])
                except Exception as err:    # pylint: disable=broad-except
                    raise PlanError(f"ExtEvent construction failed: {err!r}") from None


def execute(plan, trace=False):
    run = Run(plan['knobs'])
    ctx = Ctx(run, plan)
    try:
        build(ctx, plan)
        circuit = ctx.circuit
        if plan.get('finalize'):
            # documented: "The completed circuit may be explicitly finalized"; that does not
            # start the simulation
            circuit.finalize()
            run.fired('reach:explicit_finalize')
        blocks = ctx.blocks
        entry = plan['entry']
        state = {'simtask': None, 'helpers': [], 'run_exc': None}

        def do_cause(cause):
            ctx.cause_done = True
            if cause == 'abort_before_start':
                run.fired('reach:abort_before_start')
                circuit.abort(Injected('abort before start'))
                ctx.stopped = True
            elif cause == 'abort':
                circuit.abort(Injected('abort'))
                ctx.stopped = True
            elif cause == 'shutdown_task':
                async def do_shutdown():
                    ctx.stopped = True      # shutdown() aborts before it yields
                    try:
                        await circuit.shutdown()
                    except Exception as err:    # pylint: disable=broad-except
                        run.log('shutdown-exc', err)
                # the helper task has not run yet: the circuit keeps running until it does
                state['helpers'].append(asyncio.ensure_future(do_shutdown()))
            elif cause in ('ctrl_shutdown', 'ctrl_abort'):
                res = edzed.ExtEvent(blocks['trig'], 'fire').send(
                    which='shutdown' if cause == 'ctrl_shutdown' else 'abort')
                if res != 'fired':
                    run.violate('C14/handler-result/trig', f"trigger returned {canon(res)}")
                ctx.stopped = True
            elif cause == 'ext_ctrl_shutdown':
                try:
                    res = edzed.ExtEvent('_ctrl', 'shutdown', 'operator').send()
                except Exception as err:    # pylint: disable=broad-except
                    run.violate('C14/refused-while-running/ext-to-_ctrl',
                                f"external shutdown event to '_ctrl' failed: {canon(err)}")
                    res = None
                    circuit.abort(Injected('fallback'))
                if res is not None:
                    run.violate('C14/handler-result/_ctrl', f"'_ctrl' returned {canon(res)}")
                ctx.stopped = True
            elif cause == 'handler_error':
                ctx.ext_send({'do': 'send', 'phase': 'running', 'dest': 'rec', 'etype': 'ev',
                              'raise': True, 'extra': {}, 'source': None, 'dsrc': None})
                ctx.stopped = True
            elif cause == 'cancel_task':
                if state['simtask'] is None:
                    raise PlanError('no task to cancel')
                state['simtask'].cancel()
                ctx.lenient = True
                # a fully initialised simulation is idle in its queue.get(): it receives the
                # cancellation in its very next step, i.e. before a task that yields now
                # (FIFO ready queue) is resumed
                state['cancel_strict'] = bool(state.get('init_done'))
                state['cancel_at'] = run.now()
            elif cause == 'calc_error':
                # delivered while running; the CBlock fails when the simulator task runs next
                # (the failing function itself tells the model, see Ctx.failure)
                ctx.ext_send({'do': 'send', 'phase': 'running', 'dest': 'inp', 'etype': 'put',
                              'value': {'v': 'BOOM'}, 'raw': True, 'extra': {}, 'source': None, 'dsrc': None})
            elif cause == 'init_failure':
                pass        # happened by itself (FailInit.init_regular tells the model)
            elif cause == 'early_init_error':
                # an external event to a block that is not initialised yet forces its
                # initialisation, which fails: an error in an init routine stops the simulation
                if 'failinit' not in blocks:
                    raise PlanError('no failinit block')
                if blocks['failinit'].init_steps_completed in (0, 1):
                    ctx.ext_send({'do': 'send', 'phase': 'aborting', 'dest': 'failinit',
                                  'etype': 'put', 'value': {'v': 'x'}, 'raise_init': True,
                                  'extra': {}, 'source': None, 'dsrc': None})
            elif cause == 'task_error':
                # the block's task wakes up and fails in its next step (Ctx.failure)
                run.fired('reach:task_error_' + str(plan.get('task_kind', 'main')))
                ctx.task_fail.set()
            elif cause == 'sigterm':
                handler = signal.getsignal(signal.SIGTERM)
                if not callable(handler):
                    raise PlanError('no SIGTERM handler installed')
                run.fired('reach:sigterm')
                handler(signal.SIGTERM, None)
                # the handler hands abort() over with call_soon_threadsafe; our own
                # callback is queued right behind it
                ctx.lenient = True

                def noticed():
                    ctx.lenient = False
                    ctx.stopped = True
                run.loop.call_soon(noticed)
            elif cause == 'eager_start':
                pass        # the start itself failed (see main)
            elif cause == 'shutdown_await':
                pass        # handled by the interpreter (needs await)
            elif cause in ('sup_return', 'sup_raise'):
                pass        # handled by the interpreter
            else:
                raise PlanError(f"unknown cause {cause}")
            if plan.get('tphase') == 'async_init' and plan.get('async_init'):
                run.fired('reach:term_during_async_init')

        class Leave(Exception):
            pass

        def ensure_pinp():
            # before the driver lets the simulation task run: the persistent Input without
            # initdef needs a valid value, otherwise the initialisation fails by itself
            blk = blocks.get('pinp')
            if blk is not None and ctx.started and not ctx.stopped and not ctx.lenient \
                    and not blk.is_initialized():
                ctx.ext_send({'do': 'send', 'phase': 'first_step', 'dest': 'pinp', 'etype': 'put',
                              'value': {'v': 'p'}, 'extra': {}, 'source': None, 'dsrc': None})

        async def interpret(steps, in_sup=False):
            for step in steps:
                do = step.get('do')
                if do != 'send':
                    ensure_pinp()
                if do == 'send':
                    ctx.ext_send(step)
                elif do == 'yield':
                    await asyncio.sleep(0)
                    if state.pop('cancel_strict', False):
                        run.fired('reach:cancel_noticed_after_yield')
                        ctx.lenient = False
                        ctx.stopped = True
                elif do == 'sleep':
                    await asyncio.sleep(max(0.0, float(step.get('t', 0))))
                    if 'cancel_at' in state and run.now() > state['cancel_at']:
                        # the loop went idle in between: the CancelledError has made its way
                        # through whatever the simulation task was awaiting
                        del state['cancel_at']
                        run.fired('reach:cancel_noticed_after_sleep')
                        ctx.lenient = False
                        ctx.stopped = True
                    if ctx.lenient and state['simtask'] is not None and state['simtask'].done():
                        ctx.lenient = False
                        ctx.stopped = True
                elif do == 'wait_init':
                    try:
                        await circuit.wait_init()
                        state['init_done'] = True
                    except edzed.EdzedInvalidState as err:
                        run.log('wait_init', err)
                    except AttributeError as err:
                        # wait_init() after a start that failed before the circuit created
                        # its '_init_done' event (abort() before the start): not C14's business
                        run.log('wait_init', err)
                        run.fired('wait_init_attribute_error')
                elif do == 'cause':
                    cause = step['cause']
                    if cause == 'shutdown_await':
                        ctx.stopped = True      # shutdown() aborts before it yields
                        try:
                            await circuit.shutdown()
                        except Exception as err:    # pylint: disable=broad-except
                            run.log('shutdown-exc', err)
                    elif cause in ('sup_return', 'sup_raise') and in_sup:
                        # run() notices the end of the supporting task and aborts the
                        # simulation a little later: until then the circuit is running
                        ctx.lenient = True
                        if cause == 'sup_return':
                            raise Leave()
                        raise Injected('supporting task failed')
                    else:
                        do_cause(cause)
                else:
                    raise PlanError(f"bad step {do}")

        async def main():
            await interpret(plan.get('pre', []))
            if entry == 'rf':
                if plan['cause'] == 'eager_start':
                    # the application's loop uses eager tasks: the start is refused with a
                    # RuntimeError (which the application catches); the circuit never started
                    run.fired('reach:eager_start')
                    run.loop.set_task_factory(asyncio.eager_task_factory)
                    try:
                        simtask = run.loop.create_task(circuit.run_forever())
                    finally:
                        run.loop.set_task_factory(None)
                    ctx.stopped = True
                    if not simtask.done() or simtask.cancelled() \
                            or not isinstance(simtask.exception(), RuntimeError):
                        run.log('eager-start', 'not refused')
                        run.fired('eager_start_not_refused')
                else:
                    simtask = asyncio.ensure_future(circuit.run_forever())
                state['simtask'] = simtask
                await interpret(plan.get('created', []))
                await asyncio.sleep(0)
                # the simulation task has executed its first step
                ctx.started = True
                if circuit.error is not None and not ctx.stopped:
                    ctx.stopped = True      # e.g. a shrunk plan with a broken circuit
                try:
                    await interpret(plan.get('body', []))
                except Leave:
                    pass
                if not simtask.done() and not ctx.stopped and not ctx.lenient:
                    # a plan without an effective cause: stop now
                    ctx.stopped = True
                    circuit.abort(asyncio.CancelledError('end of script'))
                # a stop was requested or happened: the simulation must come to an end
                # (clean-up is bounded by the stop_timeouts, 10 s here)
                for attempt in range(3):
                    await asyncio.wait([simtask], timeout=60.0)
                    if simtask.done():
                        break
                    if attempt == 0:
                        run.violate(f"C14/stop-never-completed/{plan['cause']}",
                                    f"60 s after the stop ({plan['cause']} in phase "
                                    f"{plan.get('tphase')}) the simulation task is still "
                                    f"running, is_ready()={circuit.is_ready()}, "
                                    f"error={canon(circuit.error)}")
                        circuit.abort(asyncio.CancelledError('forced end'))
                    else:
                        simtask.cancel()
                if simtask.done():
                    run.log('simtask',
                            simtask.exception() if not simtask.cancelled() else 'cancelled')
                else:
                    run.log('simtask', 'never ended')
            else:
                run.fired('reach:entry_run')

                async def sup():
                    ctx.started = True
                    try:
                        await interpret(plan.get('body', []), in_sup=True)
                    except Leave:
                        return
                    # stay alive while the circuit stops
                    await asyncio.sleep(1000.0)

                if ctx.stopped:
                    # abort() before the start: run() fails at once; the supporting coroutine
                    # is never started
                    coro = sup()
                    try:
                        await edzed.run(coro)
                    except BaseException as err:    # pylint: disable=broad-except
                        state['run_exc'] = err
                    coro.close()
                else:
                    try:
                        await edzed.run(sup())
                    except BaseException as err:    # pylint: disable=broad-except
                        state['run_exc'] = err
                run.log('run-ended', state['run_exc'])
            ctx.stopped = True
            ctx.lenient = False
            await interpret(plan.get('post', []))
            for h in state['helpers']:
                if not h.done():
                    h.cancel()

        run.run(main())
        if ctx.deferred_error is not None:
            raise ctx.deferred_error
        if run.main_exc is not None:
            if isinstance(run.main_exc, PlanError):
                raise run.main_exc
            run.harness_error = run.harness_error or f"main failed: {run.main_exc!r}"
        # ---- the statement about all block names
        for blk in circuit.getblocks():
            if blk.name.startswith('_ext_'):
                if plan.get('relay_cls') in FORGING and blk.name.startswith(f"_{plan['relay_cls']}_"):
                    run.violate('C14/external-mark-forged/auto-name-of-class-ext',
                                f"the auto-generated name {blk.name!r} of a block of the user "
                                f"class {plan['relay_cls']!r} begins with '_ext_'")
                else:
                    run.violate('C14/external-mark-forged/block-name',
                                f"a block is called {blk.name!r}")
        run.run_more(2.0)
        res = run.result()
        if not (ctx.n_exp['deliver'] and ctx.n_exp['refuse']):
            res['behaviour'] = None
        elif res['behaviour']:
            res['behaviour'] += f"{plan['entry']}:{plan['cause']}"
        if trace:
            res['trace'] = run.trace
        return res
    finally:
        run.close()
