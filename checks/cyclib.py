"""
Helpers of the C10 check: plan format, generator and the reference analysis of small boolean
networks (written from the documentation, no edzed code is used or imported here).

Plan format (everything is referenced by *name*, so that the minimiser may delete list
entries freely; a dangling reference is a PlanError):

  srcs   [{'name': 's0', 'init': bool}]           Inputs driven by the test driver; optional
                                                  'picky': 'T'|'F'|'both' = the source has an
                                                  on_output event to a second Input 's0p' whose
                                                  type is unknown to it when the new value is
                                                  True / False / always (EdzedUnknownEvent is
                                                  documented as non-fatal: the put changes the
                                                  output, the caller gets the exception)
  evin   [{'name': 'x0', 'from': 'b2', 'inv': bool, 'init': bool, 'hop': bool}]
                                                  Input fed by on_output 'put' events of the
                                                  CBlock 'from' (inv: an event filter negates
                                                  the value; hop: the event goes through a
                                                  second Input 'x0h' that forwards it)
  blocks [{'name': 'b0', 'op': 'not'|'id'|'and'|'xor', 'ins': [...]}]     in creation order;
         an input is a block name, a literal true/false (edzed wraps it in a Const) or
         {'const': bool} (an explicit edzed.Const object); a block may have constants only;
         optional 'stop': {'ev': 'shutdown'|'abort', 'when': 'rise'|'rise_nu'|'fall'|'any'|'all',
         'first': bool} = an on_output event to the control block '_ctrl' that requests the end
         of the simulation from inside an evaluation round (filtered by Edge / not_from_undef)
  ops    [{'puts': [[src, bool], ...]}]           one burst of external 'put' events each, all
                                                  sent without yielding (1-16 puts)

Documented semantics used by the model:
  Not = logical negation of its single input, And = all inputs true, Xor = odd number of true
  inputs, identity FuncBlock = its input; an on_output event is sent on every output change and
  Input stores the value that was 'put'; "the simulator computes block outputs when any of the
  inputs changes" (simulation.rst) -> a block is evaluated at most once per change of one of
  its input blocks (plus once at start, when every block has to get its first output).
  External events are delivered synchronously and the simulator is an asyncio task: k changes
  made to a source in one instant (k puts without yielding to the event loop) are over before
  the simulator runs, it sees the final value only. They are therefore ONE change of that
  source for the settle round that follows (the queue may name the block k times, the set of
  blocks to evaluate holds each block once) - also when the burst ends in the initial value.
  The path bound below counts a changed source once per burst, whatever the number of puts.
"""

from __future__ import annotations

OPS = ('not', 'id', 'and', 'xor')

STOP_WHEN = ('rise', 'rise_nu', 'fall', 'any', 'all')

# internal names of constant inputs: literal / explicit Const object, value
CONST_NAMES = {'#T': True, '#F': False, '#CT': True, '#CF': False}


def norm_input(i):
    """Plan input -> block name or one of CONST_NAMES."""
    if isinstance(i, bool):
        return '#T' if i else '#F'
    if isinstance(i, dict):
        if set(i) != {'const'} or not isinstance(i['const'], bool):
            raise NetError(f"malformed constant input {i!r}")
        return '#CT' if i['const'] else '#CF'
    if isinstance(i, str) and i and not i.startswith('#'):
        return i
    raise NetError(f"malformed input {i!r}")


def is_const(i):
    return i in CONST_NAMES


class NetError(Exception):
    """Plan does not describe a network."""


def apply_op(op, vals):
    """The documented function of a block on boolean input values."""
    if op == 'not':
        return not vals[0]
    if op == 'id':
        return vals[0]
    if op == 'and':
        return all(vals)
    if op == 'xor':
        return bool(sum(1 for v in vals if v) % 2)
    raise NetError(f"unknown op {op!r}")


class Net:
    """Static analysis of the network described by a plan."""

    def __init__(self, plan):
        try:
            self.srcs = [(s['name'], bool(s['init'])) for s in plan['srcs']]
            self.evin = [dict(name=e['name'], frm=e['from'], inv=bool(e.get('inv')),
                              init=bool(e.get('init')), hop=bool(e.get('hop')))
                         for e in plan.get('evin', [])]
            self.blocks = [(b['name'], b['op'], [norm_input(i) for i in b['ins']])
                           for b in plan['blocks']]
            self.picky = {s['name']: s['picky'] for s in plan['srcs'] if s.get('picky')}
            self.stops = {b['name']: (b['stop']['ev'], b['stop']['when'],
                                      bool(b['stop'].get('first')))
                          for b in plan['blocks'] if b.get('stop')}
        except (KeyError, TypeError, ValueError) as err:
            raise NetError(f"malformed plan: {err!r}") from None
        if any(v not in ('T', 'F', 'both') for v in self.picky.values()):
            raise NetError("malformed picky source")
        if any(ev not in ('shutdown', 'abort') or when not in STOP_WHEN
               for ev, when, _f in self.stops.values()):
            raise NetError("malformed stop request")
        self.src_names = [s[0] for s in self.srcs]
        self.blk_names = [b[0] for b in self.blocks]
        self.ev_names = [e['name'] for e in self.evin]
        names = self.src_names + self.blk_names + self.ev_names
        names += [e['name'] + 'h' for e in self.evin if e['hop']]
        names += [n + 'p' for n in self.picky]
        if len(set(names)) != len(names) or not all(
                isinstance(n, str) and n and not n.startswith('#') for n in names):
            raise NetError("names not unique")
        if not self.blocks:
            raise NetError("no blocks")
        if len(self.blocks) > 14:
            raise NetError("too many blocks for the brute force analysis")
        self.bidx = {n: i for i, n in enumerate(self.blk_names)}
        self.evmap = {e['name']: e for e in self.evin}
        for e in self.evin:
            if e['frm'] not in self.bidx:
                raise NetError(f"event input {e['name']} fed by a missing block")
        known = set(self.src_names) | set(self.blk_names) | set(self.ev_names)
        for name, op, ins in self.blocks:
            if op not in OPS:
                raise NetError(f"unknown op {op!r}")
            if not ins or (op in ('not', 'id') and len(ins) != 1):
                raise NetError(f"{name}: wrong number of inputs")
            for i in ins:
                if i not in known and i not in CONST_NAMES:
                    raise NetError(f"{name}: input {i!r} missing")
        for op in plan.get('ops', []):
            for put in op['puts']:
                if put[0] not in self.src_names:
                    raise NetError("put to a missing source")
        # compiled inputs: ('s', src name) | ('b', block index, inverted?)
        self.cins = []
        for name, op, ins in self.blocks:
            row = []
            for i in ins:
                if i in CONST_NAMES:
                    row.append(('c', CONST_NAMES[i], False))
                elif i in self.bidx:
                    row.append(('b', self.bidx[i], False))
                elif i in self.evmap:
                    e = self.evmap[i]
                    row.append(('b', self.bidx[e['frm']], e['inv']))
                else:
                    row.append(('s', i, False))
            self.cins.append(row)
        self.nblk = len(self.blocks)
        # every block of the circuit; '_ctrl' is created automatically when it is referenced
        self.nall = len(names) + (1 if self.stops else 0)
        # block -> block edges; direct ones and those that go through an event
        self.pred_direct = [sorted({c[1] for c, i in zip(row, ins) if c[0] == 'b' and i in self.bidx})
                            for row, (_n, _o, ins) in zip(self.cins, self.blocks)]
        self.pred_all = [sorted({c[1] for c in row if c[0] == 'b'}) for row in self.cins]
        self.topo = self._toposort(self.pred_all)
        self.acyclic = self.topo is not None
        self.acyclic_direct = self._toposort(self.pred_direct) is not None
        self.const_only = [n for n, _o, ins in self.blocks if all(is_const(i) for i in ins)]
        self.has_const = any(is_const(i) for _n, _o, ins in self.blocks for i in ins)
        self.uses_event_edge = any(i in self.evmap for _n, _o, ins in self.blocks for i in ins)
        self._sat_cache = {}
        # number of blocks on the longest path (event edges included); 0 for a cyclic network
        self.depth = 0
        if self.acyclic:
            dep = [0] * self.nblk
            for k in self.topo:
                dep[k] = 1 + max((dep[p] for p in self.pred_all[k]), default=0)
            self.depth = max(dep)

    def _toposort(self, preds):
        """Topological order of the blocks or None when there is a cycle."""
        n = len(preds)
        state = [0] * n
        order = []
        for root in range(n):
            if state[root]:
                continue
            stack = [(root, iter(preds[root]))]
            state[root] = 1
            while stack:
                node, it = stack[-1]
                for p in it:
                    if state[p] == 1:
                        return None
                    if state[p] == 0:
                        state[p] = 1
                        stack.append((p, iter(preds[p])))
                        break
                else:
                    state[node] = 2
                    order.append(node)
                    stack.pop()
        return order

    # ---- consistent assignments ----
    def consistent(self, srcvals, bits):
        """Is the assignment (bit k = output of block k) a fixed point of every block?"""
        for k, (_name, op, _ins) in enumerate(self.blocks):
            vals = [srcvals[c[1]] if c[0] == 's' else c[1] if c[0] == 'c'
                    else bool(bits >> c[1] & 1) != c[2] for c in self.cins[k]]
            if apply_op(op, vals) != bool(bits >> k & 1):
                return False
        return True

    def find_consistent(self, srcvals):
        """Brute force: a consistent assignment (as int) for the given source values or None."""
        key = tuple(srcvals[s] for s in self.src_names)
        if key not in self._sat_cache:
            found = None
            if self.acyclic:
                # exactly one candidate: evaluate in topological order (no search needed)
                bits = 0
                for k in self.topo:
                    vals = [srcvals[c[1]] if c[0] == 's' else c[1] if c[0] == 'c'
                            else bool(bits >> c[1] & 1) != c[2] for c in self.cins[k]]
                    if apply_op(self.blocks[k][1], vals):
                        bits |= 1 << k
                candidates = [bits]
            else:
                candidates = range(1 << self.nblk)
            for bits in candidates:
                if self.consistent(srcvals, bits):
                    found = bits
                    break
            self._sat_cache[key] = found
        return self._sat_cache[key]

    # ---- evaluation bound of acyclic networks ----
    def path_bound(self, initial, changes):
        """
        Upper bound of the number of block evaluations in one burst of an acyclic network:
        sum over blocks of the number of paths from the changed sources (event edges
        included). Returns (total, per-block list) or None for a cyclic network.

        Start-up run: every block is pending and is evaluated once on its own account; it is
        evaluated again only for changes of an input block that happen AFTER its first
        evaluation. The simulator prefers blocks without pending direct predecessors (the
        mechanism this property is anchored to), and an acyclic network always has one, so a
        block is first evaluated after each of its input CBlocks has been evaluated at least
        once: of the b(P) evaluations of an input block P at most b(P)-1 can change it
        afterwards. An event-fed Input can change on every evaluation of its sender, whenever
        that happens. Hence  b(B) = 1 + sum_P (b(P) - 1) + sum_X b(sender(X)):  one evaluation
        per block in a network without event edges (a chain has one path to every block, a
        DAG is evaluated in dependency order), more only behind event edges.
        """
        if not self.acyclic:
            return None
        cnt = [0] * self.nblk
        if initial:
            for k in self.topo:
                total = 1
                for i in set(self.blocks[k][2]):
                    if i in self.bidx:
                        total += cnt[self.bidx[i]] - 1
                    elif i in self.evmap:
                        total += cnt[self.bidx[self.evmap[i]['frm']]]
                cnt[k] = total
            return sum(cnt), cnt
        for k in self.topo:
            nodes = set(self.blocks[k][2])      # distinct input blocks
            total = 0
            for i in nodes:
                if i in CONST_NAMES:
                    continue            # a constant never changes
                if i in self.bidx:
                    total += cnt[self.bidx[i]]
                elif i in self.evmap:
                    total += cnt[self.bidx[self.evmap[i]['frm']]]
                else:
                    total += 1 if changes.get(i, 0) else 0     # one settle round per burst
            cnt[k] = total
        return sum(cnt), cnt


# --------------------------------------------------------------------------------------
# generator
# --------------------------------------------------------------------------------------

def _reach(nblk, preds):
    """reach[i] = set of blocks reachable from block i (including i)."""
    succ = [[] for _ in range(nblk)]
    for k, ps in enumerate(preds):
        for p in ps:
            succ[p].append(k)
    out = []
    for i in range(nblk):
        seen = {i}
        todo = [i]
        while todo:
            n = todo.pop()
            for s in succ[n]:
                if s not in seen:
                    seen.add(s)
                    todo.append(s)
        out.append(seen)
    return out


def gen_net(rng, tier, index):
    """Random network; returns the plan fields srcs, evin, blocks, ops, kind."""
    r = rng.random()
    kind = 'cyclic' if r < 0.38 else 'evloop' if r < 0.68 else 'acyclic'
    if index < 1500:
        nblk = rng.randint(1, 3)
    elif tier == 'thorough' and rng.random() < 0.12:
        nblk = rng.randint(10, 11)
    else:
        nblk = rng.choice([1, 2, 3, 3, 4, 4, 5, 5, 6, 6, 7, 8, 9])
    # deep and narrow: a chain of 6-14 blocks with at most a few taps
    deep = kind == 'acyclic' and index >= 1500 and rng.random() < 0.2
    if deep:
        nblk = rng.randint(6, 14)
    nsrc = rng.choice([1, 1, 2, 2, 3])
    srcs = [{'name': f"s{i}", 'init': rng.random() < 0.5} for i in range(nsrc)]
    names = [f"b{i}" for i in range(nblk)]
    evin = []
    ev_avail = {}       # evin name -> index of the feeding block (forward edges of acyclic nets)
    if kind == 'acyclic' and nblk >= 2 and not deep and rng.random() < 0.45:
        for _ in range(rng.choice([1, 1, 2])):
            j = rng.randrange(nblk - 1)
            ename = f"x{len(evin)}"
            evin.append({'name': ename, 'from': names[j], 'inv': rng.random() < 0.3,
                         'init': rng.random() < 0.5, 'hop': rng.random() < 0.25})
            ev_avail[ename] = j
    dense = rng.random() < 0.5      # reconvergent fan-out wanted
    const_mode = rng.random() < 0.3     # constant inputs, blocks fed by constants only

    def rnd_const():
        v = rng.random() < 0.5
        return v if rng.random() < 0.7 else {'const': v}
    blocks = []
    if deep:
        # src -> n0 -> n1 -> ... : exactly one path to every block of the bare chain; a few
        # stages get a second input (a source, a constant, a block two or more stages back),
        # and the chain may pass through one event edge
        src = rng.choice(srcs)['name']
        prev = src
        taps = rng.choice([0, 0, 1, 2, 3])
        tap_at = set(rng.sample(range(nblk), taps))
        ev_at = rng.randrange(1, nblk) if rng.random() < 0.2 else None
        for k in range(nblk):
            if k == ev_at:
                evin.append({'name': 'x0', 'from': prev, 'inv': rng.random() < 0.3,
                             'init': rng.random() < 0.5, 'hop': rng.random() < 0.25})
                prev = 'x0'
            if k in tap_at:
                r = rng.random()
                tap = (rng.choice(srcs)['name'] if r < 0.5 or k < 2 else
                       rnd_const() if r < 0.65 else names[rng.randrange(k - 1)])
                ins = [prev, tap]
                rng.shuffle(ins)
                blocks.append({'name': names[k], 'op': rng.choice(['xor', 'and']), 'ins': ins})
            else:
                blocks.append({'name': names[k], 'op': rng.choice(['not', 'id']), 'ins': [prev]})
            prev = names[k]
    fan_shape = kind == 'acyclic' and not deep and nblk >= 4 and rng.random() < 0.3
    if fan_shape:
        # a source reaches k terminal blocks directly and through a chain of 2-3 blocks (or a
        # chain that ends in an event edge): few paths per block, but the terminals may be
        # evaluated before the chain has settled (glitches; evaluations exceed the block count)
        evin, ev_avail = [], {}
        depth = rng.choice([2, 2, 3]) if nblk >= 5 else 2
        src = rng.choice(srcs)['name']
        prev = src
        for k in range(depth):
            blocks.append({'name': names[k], 'op': rng.choice(['not', 'id', 'xor']), 'ins': [prev]})
            prev = names[k]
        if rng.random() < 0.4:
            evin.append({'name': 'x0', 'from': prev, 'inv': rng.random() < 0.3,
                         'init': rng.random() < 0.5, 'hop': rng.random() < 0.25})
            prev = 'x0'
        for k in range(depth, nblk):
            ins = [prev, src]
            if rng.random() < 0.2:
                ins.append(rng.choice([s['name'] for s in srcs]))
            rng.shuffle(ins)
            blocks.append({'name': names[k], 'op': rng.choice(['and', 'xor', 'xor']), 'ins': ins})
    ladder = kind == 'acyclic' and not (fan_shape or deep) and nblk >= 5 and rng.random() < 0.3
    if ladder:
        # reconvergent fan-in with unequal path lengths: a chain src -> c1 -> ... -> cm and one
        # or two blocks z tapping every other chain block (taps are not directly connected with
        # each other) and the source. Few paths in total (<= 2 per block on average), but z has
        # 3-5 of them and may be evaluated once per tap when the set order is unlucky.
        evin, ev_avail = [], {}
        nz = 2 if nblk >= 7 and rng.random() < 0.4 else 1
        m = nblk - nz
        src = rng.choice(srcs)['name']
        prev = src
        for k in range(m):
            blocks.append({'name': names[k], 'op': rng.choice(['not', 'id']), 'ins': [prev]})
            prev = names[k]
        for z in range(nz):
            ins = [names[k] for k in range(1 + rng.randrange(2), m, 2)]
            if rng.random() < 0.7:
                ins.append(src)
            rng.shuffle(ins)
            blocks.append({'name': names[m + z], 'op': rng.choice(['xor', 'xor', 'and']),
                           'ins': ins})
    for k in range(0 if fan_shape or ladder or deep else nblk):
        op = rng.choice(['not', 'id', 'and', 'and', 'xor', 'xor'] if dense
                        else ['not', 'not', 'id', 'and', 'xor'])
        fan = 1 if op in ('not', 'id') else rng.choice([1, 2, 2, 3] if not dense else [2, 2, 3, 3])
        cands = [s['name'] for s in srcs] + names[:k] + [e for e, j in ev_avail.items() if j < k]
        ins = []
        for n in range(fan):
            if const_mode and rng.random() < 0.15:
                ins.append(rnd_const())
            elif k and n == 0 and rng.random() < 0.6:
                ins.append(names[k - 1])            # long paths
            elif k and dense and rng.random() < 0.5:
                ins.append(rng.choice(names[:k]))
            else:
                ins.append(rng.choice(cands))
        blocks.append({'name': names[k], 'op': op, 'ins': ins})
    # every forward event input gets at least one consumer
    for ename, j in ev_avail.items():
        if not any(ename in b['ins'] for b in blocks):
            k = rng.randrange(j + 1, nblk)
            b = blocks[k]
            if b['op'] in ('not', 'id'):
                b['ins'] = [ename]
            else:
                b['ins'].append(ename)
    if const_mode:
        # blocks whose inputs are all constants (Not(False), And(True, True), identity of a
        # Const ...) feeding the rest of the network; terminals of the fan shape get an extra
        # constant input
        for _ in range(rng.choice([0, 1, 1, 2])):
            b = rng.choice(blocks)
            if any(i in ev_avail for i in b['ins'] if isinstance(i, str)):
                continue
            n = 1 if b['op'] in ('not', 'id') else rng.choice([1, 2, 2, 3])
            b['ins'] = [rnd_const() for _ in range(n)]
        for b in blocks:
            if b['op'] in ('and', 'xor') and len(b['ins']) < 4 and rng.random() < 0.1:
                b['ins'].append(rnd_const())
    if kind != 'acyclic':
        for _ in range(rng.choice([1, 1, 1, 2, 2, 3])):
            preds = [[names.index(i) for i in b['ins'] if i in names] for b in blocks]
            for e in evin:
                for k, b in enumerate(blocks):
                    if e['name'] in b['ins']:
                        preds[k].append(names.index(e['from']))
            reach = _reach(nblk, preds)
            pairs = [(i, j) for i in range(nblk) for j in reach[i]]
            if rng.random() < 0.15:
                i, j = rng.randrange(nblk), rng.randrange(nblk)     # maybe no cycle at all
            else:
                i, j = rng.choice(pairs)    # an edge j -> i closes a cycle (i reaches j)
            via_event = kind == 'evloop' and rng.random() < 0.75
            if via_event:
                ename = f"x{len(evin)}"
                evin.append({'name': ename, 'from': names[j], 'inv': rng.random() < 0.3,
                             'init': rng.random() < 0.5, 'hop': rng.random() < 0.25})
                ref = ename
            else:
                ref = names[j]
            b = blocks[i]
            if b['op'] in ('not', 'id'):
                b['ins'] = [ref]
            elif len(b['ins']) < 4 and rng.random() < 0.7:
                b['ins'].append(ref)
            else:
                b['ins'][rng.randrange(len(b['ins']))] = ref
    # a history of bursts
    cur = {s['name']: s['init'] for s in srcs}
    ops = []
    # long bursts matter most where the instability limit (a multiple of the number of
    # blocks) is low: small acyclic networks
    p_long = 0.4 if kind == 'acyclic' and nblk <= 3 else 0.2 if kind == 'acyclic' else 0.08
    for _ in range(rng.choice([1, 2, 2, 3, 3, 4, 6, 12])):
        r = rng.random()
        puts = []
        if rng.random() < p_long:
            # 4-16 puts in one instant toggling one or a few sources; an even number of
            # toggles of a source ends in its initial value
            some = rng.sample([x['name'] for x in srcs], rng.choice([1, 1, 1, 2, nsrc]) if nsrc > 1
                              else 1)
            val = dict(cur)
            for _n in range(rng.randint(4, 16)):
                s = rng.choice(some)
                val[s] = not val[s]
                puts.append([s, val[s]])
        elif r < 0.62:
            s = rng.choice(srcs)['name']
            puts.append([s, not cur[s]])
        elif r < 0.82:
            for s in rng.sample([x['name'] for x in srcs], rng.randint(1, nsrc)):
                puts.append([s, not cur[s]])
        elif r < 0.92:
            s = rng.choice(srcs)['name']
            puts += [[s, not cur[s]], [s, cur[s]], [s, not cur[s]]]   # several changes, one burst
        else:
            s = rng.choice(srcs)['name']
            puts.append([s, cur[s]])        # no change at all
        for s, v in puts:
            cur[s] = v
        ops.append({'puts': puts})
    if rng.random() < 0.15:
        # an output event of a source is refused by its recipient for one or both values
        rng.choice(srcs)['picky'] = rng.choice(['T', 'T', 'F', 'F', 'both'])
    if rng.random() < 0.15:
        # a block asks '_ctrl' to end the simulation from inside an evaluation round
        rng.choice(blocks)['stop'] = {
            'ev': rng.choice(['shutdown', 'abort']),
            'when': rng.choice(['rise', 'rise_nu', 'rise_nu', 'fall', 'fall', 'any', 'any', 'all']),
            'first': rng.random() < 0.5}
    order = list(range(nblk))
    rng.shuffle(order)                      # creation order is independent of the topology
    return {'kind': kind, 'srcs': srcs, 'evin': evin, 'blocks': [blocks[k] for k in order],
            'ops': ops}
