"""
C06 - saved state always matches the last completed event and survives a restart.

One execute(plan) = one *history* (first run) followed by one *restart per crash point*:

 first run   a circuit of 1-4 persistent blocks (Input, Counter, generated timed FSM with sdata
             and entry actions, Timer, InputExp, TimeDate, TimeSpan; sync_state on/off;
             expiration None / <=0 / short / long; some not persistent) on a SimStorage that may
             already hold a previous stop time, reserved 'edzed-*' keys, one foreign key and
             states of an earlier run; 1-10 external events incl. rejected ones, unknown events,
             parameter errors and one failing handler; then a regular stop - or a failing
             start() / a failing initialisation (a never initialised block, or an init_regular()
             that raises so that the blocks created after it stay started-but-uninitialised)
             instead - or a termination around the first
             loop iteration after the start() calls (a block's start() calls circuit.abort(), a
             service task created by start() fails in its first step, abort()/shutdown/cancel
             by the application 0-2 loop iterations after create_task) with states of an
             earlier run in the storage.
 bystander   30 % of the stop / handler_fail histories contain a block whose stop_async takes
             0.1-2 s of virtual time; in 40 % of those the simulation task is cancelled a second
             time while that clean-up is in progress.
 clock step  in 25 % of the histories the system clock is stepped (+-1 s ... 1 h, seams.jump_wall)
             before one of the events or before the stop (fault clock_jump_fwd/back).
 interlock   a timed FSM (generated / Timer / InputExp) may have an on_output event (filtered
             to the first output, previous == UNDEF) to a relay block that synchronously sends
             an event back, unless the FSM is inside event() (normal initialisation): during
             a restoration the event arrives while the restored output is being set.
 restarts    for EVERY journal position k of the first run's storage (before the first write,
             after each save of the initialisation, of each event, of each timer event, of each
             single write of the stop sequence, after the stop timestamp) the same circuit
             (optionally without some blocks, with additional foreign / 'edzed-*' keys) is
             started from storage.snapshot(k) on a NEW virtual loop with another time origin and
             the wall clock advanced by a drawn downtime (absolute, or relative to the remaining
             timer / to the expiration). A restored timer that is due within 150 s is allowed to
             fire. All restarts are recorded into the first run's trace (one digest).

Oracle (models/persist_model.py, written from the documentation):
 first run   after every event that returned, after every timer event, after the
             initialisation, at every idle driver instant and right before the stop:
             storage[key] == get_state() for persistent sync_state blocks (FSM timers compared as
             absolute times); sync_state off: writes only at init and stop; not persistent: never;
             after a failing handler: no further write of that block; start-up failed (a start()
             call failed, or the simulation was terminated before the initialisation of any
             sequential block began): no write at all and no entry of a block deleted; regular stop: every persistent block saved with the state it had immediately
             before the stop, and a float 'edzed-stop-time' == the wall time at which the stop
             sequence saved the states (1 ms tolerance; not the time the clean-up ended) is written
             even when the clean-up is interrupted by a second cancellation (no order
             between them is demanded; a timer event handled during the asynchronous clean-up may
             save its block once more afterwards); every value ever written equals a state the
             block really had at an event boundary or at the moment of the write; at EVERY save
             of an FSM the saved expiry equals the absolute time, on the wall clock as it is at
             that moment (i.e. after a clock step), at which the block's pending loop timer will
             fire - taken from the loop's timer handle, not from get_state() - or None without a
             pending timer; entries saved before a clock step are compared in the clock of their
             save.
 restarts    per block the model's verdict for snapshot k: restored state (same FSM state, sdata
             and the same absolute timer deadline) and the corresponding output, no entry action
             and no on_enter event during the start; the timer then fires at the stored absolute
             time (not early, within latency); a timer that ran out during the downtime, an
             expired state (stop timestamp of the snapshot + expiration < now) or expiration <= 0
             -> normal initialisation (entry action and on_enter event present, fresh timer);
             with an interlock the restart must look like "restored, then the event handled as a
             normal event of the restored state" (the model steps the FSM: exit/entry actions of
             THAT transition run, old timer gone, fresh timer of the new state or none, on_enter
             of the state entered); exactly as many pending timer handles as the state says
             (0/1), and while the loop runs on the new timer is the first to fire / nothing fires;
             decisions that fall within 0.1 ms of the limit accept both outcomes; keys of removed
             blocks and foreign keys deleted, 'edzed-*' keys kept; after the start the storage
             again equals the states.
 faults      separate stratum (plan['fault']): storage write errors (one key, n writes, or the
             stop sequence), read errors and garbage entries at the restart. Only the relaxed rule
             is applied to the affected key: absent or a state the block really had.

Genuine defect found by this check (F22, meanwhile repaired in /repo; replay known/C06-fired-timer-saved-as-pending.json)
  C06/restore/valid-state-discarded/fired-timer-saved-as-pending
    FSM.get_state() reports a timer that has already fired as still pending: _active_timer is not
    cleared when the timer callback runs. When the timed event is rejected (no transition / cond
    false) the FSM "stays in timed_state without a timer" (docs/FSM.rst), but the saved state keeps
    the past expiration time, so every later restart - even after a regular stop, even with zero
    downtime - takes it for a timer that ran out during the downtime, discards the state and
    initialises the block normally (entry action and on_enter events re-run, timer restarted).
    The harness knows the truth from the loop: no timer handle of the block was pending at the
    crash point. Candidate repair: clear _active_timer in the timer callback
    (/tmp/C06/fix-fired-timer-saved-as-pending.diff).

MUTANTS (quick tier, VERIF_REPO=<scratch copy with the candidate repair + one mutation>)
  from DESIGN.md
   M1  save before the handler instead of after it                     caught  storage-differs/after-event, /idle ...
   M2  keep saving after a handler error (persistent stays on)         caught  write-after-failed-handler
   M3  restore runs the entry action (enter_STATE)                     caught  restore/entry-action-rerun
   M3b restore sends the on_enter_STATE events                         caught  restore/on-enter-event-sent
   M4  timer restored with the full duration                           caught  restore/timer-deadline-moved
   M5  expiry compared with '>'                                        caught  restore/stale-state-used/expired,
                                                                               restore/valid-state-discarded
   M6  'edzed-*' keys deleted at start                                 caught  reserved-key-removed
   M7  states + stop timestamp written although start() failed         caught  start-failed/written
   M7b only the stop timestamp written when start() failed             caught  start-failed/written
  own (interleaving / multi-step / unusual input)
   M8  timer events bypass AddonPersistence.event (not saved); needs   caught  storage-differs/idle, /before-stop
       a timer event with no later event of the block
   M9  states saved after the blocks were stopped (timer lost)         caught  stop/saved-state-differs
   M10 elapsed timer: state restored without timer instead of normal   caught  restore/init-differs/*, timer-lost
       initialisation (needs downtime > remaining time)
   M11 persistence disabled also after a parameter error / unknown     caught  storage-differs/after-event,
       event (needs a later successful event)                                  stop/block-not-saved
   M12 sdata not restored                                              caught  restore/state-differs
   M13 unused keys not removed                                         caught  unknown-key-kept
   M14 state never expires (ts + exp <= ts)                            caught  restore/stale-state-used/expired
   M15 no save after the initialisation                                caught  storage-differs/after-init
   M16 get_state() reports a drifting timer timestamp                  caught  storage-differs/idle,
                                                                               restore/timer-deadline-moved
   M17 expiration 0 treated like a positive value (exp < 0)            caught  restore/stale-state-used/expiration<=0
   M18 Input restore ignores the stored value                          caught  restore/valid-state-discarded
   M19 restored timer counts from the stop time, not from now          caught  restore/timer-deadline-moved
   M21 no save when the event was rejected (a rejected *timed* event   caught  storage-differs/after-timer-event
       changes the state: the timer is gone)
   M23 stop timestamp written before the states (NOT a violation:      quiet   (exit 0, as it should be)
       the property does not order the writes)
  seeded changes (tools/seeded.py, quick tier): C06-s1 (start_ok set before the first
  sleep(0)) start-failed/written; C06-s2 write-after-failed-handler; C06-s3 (restored timer
  started after set_output) restore/timer-handles, restore/interlock/timer, /stale-timer.
  C06-s7 (stop timestamp written after the asynchronous clean-up) stop/timestamp-wrong,
  stop/no-timestamp; C06-s9 (cached loop/Unix time difference) storage-differs/timer-expiry;
  C06-s4/s5/s6/s8 detected as well.
  A first candidate repair of the defect above (get_state() treating a handle that is no longer
  scheduled as "no timer") was itself refuted by this check: storage-differs/before-stop and
  stop/saved-state-differs when the stop falls into the same instant as the expiration.
"""

from __future__ import annotations

import asyncio
import copy
import datetime as dt
import os

from simkit import seams
from simkit.runner import Run, PlanError, canon, gen_knobs
from simkit.storage import SimStorage
from models import persist_model as pm
from models import calendar_model as cal
from checks import fsmlib

edzed = seams.install()

PROP = 'C06'
LEVEL = 'fault_enumeration'
RUNS = {'quick': 6000, 'thorough': 400000}
CHUNK = 50
CHUNK_TIMEOUT = 600
RULE = ("one run = one generated history (circuit of 1-4 blocks out of persistent Input, Counter, "
        "generated timed FSM with sdata, Timer, InputExp, TimeDate, TimeSpan x sync_state on/off x "
        "expiration None/<=0/short/long x initial storage content; 1-10 events incl. rejected, "
        "unknown, parameter errors, a failing handler; regular stop / failing start() / failing "
        "initialisation / termination in the first loop iteration after start(); optional "
        "interlock relay answering the first output of a timed FSM; optional storage fault) "
        "PLUS one restart for every journal position of "
        "its storage (crash point) after a drawn downtime on a new loop; the first 28 run indices "
        "walk block kind x sync_state x scenario systematically; non-trivial = at least one "
        "restart restored at least one block from a snapshot; distinct = hash of (block kinds and "
        "persistence settings, scenario, fault kind, per event (kind, origin, outcome class), per "
        "crash point the tuple of per-block outcomes: restored / restored with timer / normal "
        "init and why), values and times removed")
REACH_EXPECTED = ['restored', 'restored_with_timer', 'restored_timer_fired', 'timer_elapsed_in_downtime',
                  'expired', 'expiration_le_0', 'no_timestamp_no_expiry', 'not_expired',
                  'crash_inside_stop_sequence', 'crash_before_stop_timestamp',
                  'crash_after_timer_event', 'failed_handler', 'start_failed', 'init_failed',
                  'unknown_key_removed', 'reserved_key_kept', 'sync_off_stale_state_restored',
                  'rejected_event_saved', 'param_error', 'unknown_event', 'decision_in_band',
                  'write_error_fired', 'read_error_fired', 'garbage_injected',
                  'first_run_restored', 'block_removed_in_restart', 'timed_event_rejected',
                  'terminated_before_init', 'interlock_transition_at_restore',
                  'interlock_event_rejected', 'second_termination_in_cleanup',
                  'slow_cleanup', 'timed_state_saved_after_clock_jump',
                  'init_failed_persistent_block_uninitialised']
ASSUMPTIONS = [
    "expiration is measured as documented ('since the program stop'): against the 'edzed-stop-time' "
    "entry present in the restarted storage; a crash snapshot carries the stop time of the previous "
    "regular stop (or none: then no expiry check is demanded); the literal reading 'age of the "
    "individual save' is only counted (counter literal_age_disagrees)",
    "'start-up failed' = a start() call failed, or the simulation ended before the initialisation "
    "of any sequential block began (all init_steps_completed == 0); for a failed initialisation "
    "and under storage faults only 'absent or a state the block really had' is demanded",
    "'edzed-stop-time' must equal the wall time of the stop sequence's state saves within 1 ms "
    "(clock read costs); a clock step is applied between two loop callbacks, never inside one",
    "the interlock relay decides 'the FSM is being restored' by the harness' own event depth "
    "counter (the FSM is not inside event()); its event is always one of the FSM's own events",
    "timestamps are compared with 50 us tolerance; a restore decision (timer ran out / state "
    "expired) whose limit lies within 0.1 ms of the start instant accepts both outcomes",
    "a restored timer may fire late by the drawn latency + 100 x per-callback cost + 0.2 ms",
    "TimeDate/TimeSpan outputs are compared with the calendar predicate outside a guard band of "
    "1 ms before / latency + 3 ms + 50 x cost after an own boundary",
    "the crash happens right after the k-th storage write; the restart begins >= 1 ms later",
    "a save made by a nested event (zero-length timed state) holds the FSM's momentary intermediate "
    "state; the property text allows it (counter intermediate_state_saved), restarts from there are "
    "judged against that stored state",
]

KINDS = ['input', 'counter', 'gfsm', 'timer', 'inputexp', 'timedate', 'timespan']
VALUES = [0, 1, 2, 7, 'a', 'v', None, True, [1, 2], {'k': 1}, 3.5, '']
EXPIRATIONS = [None, None, None, None, 0, -1, 0.5, 5.0, 60.0, 3600.0, '2s', '1m']
SCENARIOS = ['stop', 'stop', 'stop', 'handler_fail', 'start_fail', 'init_fail', 'stop', 'abort_start']
START_DATES = [[2023, 12, 31], [2024, 2, 28], [2024, 2, 29], [2024, 6, 14], [2024, 10, 26]]
MAX_CRASH_POINTS = 120
FIRE_HORIZON = 150.0
US = 1_000_000


class Injected(Exception):
    """Raised by scripted user code."""


class ObsStorage(SimStorage):
    """SimStorage that tells the harness about a write before it happens."""
    observer = None
    written = None

    def __setitem__(self, key, value):
        if self.observer is not None:
            self.observer(key)
        super().__setitem__(key, value)
        if self.written is not None:
            self.written(key)


# --------------------------------------------------------------------------- generation

# ---- calendar configurations (numeric, so that the model knows them without edzed's parser)

def abs_seq(us):
    d = cal.to_dt(us)
    return [d.year, d.month, d.day, d.hour, d.minute, d.second, d.microsecond]


def rnd_tod(rng, anchors):
    """A time of day [h, m, s, us]; often close to 'anchors' or to the end of the day."""
    r = rng.random()
    if r < 0.12:
        return rng.choice([[23, 59, 59, 999_900], [23, 59, 59, 999_999], [23, 59, 59, 0],
                           [0, 0, 0, 0], [0, 0, 0, 1], [0, 0, 1, 0]])
    if r < 0.5 and anchors:
        base = rng.choice(anchors) + rng.choice([1, 5, 60, 300, 1800, 3600, 7200, 20000]) * US \
            + rng.choice([0, 0, 0, 1, 500_000, 999_999, 250])
        base %= cal.DAY_US
    else:
        base = rng.randrange(0, 24 * 3600) * US + rng.choice([0, 0, 1, 123_456, 999_999])
    sec, us = divmod(base, US)
    return [sec // 3600, sec // 60 % 60, sec % 60, us]


def rnd_cal_cfg(rng, kind, utc, local_us):
    """Configuration of a TimeDate ('td') / TimeSpan ('ts') around the local instant local_us."""
    anchors = [local_us % cal.DAY_US]
    if kind == 'ts':
        span = []
        for _ in range(rng.choice([0, 1, 1, 2, 3])):
            a = local_us + rng.randrange(-2 * 3600, 3 * 24 * 3600) * US \
                + rng.choice([0, 0, 1, 999_999, 500_000])
            if rng.random() < 0.3:
                a = local_us + rng.choice([-5, 1, 2, 10, 100]) * US
            b = a + rng.choice([1, 5, 60, 3600, 5 * 3600, 30 * 3600, 86400, -3600]) * US \
                + rng.choice([0, 0, 1, 250_000])
            span.append([abs_seq(a), abs_seq(b)])
        return {'kind': 'ts', 'utc': utc, 'span': span}
    cfg = {'kind': 'td', 'utc': utc, 'times': None, 'dates': None, 'weekdays': None}
    if rng.random() < 0.04:
        return cfg
    if rng.random() < 0.85:
        cfg['times'] = []
        if rng.random() > 0.06:
            for _ in range(rng.choice([1, 1, 2, 3])):
                a = rnd_tod(rng, anchors)
                b = list(a) if rng.random() < 0.08 else rnd_tod(rng, anchors + [cal.tod_us(a)])
                cfg['times'].append([a, b])
    if rng.random() < 0.3:
        cfg['dates'] = []
        if rng.random() > 0.06:
            today = cal.to_dt(local_us).date()
            for _ in range(rng.choice([1, 1, 2])):
                a = today + dt.timedelta(days=rng.randint(-2, 3))
                b = a + dt.timedelta(days=rng.choice([0, 0, 1, 2, 30, 360, -1, -3]))
                cfg['dates'].append([[a.month, a.day], [b.month, b.day]])
            if rng.random() < 0.15:
                cfg['dates'].append([[2, 29], [2, 29]])
            if rng.random() < 0.15:
                cfg['dates'].append([[12, 31], [1, 1]])
    if rng.random() < 0.3:
        cfg['weekdays'] = [] if rng.random() < 0.06 else sorted(rng.sample(range(0, 8),
                                                                          rng.randint(1, 5)))
    return cfg


def reconfig_data(cfg):
    if cfg['kind'] == 'td':
        return {'times': cfg['times'], 'dates': cfg['dates'], 'weekdays': cfg['weekdays']}
    return {'span': cfg['span']}


def _fix_gfsm(b):
    spec, inst = b['spec'], b['inst']
    for tm in spec['timers'].values():
        if tm['dur'] is None:
            tm['dur'] = 1.0
    states = list(spec['states']) + [s for s in spec['timers'] if s not in spec['states']]
    methods = [m for m in spec['methods'] if not m.startswith('enter_')]
    spec['methods'] = methods + [f"enter_{s}" for s in states]
    inst['undef_in'] = []
    inst['chain'] = {}


def gen_block(rng, kind, idx, ctxd):
    name = f"{kind[:2]}{idx}"
    b = {'kind': kind, 'name': name, 'persistent': rng.random() < 0.92,
         'sync_state': rng.random() < 0.7, 'expiration': rng.choice(EXPIRATIONS)}
    if kind == 'input':
        b['initdef'] = rng.choice(VALUES)
        b['check'] = rng.random() < 0.4
    elif kind == 'counter':
        b['modulo'] = rng.choice([None, None, 3, 7])
        b['initdef'] = rng.choice([0, 0, 2, 10])
    elif kind == 'gfsm':
        for _ in range(30):
            spec, inst = fsmlib.gen_spec(rng, idx, timers=True, max_states=3, max_events=2,
                                         allow_chain=False)
            inst['name'] = name
            b['spec'], b['inst'] = spec, inst
            _fix_gfsm(b)
            ni = pm.normal_init(b, fsmlib.STR_DURATIONS)
            if 'error' not in ni and not ni.get('undef'):
                break
        else:
            b['spec'] = {'cls': f"G{idx}", 'states': ['s0', 's1'],
                         'timers': {'s1': {'dur': 1.0, 'ev': 'e0'}},
                         'rules': [['e0', None, 's0'], ['e1', None, 's1']],
                         'methods': ['enter_s0', 'enter_s1']}
            b['inst'] = {'name': name, 'cls': f"G{idx}", 'initdef': None, 't': {}, 'funcs': [],
                         'chain': {}, 'undef_in': []}
    elif kind == 'timer':
        inst = {'name': name, 't': {}, 'restartable': rng.random() < 0.6}
        if rng.random() < 0.3:
            inst['t_period'] = rng.choice([1.0, 2.0, 4.0])
        else:
            if rng.random() < 0.8:
                inst['t']['on'] = rng.choice([0.5, 1.0, 2.0, '0.25s', '1m30s', 0, 30.0])
            if rng.random() < 0.35:
                inst['t']['off'] = rng.choice([0.5, 1.0, 3.0, '2s'])
        if rng.random() < 0.4:
            inst['initdef'] = 'on'
        if inst['t'].get('on') == 0 and inst['t'].get('off') is not None:
            inst['t']['on'] = 0.5
        b['inst'] = inst
    elif kind == 'inputexp':
        inst = {'name': name, 'duration': rng.choice([0.5, 1.0, 2.0, '2s', 'PT0.5S', 30.0]),
                'expired': rng.choice([None, 'EXP', 0, False])}
        if rng.random() < 0.5:
            inst['init_value'] = rng.choice([1, 'init', 0])
        b['inst'] = inst
    else:
        utc = rng.random() < 0.3
        local_start = ctxd['start_wall'] + (0 if utc else ctxd['tz_s'] * US)
        b['cfg'] = rnd_cal_cfg(rng, 'td' if kind == 'timedate' else 'ts', utc, local_start)
    if pm.is_fsm(kind) and rng.random() < 0.35:
        # interlock: the first output (previous == UNDEF) reaches a relay block that sends this
        # event back at once - unless the FSM is inside event() (normal initialisation)
        b['kick'] = gen_event(rng, b, ctxd, kick=True)
    return b


def block_events(b):
    if b['kind'] == 'gfsm':
        return sorted({r[0] for r in b['spec']['rules']})
    if b['kind'] == 'timer':
        return ['start', 'stop', 'toggle']
    return ['put']


def gen_event(rng, b, ctxd, boom=False, kick=False):
    """One external event for block b: {'ev', 'data'}."""
    kind = b['kind']
    r = rng.random()
    if boom:
        if kind == 'input':
            return {'ev': 'put', 'data': {'value': 'BOOM'}}
        if kind == 'counter':
            return {'ev': 'inc', 'data': {'amount': 'x'}}
        if kind == 'gfsm':
            return {'ev': rng.choice(block_events(b)), 'data': {'boom': True}}
        if kind == 'timer':
            return {'ev': rng.choice(['start', 'toggle']), 'data': {'duration': 'abc'}}
        if kind == 'inputexp':
            return {'ev': 'put', 'data': {}}
        if kind == 'timedate':
            return {'ev': 'reconfig', 'data': {'times': 'garbage'}}
        return {'ev': 'reconfig', 'data': {'span': 'garbage'}}
    if r < 0.06 and not kick:
        return {'ev': 'bogus', 'data': {}}
    if kind == 'input':
        if r < 0.13:
            return {'ev': 'put', 'data': {}}
        v = rng.choice(VALUES)
        if b.get('check') and rng.random() < 0.25:
            v = 'REJ'
        return {'ev': 'put', 'data': {'value': v}}
    if kind == 'counter':
        if r < 0.13:
            return {'ev': 'put', 'data': {}}
        ev = rng.choice(['inc', 'inc', 'dec', 'put', 'reset'])
        data = {}
        if ev == 'put':
            data['value'] = rng.choice([0, 1, 5, 12, -3])
        elif ev != 'reset' and rng.random() < 0.4:
            data['amount'] = rng.choice([2, 5, -1])
        return {'ev': ev, 'data': data}
    if kind == 'gfsm':
        data = {}
        if rng.random() < 0.25:
            data['duration'] = rng.choice([0.3, 0.7, 2.5, 0, 'inf', '0.25s', 40.0])
        if rng.random() < 0.15:
            data['ok'] = False
        if rng.random() < 0.3:
            data['tag'] = rng.choice(['x', 'y'])
        return {'ev': rng.choice(block_events(b)), 'data': data}
    if kind == 'timer':
        data = {}
        if rng.random() < 0.3:
            data['duration'] = rng.choice([0.3, 0.7, 2.5, 0, 'inf', '1.5s', 40.0])
        return {'ev': rng.choice(['start', 'start', 'stop', 'toggle']), 'data': data}
    if kind == 'inputexp':
        data = {'value': rng.choice([1, 2, 'v', None, 0])}
        if rng.random() < 0.3:
            data['duration'] = rng.choice([0.3, 0.7, 2.5, '1.5s', 40.0])
        return {'ev': 'put', 'data': data}
    # calendar blocks
    utc = b['cfg']['utc']
    local = ctxd['start_wall'] + (0 if utc else ctxd['tz_s'] * US)
    cfg = rnd_cal_cfg(rng, b['cfg']['kind'], utc, local)
    return {'ev': 'reconfig', 'data': reconfig_data(cfg)}


def gen_prev(rng, b):
    """A state left in the storage by an earlier run of the application (no timers)."""
    kind = b['kind']
    if kind == 'input':
        return rng.choice(VALUES)
    if kind == 'counter':
        val = rng.choice([0, 1, 4, 6])
        return val if b['modulo'] is None else val % b['modulo']
    if kind == 'gfsm':
        states = list(b['spec']['states'])
        s = rng.choice(states)
        return [s, None, {'n': 2, 'last': s}]
    if kind == 'timer':
        return [rng.choice(['on', 'off']), None, {}]
    if kind == 'inputexp':
        return rng.choice([['expired', None, {}], ['valid', None, {'input': 5}]])
    return None


def gen_garbage(rng, b):
    kind = b['kind']
    if kind == 'input':
        return rng.choice(['REJ', 'BOOM', [1], None])
    if kind == 'counter':
        return rng.choice(['abc', None, [1, 2], 17])
    if pm.is_fsm(kind):
        some = 'on' if kind == 'timer' else ('valid' if kind == 'inputexp' else b['spec']['states'][0])
        return rng.choice(['nonsense', ['nostate', None, {}], [some, 'abc', {}], [some, None],
                           5, None, [some, 1.0, {}], [some, None, 5], [some, 1e12, {}],
                           ['valid', 1e12, {}]])
    if kind == 'timedate':
        return rng.choice([5, {'times': 'x'}, {'bogus': 1}, None, [[1, 2]]])
    return rng.choice([5, 'x', [[1, 2]], None, {'a': 1}])


def gen(rng, tier, index=0):
    date = rng.choice(START_DATES)
    tod = rnd_tod(rng, [])
    start_wall = cal.abs_us(date + tod)
    tz_s = rng.choice([0, 0, 3600, -18000])
    ctxd = {'start_wall': start_wall, 'tz_s': tz_s}
    nblocks = rng.choice([1, 2, 2, 3, 3, 4])
    kinds = [rng.choice(KINDS) for _ in range(nblocks)]
    scenario = rng.choice(SCENARIOS)
    force_sync = None
    if index < 28:
        kinds[0] = KINDS[index % 7]
        force_sync = (index // 7) % 2 == 0
        scenario = ['stop', 'handler_fail'][(index // 14) % 2]
    blocks = [gen_block(rng, k, i, ctxd) for i, k in enumerate(kinds)]
    if force_sync is not None:
        blocks[0]['persistent'] = True
        blocks[0]['sync_state'] = force_sync
    if not any(b['persistent'] for b in blocks):
        blocks[0]['persistent'] = True
    real = list(blocks)
    # ---- history
    ops = []
    t = 0.05
    nops = rng.randint(1, 10)
    boom_at = rng.randrange(nops) if scenario == 'handler_fail' else None
    for i in range(nops):
        b = rng.choice(real)
        t = round(t + rng.choice([0.0, 0.001, 0.01, 0.2, 0.4, 0.7, 1.1]), 6)
        boom = i == boom_at
        if boom and b['kind'] == 'input':
            b['check'] = True
        op = gen_event(rng, b, ctxd, boom=boom)
        op.update({'t': t, 'blk': b['name'], 'boom': boom})
        ops.append(op)
    stop_at = round(t + rng.choice([0.0, 0.001, 0.3, 1.0]), 6)
    second_term = None
    if scenario in ('stop', 'handler_fail') and rng.random() < 0.3:
        # a bystander with a slow asynchronous clean-up; sometimes the simulation task is
        # cancelled a second time while that clean-up is in progress
        dur = rng.choice([0.1, 0.3, 1.0, 2.0])
        blocks.insert(rng.randrange(len(blocks) + 1), {'kind': 'slowstop', 'name': 'slow', 'dur': dur})
        if rng.random() < 0.4:
            second_term = round(dur * rng.choice([0.0, 0.3, 0.7]), 6)
    jump = None
    if rng.random() < 0.25:
        # the system clock is stepped while the circuit runs (NTP, manual setting, VM resume)
        jump = {'at_op': rng.choice(['stop'] + list(range(len(ops)))),
                'delta_s': rng.choice([1.0, 2.5, 30.0, 600.0, 3600.0])
                * rng.choice([1, 1, -1])}
    abort = None
    if scenario == 'start_fail':
        blocks.insert(rng.randrange(len(blocks) + 1), {'kind': 'badstart', 'name': 'bad'})
    elif scenario == 'abort_start':
        # the simulation is terminated around the first loop iteration after the start() calls
        how = rng.choice(['start_abort', 'task_fail', 'harness', 'harness'])
        abort = {'how': how, 'steps': rng.choice([0, 1, 1, 1, 2]),
                 'mode': rng.choice(['abort', 'shutdown', 'cancel'])}
        if how == 'start_abort':
            blocks.insert(rng.randrange(len(blocks) + 1), {'kind': 'abortstart', 'name': 'abst'})
        elif how == 'task_fail':
            blocks.insert(rng.randrange(len(blocks) + 1), {'kind': 'badtask', 'name': 'btask'})
    elif scenario == 'init_fail':
        if rng.random() < 0.5:
            blocks.insert(rng.randrange(len(blocks) + 1), {'kind': 'noinit', 'name': 'noinit'})
        else:
            # an initialisation routine fails: the blocks created after it are started, but
            # (unless restored from the storage) still uninitialised when the simulation ends
            blocks.insert(rng.choice([0, 0, rng.randrange(len(blocks) + 1)]),
                          {'kind': 'badinit', 'name': 'badinit'})
    # ---- initial storage
    initial = {'stop_age': rng.choice([None, None, 5.0, 100.0, 5000.0, -50.0]),
               'stop_invalid': rng.random() < 0.08,
               'foreign': rng.choice([None, None, "<Input 'ghost'>", 'foo']),
               'edzed': rng.choice([[], [], [['edzed-note', 'x']], [['edzed-version', [1, 2]]]]),
               'prev': {}}
    if scenario == 'abort_start' and initial['stop_age'] is None and rng.random() < 0.8:
        initial['stop_age'] = rng.choice([5.0, 100.0])
    for b in real:
        if b['persistent'] and (rng.random() < 0.25 or scenario == 'abort_start'):
            pv = gen_prev(rng, b)
            if pv is not None or b['kind'] == 'input':
                initial['prev'][b['name']] = pv
    # ---- second circuit
    second = {'drop': [], 'foreign': [], 'edzed': []}
    if len(real) > 1 and rng.random() < 0.3:
        second['drop'] = [rng.choice(real)['name']]
    if rng.random() < 0.4:
        second['foreign'] = [[k, rng.choice([1, 'x', [1]])] for k in
                             rng.sample(["<Counter 'gone'>", 'junk', 'edzedx', "<Timer 'old'>"],
                                        rng.randint(1, 3))]
    if rng.random() < 0.4:
        second['edzed'] = [[k, rng.choice([1, 'x', None])] for k in
                           rng.sample(['edzed-app', 'edzed-', 'edzed-stop-time-2'], rng.randint(1, 2))]
    # ---- downtimes, one specification per crash point (cyclic)
    downtimes = []
    for _ in range(6):
        r = rng.random()
        absolute = rng.choice([0.001, 0.05, 0.3, 1.0, 3.0, 10.0, 100.0, 1000.0, 86400.0 * 3])
        if r < 0.4:
            downtimes.append(['abs', absolute])
        elif r < 0.75:
            downtimes.append(['timer', rng.choice([0.3, 0.9, 0.999, 0.99999, 1.00001, 1.001, 1.1,
                                                   3.0]), absolute])
        else:
            downtimes.append(['exp', rng.choice([0.3, 0.9, 0.999, 0.999999, 1.000001, 1.001, 1.1,
                                                 3.0]), absolute])
    # ---- fault stratum
    fault = None
    persistent = [b for b in real if b['persistent']]
    if rng.random() < 0.3 and persistent:
        fb = rng.choice(persistent)
        r = rng.random()
        if r < 0.4:
            fault = {'kind': 'write', 'blk': fb['name'],
                     'at_op': rng.choice(['stop', 'stop', 'init'] + list(range(len(ops)))),
                     'n': rng.choice([1, 1, 2, 3])}
            if rng.random() < 0.15:
                fault = {'kind': 'write', 'blk': None, 'at_op': 'stop', 'n': 1}   # the timestamp
        elif r < 0.7:
            fault = {'kind': 'read', 'blk': fb['name']}
        else:
            fault = {'kind': 'garbage', 'blk': fb['name'], 'value': gen_garbage(rng, fb)}
    has_cron = any(b['kind'] in pm.CAL_KINDS for b in real)
    knobs = gen_knobs(rng, latency=True, cost=True, ties=True, min_cost_ns=2000)
    knobs2 = gen_knobs(rng, latency=True, cost=True, ties=True, min_cost_ns=2000)
    if knobs2['origin_ns'] == knobs['origin_ns']:
        knobs2['origin_ns'] = knobs['origin_ns'] + 777_000_000_123
    if has_cron:
        for k in (knobs, knobs2):
            k['cost_ns'] = min(k['cost_ns'], 20_000)
    return {'knobs': knobs, 'knobs2': knobs2, 'start_wall_us': start_wall, 'tz_s': tz_s,
            'scenario': scenario, 'abort': abort, 'jump': jump, 'second_term': second_term,
            'blocks': blocks, 'ops': ops, 'stop_at': stop_at,
            'initial': initial, 'second': second, 'downtimes': downtimes, 'fault': fault}


# --------------------------------------------------------------------------- probe classes

class BadStart(edzed.SBlock):
    def start(self):
        self.x_sim.start_raised = True
        raise Injected('start() failed')

    def init_regular(self):
        self.set_output(0)


class AbortStart(edzed.SBlock):
    """start() succeeds but reports a fatal error to the simulator."""
    def start(self):
        super().start()
        self.circuit.abort(Injected('abort() called from start()'))

    def init_regular(self):
        self.set_output(0)


class BadTask(edzed.AddonMainTask, edzed.SBlock):
    """Its service task fails in its very first step."""
    async def _maintask(self):
        raise Injected('main task failed in its first step')

    def init_regular(self):
        self.set_output(0)


class SlowStop(edzed.AddonAsync, edzed.SBlock):
    """Bystander whose asynchronous clean-up takes noticeable (virtual) time."""
    def init_regular(self):
        self.set_output(0)

    async def stop_async(self):
        await asyncio.sleep(self.x_dur)


class Relay(edzed.SBlock):
    """Interlock: answers the FSM's first output with an event - synchronously."""
    def init_regular(self):
        self.set_output(0)

    def _event(self, etype, data):
        sim, name = self.x_sim, self.x_fsm
        if sim.depth.get(name, 0) == 0:
            # the FSM is not inside event(): its output was set by the restoration
            sim.kicked[name] = sim.kicked.get(name, 0) + 1
            self.x_event.send(self, **fsmlib.real_data(self.x_data))
        return None


def first_output(data):
    return data.get('previous') is edzed.UNDEF


class BadInit(edzed.SBlock):
    """Its initialisation routine fails."""
    def init_regular(self):
        raise Injected('init_regular() failed')


class NoInit(edzed.SBlock):
    """Never initialised: the circuit initialisation fails."""


def check_fn(value):
    if value == 'BOOM':
        raise Injected('validator failed')
    return value != 'REJ'


# --------------------------------------------------------------------------- one circuit life

class Sim:
    """One circuit life (the first run or one restart) with the observation hooks."""

    def __init__(self, rec, run, plan, tag, specs, storage, relaxed=(), verbose=True):
        self.R = rec                # the Run that records (trace, violations, counters)
        self.run = run              # the Run that owns the loop of this life
        self.loop = run.loop
        self.plan = plan
        self.tag = tag
        self.specs = {b['name']: b for b in specs}
        self.order = [b['name'] for b in specs]
        self.storage = storage
        self.relaxed = set(relaxed)     # storage keys under a fault: only the relaxed rule
        self.verbose = verbose
        self.blocks = {}
        self.keys = {}
        self.depth = {}
        self.origin = {}
        self.failed = {}            # name -> journal length when its handler failed
        self.failed_origin = {}     # name -> origin of the event whose handler failed
        self.acked = {}             # name -> states the block had at event boundaries
        self.ack_log = {}           # name -> [(loop ns, state)]
        self.fired_log = {}         # name -> [(loop ns, timer fired but still reported)]
        self.bykey = {}
        self.stop_ref = {}          # key -> state at the last event boundary before the stop save
        self.event_writes = set()   # journal indices of saves made by events
        self.kicked = {}            # name -> number of interlock events sent back to the FSM
        self.offset0 = seams.S.wall_offset_ns    # wall clock offset when this life began
        self.write_offset = {}      # key -> wall clock offset at its last write
        self.unjudged_key = None    # garbage entry
        self.last_state = {}
        self.enters = {}            # name -> [[state, during_init]]
        self.onenter = {}           # name -> [during_init]
        self.events = {}            # name -> [[origin, wall_us, etype]]
        self.beh = []
        self.driver_op = None
        self.start_raised = False
        self.start_failed = False   # start-up failed before any SBlock initialisation began
        self.plan_error = None
        self.circuit = None
        k = run.knobs
        self.lat_us = k['latency_ns'] // 1000
        self.cost_us = k['cost_ns'] // 1000

    # ---- construction
    def real_names(self):
        return [n for n in self.order if self.specs[n]['kind'] in KINDS]

    def build(self):
        try:
            rec = fsmlib.Recorder('rec', x_sink=self.rec_sink)
            for name in self.order:
                blk = self.make_block(self.specs[name], rec)
                self.blocks[name] = blk
                if self.specs[name]['kind'] in KINDS:
                    self.keys[name] = blk.key
                    self.bykey[blk.key] = name
                    self.enters[name] = []
                    self.onenter[name] = []
                    self.events[name] = []
                    self.acked[name] = []
                    self.ack_log[name] = []
                    self.fired_log[name] = []
                    fsmlib.hook_events(blk, self.hook)
                    blk.event._sim_blk = blk
            self.circuit = edzed.get_circuit()
            self.circuit.set_persistent_data(self.storage)
        except PlanError:
            raise
        except Exception as err:
            raise PlanError(f"build failed: {type(err).__name__}: {err}") from None

    def make_block(self, b, rec):
        kind, name = b['kind'], b['name']
        if kind == 'badstart':
            return BadStart(name, x_sim=self)
        if kind == 'noinit':
            return NoInit(name)
        if kind == 'badinit':
            return BadInit(name)
        if kind == 'abortstart':
            return AbortStart(name)
        if kind == 'badtask':
            return BadTask(name)
        if kind == 'slowstop':
            return SlowStop(name, x_dur=float(b['dur']), stop_timeout=float(b['dur']) + 5.0)
        pk = {'persistent': b['persistent'], 'sync_state': b['sync_state'],
              'expiration': b['expiration']}
        if b.get('kick') and pm.is_fsm(kind):
            kick = b['kick']
            relay = Relay(f"relay_{name}", x_sim=self, x_fsm=name, x_data=kick.get('data', {}),
                          x_event=edzed.Event(name, kick['ev']))
            pk['on_output'] = edzed.Event(relay, 'kick', efilter=first_output)
        if kind == 'input':
            kw = {'check': check_fn} if b.get('check') else {}
            return edzed.Input(name, initdef=b['initdef'], **kw, **pk)
        if kind == 'counter':
            return edzed.Counter(name, modulo=b['modulo'], initdef=b['initdef'], **pk)
        if kind == 'gfsm':
            cls = fsmlib.build_class(b['spec'], self.sink)
            states = list(b['spec']['states']) + [s for s in b['spec']['timers']
                                                  if s not in b['spec']['states']]
            kw = {f"on_enter_{s}": edzed.Event(rec, 'enter') for s in states}
            return fsmlib.build_instance(cls, b['spec'], b['inst'], self.sink, **kw, **pk)
        if kind == 'timer':
            inst = b['inst']
            kw = {f"t_{s}": fsmlib.mk_dur(d) for s, d in inst.get('t', {}).items()}
            if inst.get('t_period') is not None:
                kw['t_period'] = inst['t_period']
            if inst.get('initdef'):
                kw['initdef'] = inst['initdef']
            return edzed.Timer(name, restartable=inst.get('restartable', True),
                               on_enter_on=edzed.Event(rec, 'enter'),
                               on_enter_off=edzed.Event(rec, 'enter'), **kw, **pk)
        if kind == 'inputexp':
            inst = b['inst']
            kw = {'initdef': inst['init_value']} if 'init_value' in inst else {}
            return edzed.InputExp(name, duration=inst.get('duration'), expired=inst.get('expired'),
                                  on_enter_valid=edzed.Event(rec, 'enter'),
                                  on_enter_expired=edzed.Event(rec, 'enter'), **kw, **pk)
        cfg = b['cfg']
        if kind == 'timedate':
            return edzed.TimeDate(name, times=cfg['times'], dates=cfg['dates'],
                                  weekdays=cfg['weekdays'], utc=cfg['utc'], **pk)
        if kind == 'timespan':
            return edzed.TimeSpan(name, span=cfg['span'], utc=cfg['utc'], **pk)
        raise PlanError(f"unknown kind {kind}")

    # ---- phases
    def init_done(self):
        ev = getattr(self.circuit, '_init_done', None)
        return ev is not None and ev.is_set()

    def phase(self):
        if self.circuit is not None and self.circuit.error is not None:
            return 'stop'
        return 'run' if self.init_done() else 'init'

    # ---- user code of the generated FSMs / recorder
    def sink(self, blk, entry):
        if entry[0] != 'enter':
            return
        self.enters[blk.name].append([entry[2], not self.init_done(), entry[1]])
        if entry[1] == 'method':
            blk.sdata['n'] = blk.sdata.get('n', 0) + 1
            blk.sdata['last'] = entry[2]
            if entry[3].get('boom'):
                raise Injected('entry action failed')

    def rec_sink(self, _rec, _etype, data):
        src = data.get('source')
        if src in self.onenter and data.get('trigger') == 'enter':
            self.onenter[src].append(not self.init_done())

    # ---- states
    def cur_state(self, name):
        blk = self.blocks[name]
        if not blk.is_initialized() and not pm.is_fsm(self.specs[name]['kind']):
            return False, None
        try:
            with seams.free_reads():
                return True, copy.deepcopy(blk.get_state())
        except Exception:   # pylint: disable=broad-except
            return False, None

    def live_timers(self, name):
        """Number of pending timer handles of this FSM (scheduled, or due and about to run)."""
        blk = self.blocks[name]
        loop = self.loop
        ready = [h for h in loop._ready if hasattr(h, '_when') and not h._cancelled]
        n = 0
        for h in loop.live_timers() + ready:
            cb = h._callback
            if getattr(cb, '_sim_blk', None) is blk or getattr(cb, '__self__', None) is blk:
                n += 1
        return n

    def has_live_timer(self, name):
        return self.live_timers(name) > 0

    def ack(self, name, at_rest=True):
        ok, cur = self.cur_state(name)
        if ok:
            lst = self.acked[name]
            kind = self.specs[name]['kind']
            if pm.is_fsm(kind) and at_rest:
                # documented: after a rejected timed event the block stays in the timed state
                # WITHOUT a timer; does get_state() still report the fired timer as pending?
                fired = bool(cur[1] is not None and cur[1] <= seams.wall_now()
                             and not self.has_live_timer(name))
                flog = self.fired_log[name]
                if fired != (flog[-1][1] if flog else False):
                    flog.append((self.loop._ns, fired))
                    if fired:
                        self.R.fired('fired_timer_reported_pending')
            if not lst or not pm.state_eq(kind, lst[-1], cur):
                lst.append(cur)
                self.ack_log[name].append((self.loop._ns, cur))
            self.last_state[name] = cur
        return ok, cur

    def on_write(self, key):
        """The storage is about to be written: look at the block with the harness' own eyes."""
        name = self.bykey.get(key)
        if name is None:
            return
        ok, cur = self.cur_state(name)
        if ok:
            lst = self.acked[name]
            if not lst or not pm.state_eq(self.specs[name]['kind'], lst[-1], cur):
                lst.append(cur)
        if key not in self.stop_ref and self.phase() == 'stop' and not self.depth.get(name):
            # reference for the stop save: the state at the last event boundary before it
            self.stop_ref[key] = self.last_state.get(name)

    def timer_deadline(self, name):
        """Absolute (wall clock, now) expiration of the block's pending timer handle or None."""
        blk = self.blocks[name]
        loop = self.loop
        ready = [h for h in loop._ready if hasattr(h, '_when') and not h._cancelled]
        for h in loop.live_timers() + ready:
            cb = h._callback
            if getattr(cb, '_sim_blk', None) is blk or getattr(cb, '__self__', None) is blk:
                return h._when + seams.S.wall_offset_ns / 1e9
        return None

    def on_written(self, key):
        name = self.bykey.get(key)
        if name is None:
            return
        if self.depth.get(name):
            self.event_writes.add(len(self.storage.journal) - 1)    # saved by an event
        self.write_offset[key] = seams.S.wall_offset_ns
        b = self.specs[name]
        if pm.is_fsm(b['kind']) and key != self.unjudged_key:
            # the saved expiry must be the absolute time (on the wall clock as it is NOW) at
            # which the pending timer of the loop will fire: now + remaining monotonic time
            parts = pm.split_fsm_state(self.storage._data.get(key))
            if parts is not None:
                true_ts = self.timer_deadline(name)
                saved = parts[1]
                if saved is not None and seams.S.wall_offset_ns != self.offset0:
                    self.R.fired('reach:timed_state_saved_after_clock_jump')
                if (saved is None) != (true_ts is None) or (
                        saved is not None
                        and abs(saved - true_ts) > max(pm.TS_TOL, 1e-14 * abs(saved))):
                    self.violate('C06/storage-differs/timer-expiry',
                                 f"{name}: saved {canon(self.storage._data.get(key))}; the block's "
                                 f"pending timer expires at {canon(true_ts)} on the present wall "
                                 f"clock ({seams.wall_now():.6f})")

    def ack_all(self):
        for name in self.real_names():
            self.ack(name)

    def violate(self, sig, msg):
        self.R.violate(sig, f"[{self.tag}] {msg}")

    def check_block(self, name, where):
        """storage[key] == get_state() for a persistent block with sync_state."""
        b = self.specs[name]
        if not b['persistent'] or not b['sync_state'] or name in self.failed:
            return
        ok, cur = self.cur_state(name)
        if not ok:
            return
        key = self.keys[name]
        data = self.storage._data
        if key not in data:
            if key in self.relaxed:
                return
            self.violate(f"C06/storage-differs/{where}/missing",
                         f"{name}: the storage has no entry, the block's state is {canon(cur)}")
        elif not pm.state_eq(b['kind'], data[key], self.in_clock_of_write(b, key, cur)):
            self.violate(f"C06/storage-differs/{where}",
                         f"{name} ({b['kind']}): the storage holds {canon(data[key])}, the block's "
                         f"internal state is {canon(cur)}")

    def in_clock_of_write(self, b, key, cur):
        """
        A timer expiry saved before a step of the system clock is expressed in the clock of
        that time (it cannot be otherwise until the next save): translate the present state.
        """
        shift = seams.S.wall_offset_ns - self.write_offset.get(key, self.offset0)
        if not shift or not pm.is_fsm(b['kind']):
            return cur
        parts = pm.split_fsm_state(cur)
        if parts is None or parts[1] is None:
            return cur
        return (parts[0], parts[1] - shift / 1e9, parts[2])

    def check_all(self, where):
        for name in self.real_names():
            self.check_block(name, where)

    # ---- the event hook
    def hook(self, phase, blk, etype, arg):
        name = blk.name
        if phase == 'pre':
            d = self.depth[name] = self.depth.get(name, 0) + 1
            if d == 1:
                # (not 'at rest': when this is the timer's own event the handle is already gone)
                self.ack(name, at_rest=False)
                if self.driver_op == name:
                    origin = 'ext'
                elif not self.init_done():
                    origin = 'init'
                else:
                    origin = 'timer'
                self.origin[name] = origin
                self.events[name].append([origin, seams.wall_us(), canon(etype)])
            return
        d = self.depth[name] = self.depth[name] - 1
        origin = self.origin.get(name)
        b = self.specs[name]
        if phase == 'post':
            if d > 0:
                # a nested event (zero-length timed state): the save holds the momentary state
                if b['persistent'] and b['sync_state']:
                    self.R.fired('intermediate_state_saved')
                ok, cur = self.cur_state(name)
                if ok:
                    self.acked[name].append(cur)
            else:
                self.ack(name)
            self.check_block(name, 'after-timer-event' if origin == 'timer' else
                             ('after-init-event' if origin == 'init' else 'after-event'))
            if d == 0:
                if self.verbose:
                    self.R.log('ev', self.tag, name, origin, canon(etype), 'ret', canon(arg),
                               canon(self.last_state.get(name)))
                    self.beh.append([b['kind'][:2], origin, 'E' if isinstance(etype, str) else 'G',
                                     bool(arg)])
                if origin == 'ext' and arg is False and b['persistent'] and b['sync_state']:
                    self.R.fired('reach:rejected_event_saved')
                if origin == 'timer' and arg is False and b['persistent']:
                    self.R.fired('reach:timed_event_rejected')
            return
        # the handler raised
        err = arg
        harmless = isinstance(err, edzed.EdzedUnknownEvent) or self.circuit.error is None
        if harmless:
            if d == 0:
                self.R.fired('reach:unknown_event' if isinstance(err, edzed.EdzedUnknownEvent)
                             else 'reach:param_error')
                self.check_block(name, 'after-event')
        elif name not in self.failed:
            self.failed[name] = len(self.storage.journal)
            self.failed_origin[name] = origin
            self.R.fired('reach:failed_handler')
        if d == 0 and self.verbose:
            self.R.log('ev', self.tag, name, origin, canon(etype), 'exc', canon(err), harmless)
            self.beh.append([b['kind'][:2], origin, 'X', harmless])

    # ---- driver
    def send(self, op):
        name = op['blk']
        blk = self.blocks.get(name)
        if blk is None or name not in self.keys:
            self.plan_error = 'op refers to a missing block'
            return
        if not self.circuit.is_ready():
            if self.verbose:
                self.R.log('skipped', self.tag, name, op['ev'])
            return
        self.ack_all()
        self.check_all('idle')
        self.driver_op = name
        try:
            edzed.ExtEvent(blk, op['ev']).send(**fsmlib.real_data(op.get('data', {})))
        except Exception:    # pylint: disable=broad-except
            pass        # recorded by the hook
        finally:
            self.driver_op = None

    # ---- journal rules (post mortem)
    def journal_rules(self, regular_stop, wall_of):
        R = self.R
        journal = self.storage.journal
        bykey = {key: name for name, key in self.keys.items()}
        if self.start_failed:
            # start-up failed before the initialisation of the sequential blocks began:
            # nothing may be written, no entry of a block of this circuit may disappear
            sets = [e for e in journal if e[0] == 'set']
            dels = [e for e in journal if e[0] == 'del' and e[1] in bykey
                    and self.specs[bykey[e[1]]]['persistent']]
            if sets or dels:
                what = 'a start() call failed' if self.start_raised else \
                    'the simulation was terminated before any block was initialised'
                self.violate('C06/start-failed/written' if sets else 'C06/start-failed/entries-deleted',
                             f"{what}, but the storage was changed: written "
                             f"{canon([[e[1], e[2]] for e in sets[:4]])}, deleted "
                             f"{canon([e[1] for e in dels[:4]])}")
        for i, (op, key, value, stamp) in enumerate(journal):
            if op != 'set':
                continue
            name = bykey.get(key)
            if name is None:
                if key != 'edzed-stop-time':
                    self.violate('C06/journal/foreign-key-written', f"write to {key!r}")
                continue
            b = self.specs[name]
            ph = stamp[1]
            if not b['persistent']:
                self.violate('C06/journal/non-persistent-written',
                             f"{name}: persistent=False, but {canon(value)} was saved ({ph})")
                continue
            if name in self.failed and i >= self.failed[name]:
                self.violate('C06/write-after-failed-handler',
                             f"{name}: state {canon(value)} saved ({ph}) after its event handler had "
                             "failed")
                continue
            if not b['sync_state'] and ph == 'run':
                self.violate('C06/journal/sync-state-off-written',
                             f"{name}: sync_state=False, but {canon(value)} was saved while running")
            if (b['kind'] in pm.CAL_KINDS and not self.acked[name]
                    and not self.blocks[name].is_initialized()):
                # TimeDate/TimeSpan.get_state() did not refuse an uninitialised block: after a
                # failed initialisation the empty configuration was saved as its state (and had
                # precedence over the constructor arguments at the next start): finding F26,
                # repaired in /repo
                R.fired('uninitialised_calendar_block_saved')
                self.violate('C06/journal/uninitialised-block-saved',
                             f"{name} ({b['kind']}) was started but never initialised, yet "
                             f"{canon(value)} was saved as its state ({ph})")
                continue
            if not any(pm.state_eq(b['kind'], value, s) for s in self.acked[name]):
                self.violate('C06/journal/unacknowledged-state',
                             f"{name}: saved value {canon(value)} ({ph}) is not a state the block "
                             f"had at an event boundary: {canon(self.acked[name][-4:])}")
        if not regular_stop or 'edzed-stop-time' in self.relaxed:
            # (an injected failure of the timestamp write aborts the stop sequence)
            return
        # the stop sequence: the first write of each block after the simulation ended
        stop_sets = {}
        saved_at = []
        for i, (op, key, value, stamp) in enumerate(journal):
            if (op == 'set' and stamp[1] == 'stop' and key in bykey and key not in stop_sets
                    and i not in self.event_writes):
                stop_sets[key] = value
                saved_at.append(stamp[2])
        for name in self.real_names():
            b = self.specs[name]
            key = self.keys[name]
            if not b['persistent'] or name in self.failed or key in self.relaxed:
                continue
            if name not in self.last_state:
                continue
            if key not in stop_sets:
                self.violate('C06/stop/block-not-saved',
                             f"{name}: not saved at the regular stop")
            elif self.stop_ref.get(key) is not None and not pm.state_eq(
                    b['kind'], stop_sets[key], self.stop_ref[key]):
                self.violate('C06/stop/saved-state-differs',
                             f"{name}: the stop saved {canon(stop_sets[key])}, the state immediately "
                             f"before the stop was {canon(self.stop_ref[key])}")
        # (a timer event handled during the asynchronous part of the clean-up may legally save
        # its block once more after the timestamp; those writes are covered by the rules above)
        stamps = [e for e in journal if e[0] == 'set' and e[1] == 'edzed-stop-time']
        if not stamps or stamps[-1][3][1] != 'stop':
            self.violate('C06/stop/no-timestamp',
                         "a regular stop did not write 'edzed-stop-time'; last write: "
                         f"{canon(journal[-1][:3]) if journal else None}")
            return
        last = stamps[-1]
        ts = last[2]
        # "together with a stop timestamp": the time at which the stop sequence saved the states
        # (expiration is measured from it); without any saved state: the time of its own write
        want = (max(saved_at) if saved_at else last[3][2]) / 1e6
        if not isinstance(ts, float) or abs(ts - want) > 1e-3:
            self.violate('C06/stop/timestamp-wrong',
                         f"'edzed-stop-time' is {canon(ts)}, the stop sequence saved the states "
                         f"at {want:.6f} (timestamp written at {last[3][2] / 1e6:.6f})")

    # ---- judging a start against the storage it started from
    def local_us(self, b):
        return seams.wall_us() + (0 if b['cfg']['utc'] else seams.S.tz_offset_us)

    def output_ok(self, b, blk, state):
        """None = fine / unknown, else a message."""
        local = None
        if b['kind'] in pm.CAL_KINDS:
            cfg = pm.state_cfg(b, state)
            if cfg is None:
                return None
            local = self.local_us(b)
            if cal.near_boundary(cfg, local, 1000, self.lat_us + 3000 + 50 * self.cost_us):
                self.R.fired('cal_output_in_guard_band')
                return None
            self.R.fired('cal_output_checked')
        known, exp = pm.output_of(b, state, local)
        if not known:
            return None
        out = blk.output
        if out is edzed.UNDEF or out != exp or (isinstance(exp, bool) != isinstance(out, bool)):
            return f"output {canon(out)}, expected {canon(exp)}"
        return None

    def match_restore(self, b, name, value, cur):
        kind = b['kind']
        blk = self.blocks[name]
        if not pm.state_eq(kind, cur, value):
            pc, pv = pm.split_fsm_state(cur), pm.split_fsm_state(value)
            if pm.is_fsm(kind) and pc and pv and pc[0] == pv[0] and any(
                    e[1] and e[2] == 'method' for e in self.enters[name]):
                return 'entry-action-rerun', (f"state {canon(value)} restored, but the entry action "
                                              f"ran during the start: now {canon(cur)}")
            if pm.is_fsm(kind) and pc and pv and pc[0] == pv[0] and pc[2] == pv[2]:
                if pc[1] is None:
                    return 'timer-lost', f"state {canon(cur)}, stored {canon(value)}"
                return 'timer-deadline-moved', (f"timer expires at {canon(pc[1])}, the stored "
                                                f"state says {canon(pv[1])}")
            return 'state-differs', f"state {canon(cur)}, stored {canon(value)}"
        msg = self.output_ok(b, blk, value)
        if msg:
            return 'output-differs', f"restored state {canon(value)}: {msg}"
        if pm.is_fsm(kind):
            n = sum(1 for e in self.enters[name] if e[1])
            if n:
                return 'entry-action-rerun', (f"state {canon(value)} restored, but {n} entry action(s) "
                                              f"ran during the start: {canon(self.enters[name])}")
            n = sum(1 for e in self.onenter[name] if e)
            if n:
                return 'on-enter-event-sent', (f"state {canon(value)} restored, but {n} on_enter "
                                               "event(s) were sent during the start")
        return None, None

    def match_kicked(self, b, name, kres, cur, now_lo, now_hi):
        """Restored, then the interlock event handled as a normal event of the restored state."""
        blk = self.blocks[name]
        parts = pm.split_fsm_state(cur)
        exp_state, exp_sdata = kres['state']
        if parts is None or parts[0] != exp_state or parts[2] != exp_sdata:
            return 'interlock/state-differs', (f"state {canon(cur)}, expected state {exp_state!r} "
                                               f"with sdata {canon(exp_sdata)}")
        if kres['timer'] is None:
            if parts[1] is not None:
                return 'interlock/stale-timer', (f"state {exp_state!r} must have no timer, "
                                                 f"get_state() reports {canon(parts[1])}")
        elif parts[1] is None or not (now_lo + kres['timer'] - pm.TS_TOL <= parts[1]
                                      <= now_hi + kres['timer'] + pm.TS_TOL):
            return 'interlock/timer', (f"timer deadline {canon(parts[1])}, a fresh timer of "
                                       f"{kres['timer']}s started in [{now_lo:.6f}, {now_hi:.6f}] "
                                       "is expected")
        out = blk.output
        if out is edzed.UNDEF or out != kres['output']:
            return 'interlock/output', f"output {canon(out)}, expected {canon(kres['output'])}"
        if b['kind'] == 'gfsm':
            n = sum(1 for e in self.enters[name] if e[1] and e[2] == 'method')
            if n != kres['enters']:
                return 'interlock/entry-actions', (f"{n} entry action(s) ran during the start, "
                                                   f"the transition has {kres['enters']}")
        if not any(self.onenter[name]):
            return 'interlock/on-enter-missing', "no on_enter event of the state entered"
        return None, None

    def match_init(self, b, name, cur, now_lo, now_hi):
        kind = b['kind']
        blk = self.blocks[name]
        ni = pm.normal_init(b, fsmlib.STR_DURATIONS)
        if 'error' in ni:
            return 'model', 'the model cannot initialise this block'
        if pm.is_fsm(kind):
            parts = pm.split_fsm_state(cur)
            if parts is None or parts[0] != ni['state'][0] or parts[2] != ni['state'][1]:
                return 'state', f"state {canon(cur)}, normal initialisation gives {canon(ni['state'])}"
            if ni['timer'] is None:
                if parts[1] is not None:
                    return 'timer', f"unexpected timer {canon(parts[1])}"
            elif parts[1] is None or not (now_lo + ni['timer'] - pm.TS_TOL <= parts[1]
                                          <= now_hi + ni['timer'] + pm.TS_TOL):
                return 'timer', (f"timer deadline {canon(parts[1])}, a fresh timer of {ni['timer']}s "
                                 f"started in [{now_lo:.6f}, {now_hi:.6f}] is expected")
            if kind == 'gfsm' and sum(1 for e in self.enters[name]
                                      if e[1] and e[2] == 'method') < ni['enters']:
                return 'entry-action-missing', "the entry action of the initial state did not run"
            if not any(self.onenter[name]):
                return 'on-enter-missing', "no on_enter event of the initial state"
            out = blk.output
            if out is edzed.UNDEF or out != ni['output']:
                return 'output', f"output {canon(out)}, expected {canon(ni['output'])}"
            return None, None
        if not pm.state_eq(kind, cur, ni['state']):
            return 'state', f"state {canon(cur)}, normal initialisation gives {canon(ni['state'])}"
        msg = self.output_ok(b, blk, cur)
        if msg:
            return 'output', msg
        return None, None

    def judge_start(self, snap, now_lo, now_hi, garbage_key=None, read_key=None, first=False,
                    fired_keys=()):
        """
        Compare every block with the model's verdict for the storage content 'snap' the
        circuit was started from. Returns (outcomes, [(name, deadline)] of restored timers).
        """
        R = self.R
        stop_ts = snap.get('edzed-stop-time')
        outcomes = []
        timers = []
        for name in self.real_names():
            b = self.specs[name]
            key = self.keys[name]
            present = key in snap
            value = snap.get(key)
            if key == garbage_key:
                outcomes.append('G')
                continue
            fired = key in fired_keys and present
            if fired:
                # the harness knows: when this entry was the current one, its timer had already
                # fired, the timed event had been rejected and the block stayed in the state
                # without a timer (documented) - nothing ran out during the downtime
                value = [value[0], None, value[2]]
            allowed, reason, deadline = pm.restore_verdict(b, present, value, stop_ts, now_lo, now_hi)
            if key == read_key and present and b['persistent']:
                allowed = allowed | {'init'}
                reason = 'read-error'
            if len(allowed) > 1:
                R.fired('reach:decision_in_band')
            ok, cur = self.cur_state(name)
            if not ok:
                self.violate('C06/restore/uninitialised', f"{name}: not initialised after the start")
                outcomes.append('?')
                continue
            kres = None
            if (b.get('kick') and pm.is_fsm(b['kind']) and 'restore' in allowed and present
                    and pm.split_fsm_state(value) is not None):
                # interlock: the restored output made the relay send an event back at once
                kres = pm.apply_event(b, value, b['kick']['ev'], b['kick'].get('data', {}),
                                      fsmlib.STR_DURATIONS)
                if 'error' in kres:
                    R.fired('interlock_event_fails')
                    outcomes.append('k')
                    continue
                if not kres['accepted']:
                    R.fired('reach:interlock_event_rejected')
                    kres = None
            if any(e[0] == 'timer' for e in self.events[name]):
                # a timer fired before the harness could look; only the firing time is judged
                outcomes.append('F')
                if deadline is not None and 'restore' in allowed and kres is None:
                    timers.append((name, deadline, allowed, deadline))
                continue
            if pm.is_fsm(b['kind']):
                n_handles = self.live_timers(name)
                parts = pm.split_fsm_state(cur)
                if parts is not None and n_handles != (0 if parts[1] is None else 1):
                    self.violate('C06/restore/timer-handles',
                                 f"{name}: {n_handles} timer handle(s) of the block are pending "
                                 f"after the start, its state is {canon(cur)}")
            r_clause, r_msg = (None, None)
            if 'restore' in allowed and kres is not None:
                r_clause, r_msg = self.match_kicked(b, name, kres, cur, now_lo, now_hi)
                if r_clause is None:
                    outcomes.append('K')
                    R.fired('reach:interlock_transition_at_restore')
                    new_ts = pm.split_fsm_state(cur)[1]
                    if new_ts is not None or deadline is not None:
                        # let the loop run on: the new timer (if any) must be the next to fire,
                        # nothing may fire for the block before
                        timers.append((name, new_ts, allowed,
                                       new_ts if new_ts is not None else deadline))
                    continue
            elif 'restore' in allowed:
                r_clause, r_msg = self.match_restore(b, name, value, cur)
                if r_clause is None:
                    if deadline is not None:
                        outcomes.append('T')
                        timers.append((name, deadline, allowed, deadline))
                        R.fired('reach:restored_with_timer')
                    else:
                        outcomes.append('R')
                    R.fired('reach:first_run_restored' if first else 'reach:restored')
                    if reason == 'no-timestamp':
                        R.fired('reach:no_timestamp_no_expiry')
                    elif pm.expiration_s(b) is not None and reason == 'usable':
                        R.fired('reach:not_expired')
                    continue
            i_clause, i_msg = (None, None)
            if 'init' in allowed:
                i_clause, i_msg = self.match_init(b, name, cur, now_lo, now_hi)
                if i_clause is None:
                    outcomes.append({'absent': '-', 'expired': 'E', 'expiration<=0': 'Z',
                                     'timer-elapsed': 'X'}.get(reason, 'I'))
                    probe = {'expired': 'expired', 'expiration<=0': 'expiration_le_0',
                             'timer-elapsed': 'timer_elapsed_in_downtime'}.get(reason)
                    if probe and present:
                        R.fired(f"reach:{probe}")
                    continue
            outcomes.append('!')
            where = f"{name} ({b['kind']}, expiration={canon(b['expiration'])}, stop time in storage "\
                    f"{canon(stop_ts)}, started at {now_lo:.6f}, stored "\
                    f"{canon(snap.get(key)) if present else '<absent>'})"
            if allowed == {'restore'}:
                i_clause2, _ = self.match_init(b, name, cur, now_lo, now_hi)
                if i_clause2 is None and fired:
                    self.violate('C06/restore/valid-state-discarded/fired-timer-saved-as-pending',
                                 f"{where}: at the crash the block was in state {value[0]!r} WITHOUT a "
                                 "timer (its timed event had been rejected), but get_state() still "
                                 f"reported the fired timer {canon(snap.get(key))}; the restart took "
                                 "this for a timer that ran out during the downtime and initialised "
                                 f"the block normally: {canon(cur)}")
                elif i_clause2 is None:
                    self.violate('C06/restore/valid-state-discarded',
                                 f"{where}: the saved state is usable ({reason}) but the block was "
                                 f"initialised normally: {canon(cur)}")
                else:
                    self.violate(f"C06/restore/{r_clause}", f"{where}: {r_msg}")
            elif allowed == {'init'}:
                r2, _ = self.match_restore(b, name, value, cur) if present and kres is None \
                    else ('x', None)
                if r2 is None:
                    self.violate(f"C06/restore/stale-state-used/{reason}",
                                 f"{where}: the saved state must be discarded ({reason}) but was "
                                 f"restored: {canon(cur)}")
                else:
                    self.violate(f"C06/restore/init-differs/{i_clause}",
                                 f"{where}: normal initialisation expected ({reason}): {i_msg}")
            else:
                self.violate(f"C06/restore/{r_clause}",
                             f"{where}: neither restored ({r_msg}) nor normally initialised ({i_msg})")
        return outcomes, timers


# --------------------------------------------------------------------------- execution

def initial_storage(plan):
    ini = plan.get('initial') or {}
    data = {}
    if ini.get('stop_age') is not None:
        data['edzed-stop-time'] = plan['start_wall_us'] / 1e6 - float(ini['stop_age'])
        if ini.get('stop_invalid'):
            data['edzed-stop-time'] = 'yesterday'
    for key, value in ini.get('edzed') or []:
        data[key] = value
    if ini.get('foreign'):
        data[ini['foreign']] = 1
    return data


def restart(R, plan, k, snap, wall_us, stats, fired_names=()):
    """Start the (second) circuit from the snapshot on a new loop; judge it."""
    fault = plan.get('fault') or {}
    second = plan.get('second') or {}
    drop = set(second.get('drop') or [])
    specs = [b for b in plan['blocks'] if b['kind'] in KINDS and b['name'] not in drop]
    run2 = Run(plan['knobs2'], wall_start_us=wall_us, tz_offset_s=plan['tz_s'])
    try:
        loop = run2.loop
        snap2 = copy.deepcopy(snap)
        extra_foreign = [kv[0] for kv in second.get('foreign') or []]
        for key, value in (second.get('foreign') or []) + (second.get('edzed') or []):
            snap2.setdefault(key, value)
        storage = ObsStorage(initial=snap2)
        sim = Sim(R, run2, plan, f"k{k}", specs, storage, verbose=False)
        storage._clock = lambda: [loop._ns, sim.phase(), seams.wall_us()]
        storage.observer = sim.on_write
        storage.written = sim.on_written
        sim.build()
        circuit = sim.circuit
        garbage_key = read_key = None
        if fault.get('kind') == 'garbage' and fault['blk'] in sim.keys:
            garbage_key = sim.keys[fault['blk']]
            sim.unjudged_key = garbage_key
            storage._data[garbage_key] = copy.deepcopy(fault['value'])
            storage._initial[garbage_key] = copy.deepcopy(fault['value'])
            snap2[garbage_key] = copy.deepcopy(fault['value'])
            R.fired('reach:garbage_injected')
            R.fired('fault:storage_garbage')
        if fault.get('kind') == 'read' and fault['blk'] in sim.keys:
            read_key = sim.keys[fault['blk']]
            storage.fail_reads = {read_key}
        all_keys = set(sim.keys.values())
        dropped_keys = [key for key in snap2 if key not in all_keys and not key.startswith('edzed-')]
        reserved = {key: value for key, value in snap2.items() if key.startswith('edzed-')}
        info = {'outcomes': None, 'by_name': {}}

        async def main2():
            now_lo = seams.wall_now()
            simtask = asyncio.create_task(circuit.run_forever())
            started = True
            err = None
            try:
                await circuit.wait_init()
            except edzed.EdzedInvalidState as exc:
                started = False
                err = exc
            now_hi = seams.wall_now()
            content = storage._data
            for key in dropped_keys:
                if key in content:
                    sim.violate('C06/unknown-key-kept',
                                f"entry {key!r} belongs to no persistent block of the started circuit "
                                "but was not removed")
                else:
                    R.fired('reach:unknown_key_removed')
                    if key not in extra_foreign:
                        R.fired('reach:block_removed_in_restart')
            for key, value in reserved.items():
                if key not in content or (content[key] != value
                                          and (started or key != 'edzed-stop-time')):
                    sim.violate('C06/reserved-key-removed',
                                f"reserved entry {key!r}: {canon(value)} was removed or changed at start")
                else:
                    R.fired('reach:reserved_key_kept')
            if not started:
                if garbage_key is not None:
                    R.fired('garbage_start_failed')
                elif sim.failed and all(
                        sim.failed_origin.get(n) == 'timer' or sim.specs[n].get('kick')
                        for n in sim.failed):
                    # a restored timer fired within microseconds of the start and the generated
                    # FSM failed in its own timed event before wait_init() could return (or its
                    # interlock event failed); a failing restoration is NOT excused
                    R.fired('restart_ended_by_fsm_error')
                else:
                    sim.violate(f"C06/restart-failed/{type(circuit.error).__name__}",
                                f"the restart from the storage failed: {canon(err)}")
                try:
                    await simtask
                except (Exception, asyncio.CancelledError):     # pylint: disable=broad-except
                    pass
                return
            sim.ack_all()
            sim.check_all('after-init')
            outcomes, timers = sim.judge_start(
                snap2, now_lo, now_hi, garbage_key, read_key,
                fired_keys=[sim.keys[n] for n in fired_names if n in sim.keys])
            info['outcomes'] = ''.join(outcomes)
            info['by_name'] = dict(zip(sim.real_names(), outcomes))
            timers = [t for t in timers if t[3] - now_hi <= FIRE_HORIZON]
            if timers:
                slack = (sim.lat_us + 100 * sim.cost_us + 200) / 1e6
                horizon = max(t[3] for t in timers) + slack + 1e-4
                fut = loop.create_future()
                when = (horizon * 1e9 - seams.S.wall_offset_ns) / 1e9
                loop.call_exact(when, fut.set_result, None)
                await fut
                for name, deadline, allowed, _watch in timers:
                    fires = [e for e in sim.events[name] if e[0] == 'timer']
                    if deadline is None:
                        # the block left its restored timed state during the start: no timer
                        if fires:
                            sim.violate('C06/restored-timer/stale-event',
                                        f"{name}: timed event {fires[0][2]} delivered at "
                                        f"{fires[0][1] / 1e6:.6f} although the state entered during "
                                        "the start has no timer (timer of the restored state?)")
                        continue
                    if not fires:
                        # (not when another block's failure has ended the simulation meanwhile)
                        if allowed == {'restore'} and circuit.error is None:
                            sim.violate('C06/restored-timer/not-fired',
                                        f"{name}: the restored timer (deadline {deadline:.6f}) did not "
                                        f"fire until {horizon:.6f}")
                        continue
                    tw = fires[0][1] / 1e6
                    if tw < deadline - pm.TS_TOL:
                        sim.violate('C06/restored-timer/early',
                                    f"{name}: the restored timer fired at {tw:.6f}, "
                                    f"{deadline - tw:.6f}s before the stored deadline {deadline:.6f}")
                    elif tw > deadline + slack:
                        sim.violate('C06/restored-timer/late',
                                    f"{name}: the restored timer fired at {tw:.6f}, "
                                    f"{tw - deadline:.6f}s after the stored deadline {deadline:.6f}")
                    else:
                        R.fired('reach:restored_timer_fired')
            sim.ack_all()
            try:
                await circuit.shutdown()
            except Exception as exc:    # pylint: disable=broad-except
                # (a generated FSM may legally fail in a timer event; that is not C06's business)
                if not sim.failed and garbage_key is None:
                    sim.violate('C06/restart-aborted',
                                f"the restarted simulation ended with {canon(exc)}")
            await asyncio.sleep(0)

        run2.run(main2())
        if run2.main_exc is not None:
            if isinstance(run2.main_exc, PlanError):
                raise run2.main_exc
            R.harness_error = R.harness_error or f"restart {k}: {type(run2.main_exc).__name__}: {run2.main_exc}"
        if run2.harness_error:
            R.harness_error = R.harness_error or f"restart {k}: {run2.harness_error}"
        if read_key is not None and storage.read_errors:
            R.fired('reach:read_error_fired')
            R.fired('fault:storage_read_error', storage.read_errors)
        if garbage_key is None:
            sim.journal_rules(False, None)
        stats['steps'] += loop.steps
        stats['sim_seconds'] += run2.now()
        R.log('restart', k, wall_us, info['outcomes'], len(storage.journal))
        return info['outcomes'], info['by_name']
    finally:
        run2.close()


def downtime_us(spec, snap, blocks, keys, wall_crash_s):
    """Interpret one downtime specification for a crash point. Returns microseconds >= 1000."""
    mode, val = spec[0], float(spec[1])
    fallback = float(spec[2]) if len(spec) > 2 else 1.0
    d = None
    if mode == 'timer':
        rem = []
        for b in blocks:
            if pm.is_fsm(b['kind']) and keys.get(b['name']) in snap:
                parts = pm.split_fsm_state(snap[keys[b['name']]])
                if parts and parts[1] is not None and parts[1] > wall_crash_s:
                    rem.append(parts[1] - wall_crash_s)
        if rem:
            d = min(rem) * val
    elif mode == 'exp':
        ts = snap.get('edzed-stop-time')
        exps = [pm.expiration_s(b) for b in blocks if b['kind'] in KINDS and b.get('persistent')]
        exps = [e for e in exps if e is not None and e > 0]
        if isinstance(ts, float) and exps:
            d = ts + min(exps) * val - wall_crash_s
    elif mode == 'abs':
        d = val
    else:
        raise PlanError(f"bad downtime {spec}")
    if d is None:
        d = fallback
    return int(round(max(d, 0.001) * 1e6))


def execute(plan, trace=False):
    try:
        knobs, knobs2 = plan['knobs'], plan['knobs2']
        blocks = plan['blocks']
        downtimes = plan['downtimes']
        if not downtimes or not blocks:
            raise PlanError('empty plan')
    except (KeyError, TypeError) as err:
        raise PlanError(f"malformed plan: {err}") from None
    run = Run(knobs, wall_start_us=plan['start_wall_us'], tz_offset_s=plan['tz_s'])
    closed = False
    try:
        loop = run.loop
        off1 = seams.S.wall_offset_ns
        fault = plan.get('fault') or {}
        init_data = initial_storage(plan)
        storage = ObsStorage(initial=init_data)
        relaxed = set()
        sim = Sim(run, run, plan, 'run1', blocks, storage)
        storage._clock = lambda: [loop._ns, sim.phase(), seams.wall_us()]
        storage.observer = sim.on_write
        storage.written = sim.on_written
        sim.build()
        circuit = sim.circuit
        for name, value in (plan['initial'].get('prev') or {}).items():
            if name in sim.keys and sim.specs[name]['persistent']:
                storage._data[sim.keys[name]] = copy.deepcopy(value)
                storage._initial[sim.keys[name]] = copy.deepcopy(value)
        init_data = storage.content()
        wkey = None
        if fault.get('kind') == 'write':
            wkey = sim.keys.get(fault['blk']) if fault.get('blk') else 'edzed-stop-time'
            if wkey is None:
                raise PlanError('fault refers to a missing block')
            sim.relaxed.add(wkey)
            if fault['at_op'] == 'init':
                storage.fail_writes[wkey] = fault['n']
        info = {'started': False, 'regular': False, 'first_outcomes': ''}

        jump = plan.get('jump') or {}

        def wall_of(stamp):
            return stamp[2] / 1e6

        def clock_jump():
            delta = float(jump['delta_s'])
            seams.jump_wall(delta)
            run.fired('fault:clock_jump_fwd' if delta > 0 else 'fault:clock_jump_back')
            run.log('clock-jump', delta)
            sim.beh.append(['jump', delta > 0])
            sim.ack_all()       # the same states, expressed in the new clock

        def do_op(i, op):
            if wkey is not None and fault['at_op'] == i:
                storage.fail_writes[wkey] = fault['n']
            if jump and jump['at_op'] == i and circuit.is_ready():
                clock_jump()
            sim.send(op)

        def second_termination(simtask):
            if not simtask.done():
                run.fired('fault:second_terminate')
                run.fired('reach:second_termination_in_cleanup')
                run.log('second-termination')
                simtask.cancel()

        abort = plan.get('abort') or {}

        async def main():
            now_lo = seams.wall_now()
            simtask = asyncio.create_task(circuit.run_forever())
            if abort.get('how') == 'harness':
                # terminate around the first loop iteration after the start() calls
                for _ in range(int(abort.get('steps', 1))):
                    await asyncio.sleep(0)
                run.fired(f"fault:terminate:{abort.get('mode')}")
                if abort.get('mode') == 'cancel':
                    simtask.cancel()
                elif abort.get('mode') == 'shutdown':
                    circuit.abort(asyncio.CancelledError('shutdown'))
                else:
                    circuit.abort(Injected('abort() by the application'))
            try:
                await circuit.wait_init()
                info['started'] = True
            except edzed.EdzedInvalidState as err:
                run.log('init-failed', canon(err))
            except AttributeError as err:
                # wait_init() after an abort() that preceded the start: the simulation task ends
                # before Circuit._init_done exists (not C06's business; counted)
                if not abort:
                    raise
                run.fired('wait_init_attribute_error')
                run.log('init-failed', canon(err))
            now_hi = seams.wall_now()
            if not info['started']:
                try:
                    await simtask
                except (Exception, asyncio.CancelledError):     # pylint: disable=broad-except
                    pass
                sim.ack_all()
                untouched = all(getattr(sim.blocks[n], 'init_steps_completed', 0) == 0
                                for n in sim.real_names())
                sim.start_failed = sim.start_raised or untouched
                if sim.start_raised:
                    run.fired('reach:start_failed')
                elif untouched:
                    run.fired('reach:terminated_before_init')
                else:
                    run.fired('reach:init_failed')
                    if any(sim.specs[n]['persistent'] and not sim.blocks[n].is_initialized()
                           for n in sim.real_names()):
                        run.fired('reach:init_failed_persistent_block_uninitialised')
                run.log('start-up', sim.start_raised, untouched)
                return
            sim.ack_all()
            sim.check_all('after-init')
            outcomes, _timers = sim.judge_start(init_data, now_lo, now_hi, first=True)
            info['first_outcomes'] = ''.join(outcomes)
            for i, op in enumerate(plan['ops']):
                run.at(float(op['t']), do_op, i, op)
            fut = loop.create_future()
            run.at(float(plan['stop_at']), fut.set_result, None)
            await fut
            if jump and jump['at_op'] == 'stop' and circuit.is_ready():
                clock_jump()
            if circuit.is_ready():
                sim.ack_all()
                sim.check_all('before-stop')
                info['regular'] = True
                if plan.get('second_term') is not None:
                    loop.call_exact(loop.time() + float(plan['second_term']) + 1e-4,
                                    second_termination, simtask)
            if wkey is not None and fault['at_op'] == 'stop':
                storage.fail_writes[wkey] = fault['n']
            try:
                await circuit.shutdown()
            except Exception as err:    # pylint: disable=broad-except
                run.log('stopped-with', canon(err))
            await asyncio.sleep(0)

        run.run(main())
        if sim.plan_error:
            raise PlanError(sim.plan_error)
        if run.main_exc is not None:
            if isinstance(run.main_exc, PlanError):
                raise run.main_exc
            run.harness_error = run.harness_error or \
                f"first run: {type(run.main_exc).__name__}: {run.main_exc}"
        journal = storage.journal
        if info['regular'] and any(b['kind'] == 'slowstop' for b in blocks):
            run.fired('reach:slow_cleanup')
        if storage.write_errors:
            run.fired('reach:write_error_fired')
            run.fired('fault:storage_write_error', storage.write_errors)
        if run.harness_error is None:
            sim.journal_rules(info['regular'], wall_of)
        run.log('journal', [[e[0], e[1], canon(e[2]), e[3][1]] for e in journal])
        first_ns = knobs.get('origin_ns', 0)
        run.close()
        closed = True
        # ---- enumerate the crash points
        stats = {'steps': 0, 'sim_seconds': 0.0}
        n_points = len(journal) + 1
        if n_points > MAX_CRASH_POINTS:
            run.fired('crash_points_capped')
            n_points = MAX_CRASH_POINTS
        all_outcomes = []
        nontrivial = False
        stop_idx = [i for i, e in enumerate(journal) if e[3][1] == 'stop' and e[0] == 'set']
        last_set_wall = {}
        if run.harness_error is None:
            for k in range(n_points):
                snap = storage.snapshot(k)
                t_ns = journal[k - 1][3][0] if k else first_ns
                if k:
                    e = journal[k - 1]
                    if e[0] == 'set':
                        last_set_wall[e[1]] = wall_of(e[3])
                wall_crash_us = journal[k - 1][3][2] if k else plan['start_wall_us']
                d_us = downtime_us(downtimes[k % len(downtimes)], snap, blocks, sim.keys,
                                   wall_crash_us / 1e6)
                if info['regular'] and stop_idx:
                    if stop_idx[0] < k < len(journal):
                        run.fired('reach:crash_inside_stop_sequence')
                    if k == len(journal) - 1 and journal[-1][1] == 'edzed-stop-time':
                        run.fired('reach:crash_before_stop_timestamp')
                fired_names = []
                for name in sim.real_names():
                    flog = [f for ns, f in sim.fired_log[name] if ns <= t_ns]
                    at_crash = [st for ns, st in sim.ack_log[name] if ns <= t_ns]
                    if flog and flog[-1] and at_crash and pm.state_eq(
                            sim.specs[name]['kind'], at_crash[-1], snap.get(sim.keys[name])):
                        fired_names.append(name)
                out, by_name = restart(run, plan, k, snap, wall_crash_us + d_us, stats, fired_names)
                all_outcomes.append(out)
                for name, oc in by_name.items():
                    b = sim.specs[name]
                    if oc in 'RT' and b['persistent'] and not b['sync_state']:
                        at_crash = [st for ns, st in sim.ack_log[name] if ns <= t_ns]
                        if at_crash and not pm.state_eq(b['kind'], at_crash[-1],
                                                        snap.get(sim.keys[name])):
                            run.fired('reach:sync_off_stale_state_restored')
                if out and any(c in out for c in 'RTF'):
                    nontrivial = True
                # informational: the literal reading of "older than its expiration"
                if out and 'E' in out:
                    now_s = (wall_crash_us + d_us) / 1e6
                    for b in blocks:
                        key = sim.keys.get(b['name'])
                        exp = pm.expiration_s(b) if b['kind'] in KINDS else None
                        if key in last_set_wall and exp and now_s - last_set_wall[key] < exp:
                            run.fired('literal_age_disagrees')
                if run.harness_error:
                    break
            run.stats['crash_points'] += n_points
        # reach probes that need the whole history
        for name in sim.real_names():
            b = sim.specs[name]
            if b['persistent'] and b['sync_state'] and any(e[0] == 'timer' for e in sim.events[name]):
                run.fired('reach:crash_after_timer_event')
        run.beh([[b['kind'], b.get('persistent'), b.get('sync_state'),
                  None if b.get('expiration') is None else (pm.expiration_s(b) > 0)]
                 for b in blocks],
                plan.get('scenario'), fault.get('kind'), info['first_outcomes'], sim.beh,
                all_outcomes)
        res = run.result()
        res['steps'] += stats['steps']
        res['sim_seconds'] += stats['sim_seconds']
        if not nontrivial:
            res['behaviour'] = None
        if trace:
            res['trace'] = run.trace
        return res
    finally:
        if not closed:
            run.close()
