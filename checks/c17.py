"""
C17 - an Input never outputs a value that its validators reject.

Real code: edzed.Input / edzed.InputExp (with the _Validation mix-in) in a running circuit on
the virtual loop. Validators are scripted probes built from random tables over a small domain
of JSON values (ints, floats, bools, strings, None and the unhashable values [], [1], [1, 2],
{'k': 1}); schema entries may raise. Puts arrive externally (ExtEvent) and from another block
(Event), also during initialisation; persistent storage (SimStorage) with pre-stored values
inside / outside the accepted set and garbage; a real restart (second simulation from the
storage the first one left, untouched / tampered / with new validators); InputExp expirations
interleave with puts in virtual time (placed before / in the same instant as / after the
predicted expiry, tie order drawn); constructor probes for initdef / expired values.
Oracle: models/input_model.py. Predictive for each put (return value True/False, output,
state, output events, validators see the original value), monitor style for InputExp
expirations (the observed order of a put and an expiry in one instant is consumed).
After every rejected or ill-fitting put: event returned False, output/state/timer unchanged,
no output event, circuit.is_ready() and circuit.error is None, and the following puts work.

Genuine defect found on the unchanged tree (DESIGN section 6, F12; replays in
/verif/known/C17-F12-allowed-unhashable-*.json): Input/InputExp with allowed=... and a put
(or a restored / init-time value) that is unhashable, e.g. a list: 'value not in frozenset'
raises TypeError inside the handler, so the simulation is aborted instead of "rejected, returns
False, nothing changes" -> signature C17/rejected-put-aborts/allowed-unhashable. The rest of
the check was validated against a scratch copy with the candidate repair (TypeError of the
membership test = not allowed).

Strengthened after the seeded round 3 (all three detected at the quick tier):
  C17-s7 restored FSM timer not tracked -> an accepted put after a restart is overwritten by
         the expiry of the previous value       C17/accepted-value-expired-early/put-after-restart
  C17-s8 loop/Unix time difference cached -> after a wall clock step the saved expiry is wrong
         C17/wrong-initial-output, C17/accepted-value-expired-early/restored-value,
         C17/expired-value-still-valid
  C17-s9 restored remaining time clamped to the default duration (per-event duration ignored)
         C17/accepted-value-expired-early/restored-value

Strengthened after the seeded round 4 (both detected at the quick tier):
  C17-s10 no early initialisation for a block whose initialisation has not started: a put sent
          as soon as is_ready() is true (no wait_init()) or forwarded by an earlier-created
          persistent block's restore is overwritten by the value restored afterwards
          C17/wrong-initial-output/put-overwritten-by-restore
  C17-s11 Input: set_output() inside the try that catches the validation error: a ValueError of
          a consumer of the output event makes the put return False after the output changed
          C17/returned-False-but-output-changed

Sensitivity (8000 runs of the quick tier against the repaired scratch copy + one mutation;
"caught" = exit 1; all mutations are in edzed/blocklib/sblocks2.py unless noted):

  mutant                                                              result  first signature
  A  schema applied before check (DESIGN)                             caught  C17/validator-saw-modified-value
  B  output set before validation, reverted on rejection (DESIGN)     caught  C17/rejected-put-sent-output-event
  C  allowed ignored when empty (DESIGN)                              caught  C17/rejected-value-accepted/allowed,
                                                                              C17/invalid-initdef-accepted/allowed
  D  InputExp stores the unvalidated value (DESIGN)                   caught  C17/wrong-output
  E  Input._restore_state sets the output without validation          caught  C17/rejected-initial-value-used
  F  initdef not validated when the Input is created                  caught  C17/invalid-initdef-accepted/*
  G  InputExp: expired value not validated / not passed to schema     caught  C17/wrong-output-after-expiry,
                                                                              C17/invalid-expired-accepted/schema
  H  InputExp: rejected put accepted once a value was stored          caught  C17/rejected-value-accepted/*
  H2 InputExp: rejected put silently re-arms the expiry timer         caught  C17/rejected-put-changed-state
  I  check() result compared with 'is True' instead of truthiness     caught  C17/acceptable-value-rejected
  J  schema: only ValueError counts as rejection, others abort        caught  C17/rejected-put-aborts
  M  InputExp: sdata['input'] written before the validation           caught  C17/rejected-put-changed-state
  N  InputExp: rejected put in state 'expired' revives the old value  caught  C17/rejected-value-accepted/*
     (needs put, expiry, rejected put)
  O  allowed membership also compares types (1 vs True vs 1.0)        caught  C17/acceptable-value-rejected
  P  Input restore validates 'allowed' only (check/schema skipped)    caught  C17/wrong-initial-output
  Q  fsm.py: restored InputExp value altered (1 -> 0) on restore      caught  C17/wrong-initial-output (20000 runs,
     (needs a restart while the value is still valid)                         first at run 1544)
  F12 reverted (the unchanged tree)                                   caught  C17/rejected-put-aborts/allowed-unhashable
"""

from __future__ import annotations

import asyncio
import copy

from simkit import seams
from simkit.runner import Run, PlanError, canon, gen_knobs
from simkit.storage import SimStorage
from models.input_model import (Validators, InputModel, InputExpModel, UNDEF, key, unhashable)
from checks import fsmlib

edzed = seams.install()

PROP = 'C17'
LEVEL = 'exploration'
RUNS = {'quick': 60000, 'thorough': 3000000}
CHUNK = 500
RULE = ("one run = one Input (60%) or InputExp (40%) with one of the 8 presence combinations of "
        "allowed/check/schema (run index mod 8), validator tables drawn over a 19 value domain "
        "incl. unhashable values and raising schema entries, initial value from initdef / "
        "pre-stored persistent value (inside, outside the accepted set, garbage) / an event sent "
        "during initialisation, 1-8 puts sent externally or by another block (InputExp: placed "
        "around the predicted expirations, per-event durations incl. 0 and infinite), 0-3 "
        "constructor probes (initdef / expired inside and outside the accepted set), and for 40% "
        "of the persistent runs a restart from the storage left behind (untouched / tampered / "
        "entry deleted / new validator tables; InputExp: round trip only) followed by 0-4 puts; "
        "half of the persistent InputExp runs are 'restart window' runs: a last accepted put "
        "(default or per-event duration up to 5 s), stop while it is valid, restart before it "
        "expires, puts around the restored expiry, time running on past the restored and the "
        "newest expiry; 35% of the InputExp restart runs step the wall clock (+-0.3 s .. 1 h) "
        "during the first simulation. Input runs: 20% send 1-2 external puts as soon as "
        "is_ready() is true (before wait_init(), i.e. before the saved state is restored), 20% "
        "of the persistent ones have an earlier-created persistent block whose restored value is "
        "forwarded by its on_output event, 20% have a consumer of the output events (destination "
        "handler or event filter) that raises ValueError for 1-4 of the acceptable results. "
        "non-trivial = at least one put was delivered to a running block; distinct = hash of "
        "(kind, combination, init source verdicts, per put: route, accepted or the rejecting "
        "validator, unhashable, tie/expiry position; restart shape)")
REACH_EXPECTED = ['rejected_by_allowed', 'rejected_by_check', 'rejected_by_schema',
                  'schema_changed_value', 'unhashable_put', 'unhashable_put_with_allowed',
                  'followup_after_rejected', 'via_block', 'restored_accepted', 'restored_rejected',
                  'start_fails_uninitialised', 'init_event', 'ctor_refused_initdef',
                  'ctor_refused_expired', 'ctor_accepted', 'expiry', 'rejected_put_while_valid',
                  'tie_put_before_expiry', 'tie_expiry_before_put', 'put_after_expiry', 'restart',
                  'restart_tampered', 'restart_new_validators', 'inputexp_roundtrip_valid',
                  'inputexp_roundtrip_expired', 'zero_duration_put', 'empty_allowed',
                  'all_three_validators', 'accepted_put_before_restored_expiry',
                  'restart_inside_validity_window', 'restored_longer_than_default_duration',
                  'restart_in_window_after_clock_jump', 'early_put_before_initialisation',
                  'early_put_accepted_with_saved_value', 'forwarded_restored_value',
                  'consumer_fault']
ASSUMPTIONS = [
    "initialisation order as documented (docs/blocks.rst): saved persistent value, initdef if "
    "still uninitialised, events last; a block receiving an event earlier completes its own "
    "initialisation first; external puts before wait_init() come first, then the value "
    "forwarded by the earlier-created block, then events from regular init routines",
    "a ValueError raised by a consumer of the Input's output event is not a validation failure: "
    "it propagates out of the event handler (the simulation stops, as documented for errors in "
    "handlers); the only thing demanded then is that the put is not reported as False with a "
    "changed output, and that the output holds the accepted value",
    "'among allowed' and 'unchanged' mean Python == (DESIGN 3.3); 1, 1.0 and True are one value",
    "validators are total functions given by tables (check never raises; schema raises only "
    "subclasses of Exception); members of 'allowed' are hashable",
    "InputExp: expirations are consumed as observed (ties are legal both ways), but an accepted "
    "value must last: an expiration earlier than (time the accepted put was sent + its duration) "
    "on the monotonic clock is a violation, also after a restart (downtime measured on the wall "
    "clock incl. injected steps; tolerance 2 us, 1 ms for restored timers) and a value that "
    "outlives that moment by more than latency + 50 x cost + 50 ms is one too; a state that "
    "expired during the downtime (or within 50 ms of it) has no documented outcome and is not "
    "judged",
    "InputExp restore is only checked for round trip (DESIGN 3.3), never fed with tampered data",
]

DOMAIN = [0, 1, 2, 3, -1, 10, 'a', 'b', 'on', '', None, True, False, 1.0, 2.5,
          [1], [], [1, 2], {'k': 1}]
HASHABLE = [v for v in DOMAIN if not isinstance(v, (list, dict))]
GARBAGE = ['garbage', 12345, {'x': [1]}, [[2]], -0.5]
TRUTHY = [True, True, 1, 'yes', [0]]
FALSY = [False, False, 0, '', None, []]
EXCS = ['ValueError', 'TypeError', 'KeyError', 'ZeroDivisionError', 'Custom']
OFFSETS = [-0.1, -0.001, -1e-6, 0.0, 0.0, 0.0, 1e-6, 0.001, 0.1]


class Custom(Exception):
    """A schema error that is not a ValueError."""


EXC_TYPES = {'ValueError': ValueError, 'TypeError': TypeError, 'KeyError': KeyError,
             'ZeroDivisionError': ZeroDivisionError, 'Custom': Custom}


# --------------------------------------------------------------------------- generation

def gen_vspec(rng, combo):
    vspec = {'allowed': None, 'allowed_as': 'list', 'check': None, 'schema': None}
    if combo & 1:
        n = rng.choice([0, 1, 2, 3, 5, 8, 12])
        vspec['allowed'] = rng.sample(HASHABLE, min(n, len(HASHABLE)))
        vspec['allowed_as'] = rng.choice(['list', 'tuple', 'set', 'frozenset', 'dictkeys'])
    if combo & 2:
        p = rng.choice([0.3, 0.6, 0.9])
        vspec['check'] = {
            'table': {key(v): rng.choice(TRUTHY) if rng.random() < p else rng.choice(FALSY)
                      for v in DOMAIN},
            'default': rng.choice(TRUTHY + FALSY)}
    if combo & 4:
        table = {}
        p_raise = rng.choice([0.1, 0.3, 0.5])
        for v in DOMAIN:
            r = rng.random()
            if r < p_raise:
                table[key(v)] = ['raise', rng.choice(EXCS)]
            elif r < p_raise + 0.25:
                table[key(v)] = ['ret', v]
            elif r < 0.85:
                table[key(v)] = ['ret', rng.choice(DOMAIN)]
            else:
                table[key(v)] = ['ret', 'S:' + key(v)]
        vspec['schema'] = {'table': table,
                           'default': rng.choice([['raise', 'ValueError'], ['ret', 'dflt'],
                                                  ['raise', 'Custom']])}
    return vspec


def _picker(rng, vals):
    acc = [v for v in DOMAIN if vals.accepts(v)]
    rej = [v for v in DOMAIN if not vals.accepts(v)]

    def pick():
        r = rng.random()
        if r < 0.45 and acc:
            return rng.choice(acc)
        if r < 0.8 and rej:
            return rng.choice(rej)
        return rng.choice(DOMAIN)
    return acc, rej, pick


def _gen_ops(rng, kind, vals, pick, n, duration, deadline):
    """Puts; InputExp: placed relative to the predicted expirations."""
    ops = []
    t = 0.05
    for _ in range(n):
        if kind == 'inputexp' and deadline is not None and rng.random() < 0.65:
            t = max(t, deadline + rng.choice(OFFSETS))
        else:
            t += rng.choice([0.0, 0.0, 0.01, 0.2, 0.4, 1.1])
        t = round(t, 6)
        if deadline is not None and deadline < t:
            deadline = None
        op = {'t': t, 'v': pick(), 'via': 'ext' if rng.random() < 0.65 else 'blk', 'dur': None}
        if kind == 'inputexp':
            if duration is None or rng.random() < 0.3:
                op['dur'] = rng.choice([0.3, 0.7, 1.0, 2.5, 0, 'inf'])
            if vals.accepts(op['v']):
                d = duration if op['dur'] is None else op['dur']
                deadline = None if d in (0, 'inf') else t + d
        ops.append(op)
    return ops, t, deadline


def gen(rng, tier, index=0):
    combo = index % 8
    vspec = gen_vspec(rng, combo)
    vals = Validators(vspec)
    acc, rej, pick = _picker(rng, vals)
    kind = 'inputexp' if acc and rng.random() < 0.4 else 'input'
    exact = kind == 'input' or rng.random() < 0.5
    if kind == 'input':
        knobs = gen_knobs(rng, latency=False, cost=True, ties=False)
    else:
        knobs = gen_knobs(rng, latency=not exact, cost=not exact, ties=True)
        if exact:
            knobs['tie_permute'] = rng.random() < 0.7
    cfg = {'initdef': None, 'persistent': rng.random() < 0.5, 'sync_state': rng.random() < 0.7}
    if acc and rng.random() < 0.6:
        cfg['initdef'] = {'v': rng.choice(acc)}
    plan = {'knobs': knobs, 'kind': kind, 'val': vspec, 'cfg': cfg, 'stored': None,
            'init_event': None, 'ctor': [], 'restart': None}
    deadline = None
    if kind == 'inputexp':
        cfg['duration'] = rng.choice([0.5, 1.0, 2.0, None])
        cfg['expired'] = {'v': None if vals.accepts(None) and rng.random() < 0.5
                          else rng.choice(acc)}
        if cfg['duration'] is None:
            cfg['initdef'] = None
        elif cfg['initdef'] is not None:
            deadline = cfg['duration']
    else:
        if cfg['persistent'] and rng.random() < 0.5:
            plan['stored'] = {'v': rng.choice(GARBAGE) if rng.random() < 0.15 else pick()}
        if rng.random() < 0.25:
            plan['init_event'] = {'v': pick()}
        if cfg['initdef'] is None and plan['stored'] is None and plan['init_event'] is None \
                and acc and rng.random() < 0.85:
            plan['init_event'] = {'v': rng.choice(acc)}
    if kind == 'input':
        if rng.random() < 0.2:
            cfg['early'] = [{'v': pick()} for _ in range(rng.choice([1, 1, 2]))]
        if cfg['persistent'] and rng.random() < 0.2:
            cfg['fwd'] = {'v': pick()}
        if rng.random() < 0.2:
            results = [key(vals.validate(v)[1]) for v in acc] or [key(0)]
            cfg['consumer'] = {'how': rng.choice(['handler', 'filter']),
                               'keys': sorted(set(rng.choice(results)
                                                  for _ in range(rng.choice([1, 2, 4]))))}
    nops = rng.randint(1, 8)
    plan['ops'], t, deadline = _gen_ops(rng, kind, vals, pick, nops, cfg.get('duration'), deadline)
    # "restart window" stratum: a persistent InputExp is stopped while the value accepted last
    # is still valid and restarted before that value expires
    window = kind == 'inputexp' and cfg['persistent'] and rng.random() < 0.5
    if window:
        t = round(t + rng.choice([0.0, 0.01, 0.2]), 6)
        op = {'t': t, 'v': rng.choice(acc), 'via': 'ext' if rng.random() < 0.65 else 'blk',
              'dur': rng.choice([None, None, 1.0, 2.5, 5.0])}
        if cfg['duration'] is None and op['dur'] is None:
            op['dur'] = rng.choice([0.7, 1.0, 2.5, 5.0])
        plan['ops'].append(op)
        deadline = t + (cfg['duration'] if op['dur'] is None else op['dur'])
        plan['stop_at'] = round(t + rng.choice([0.001, 0.1, 0.3]), 6)
    elif kind == 'inputexp' and deadline is not None and rng.random() < 0.5:
        plan['stop_at'] = round(max(t, deadline) + rng.choice([0.001, 0.3]), 6)
    else:
        plan['stop_at'] = round(t + rng.choice([0.0, 0.001, 0.3]), 6)
    for n in range(rng.choice([0, 0, 1, 2, 3])):
        probe = {'kind': rng.choice(['input', 'inputexp']), 'initdef': None,
                 'expired': {'v': None}}
        if rng.random() < 0.8:
            probe['initdef'] = {'v': rng.choice(rej) if rej and rng.random() < 0.5
                                else rng.choice(DOMAIN)}
        if probe['kind'] == 'inputexp':
            r = rng.random()
            probe['expired'] = {'v': rng.choice(acc) if acc and r < 0.5 else
                                (rng.choice(rej) if rej and r < 0.8 else rng.choice(DOMAIN))}
        plan['ctor'].append(probe)
    if cfg['persistent'] and (window or rng.random() < 0.4):
        rs = {'val': None, 'initdef': cfg['initdef'], 'tamper': None,
              'downtime': rng.choice([0.0, 0.2, 3.0])}
        if window:
            rs['downtime'] = rng.choice([0.0, 0.05, 0.2])
            if deadline - plan['stop_at'] - rs['downtime'] < 0.1:
                rs['downtime'] = 0.0
        vals2, pick2 = vals, pick
        if kind == 'input':
            if rng.random() < 0.4:
                rs['val'] = gen_vspec(rng, rng.randrange(8))
                vals2 = Validators(rs['val'])
                acc2, _rej2, pick2 = _picker(rng, vals2)
                rs['initdef'] = {'v': rng.choice(acc2)} if acc2 and rng.random() < 0.6 else None
            elif rng.random() < 0.3:
                rs['initdef'] = None
            r = rng.random()
            if r < 0.4:
                rs['tamper'] = {'v': rng.choice(GARBAGE) if rng.random() < 0.25 else pick2()}
            elif r < 0.5:
                rs['tamper'] = {'delete': True}
            if rng.random() < 0.3:
                rs['early'] = [{'v': pick2()} for _ in range(rng.choice([1, 1, 2]))]
        left = None if deadline is None else max(0.0, deadline - plan['stop_at']) - rs['downtime']
        rs['ops'], t2, dl2 = _gen_ops(rng, kind, vals2, pick2, rng.randint(0, 4),
                                      cfg.get('duration'), left if left and left > 0 else None)
        rs['stop_at'] = round(t2 + rng.choice([0.0, 0.001, 0.3]), 6)
        if kind == 'inputexp' and rng.random() < 0.6:
            # let the time run on: past the restored and the newest expiration
            rs['stop_at'] = round(max(t2, dl2 or 0.0, left or 0.0) + rng.choice([0.01, 0.2]), 6)
        plan['restart'] = rs
        if kind == 'inputexp' and rng.random() < 0.35:
            # wall clock step while the first simulation runs
            i = rng.randrange(len(plan['ops']) + 1)
            tj = 0.02 if i == 0 else round(plan['ops'][i - 1]['t'] + 0.0005, 6)
            if tj <= plan['stop_at']:
                plan['ops'].insert(i, {'t': tj, 'jump': rng.choice(
                    [2.0, 30.0, 600.0, 3600.0, -2.0, -30.0, -600.0, -3600.0, 0.3, -0.3])})
    if rng.random() < 0.15:
        plan['cfg']['subclass'] = True  # the block is an instance of a subclass that adds nothing
    return plan


# --------------------------------------------------------------------------- real blocks

class Sender(edzed.SBlock):
    """Forwards a put to the input block through a regular block-to-block Event."""

    def init_regular(self):
        self.set_output(0)

    def _event_fire(self, *, data, **_kw):
        return edzed.Event(self.x_dest, 'put').send(self, **data)


class InitSender(edzed.SBlock):
    """Sends a put to the input block while the circuit is being initialised."""

    def init_regular(self):
        self.set_output(0)
        edzed.Event(self.x_dest, 'put').send(self, value=copy.deepcopy(self.x_value))


def mk_allowed(vspec):
    lst = vspec['allowed']
    if not isinstance(lst, list):
        raise PlanError('allowed must be a list')
    try:
        how = vspec.get('allowed_as', 'list')
        if how == 'tuple':
            return tuple(lst)
        if how == 'set':
            return set(lst)
        if how == 'frozenset':
            return frozenset(lst)
        if how == 'dictkeys':
            return {v: 0 for v in lst}
        frozenset(lst)
        return list(lst)
    except TypeError:
        raise PlanError('unhashable member of allowed') from None


def validator_kwargs(vspec, calls):
    """The real callables, from the same tables the model reads."""
    try:
        vals = Validators(vspec)
        kw = {}
        if vals.allowed is not None:
            kw['allowed'] = mk_allowed(vspec)
        if vals.check is not None:
            vals.check['table'], vals.check['default']      # pylint: disable=pointless-statement
            def check(value):
                calls.append(('check', key(value)))
                return copy.deepcopy(vals.check_result(value))
            kw['check'] = check
        if vals.schema is not None:
            vals.schema['table'], vals.schema['default']    # pylint: disable=pointless-statement
            def schema(value):
                calls.append(('schema', key(value)))
                kind, res = vals.schema_entry(value)
                if kind == 'raise':
                    raise EXC_TYPES[res](f"schema refuses {value!r}")
                return copy.deepcopy(res)
            kw['schema'] = schema
    except (KeyError, TypeError, AttributeError) as err:
        raise PlanError(f"bad validator spec: {err}") from None
    return vals, kw


def boxed(box):
    """{'v': value} -> value; None -> UNDEF."""
    if box is None:
        return UNDEF
    if not isinstance(box, dict) or 'v' not in box:
        raise PlanError('bad value box')
    return copy.deepcopy(box['v'])


def mk_dur(d):
    if d == 'inf':
        return edzed.INF_TIME
    if d is not None and (isinstance(d, bool) or not isinstance(d, (int, float)) or d < 0):
        raise PlanError('bad duration')
    return d


def ctor_probes(run, plan):
    """An initdef / expired value failing the validation is refused when the block is created."""
    for n, probe in enumerate(plan.get('ctor') or []):
        calls = []
        vals, kw = validator_kwargs(plan['val'], calls)
        initdef = boxed(probe.get('initdef'))
        if initdef is not UNDEF:
            kw['initdef'] = copy.deepcopy(initdef)
        exc = None
        if probe.get('kind') == 'inputexp':
            expired = boxed(probe.get('expired'))
            if expired is UNDEF:
                raise PlanError('probe without expired')
            model = InputExpModel(plan['val'], 1.0, expired, initdef)
            try:
                edzed.InputExp(f"probe{n}", duration=1.0, expired=copy.deepcopy(expired), **kw)
            except Exception as err:    # pylint: disable=broad-except
                exc = err
            what = 'expired' if model.refused_expired else 'initdef'
            shown = expired if model.refused_expired else initdef
        else:
            model = InputModel(plan['val'], initdef)
            try:
                edzed.Input(f"probe{n}", **kw)
            except Exception as err:    # pylint: disable=broad-except
                exc = err
            what, shown = 'initdef', initdef
        run.log('ctor', probe.get('kind'), canon(initdef), canon(probe.get('expired')),
                model.refused, canon(exc))
        run.beh('ctor', probe.get('kind'), model.refused)
        if model.refused:
            run.fired(f"reach:ctor_refused_{what}")
            if exc is None:
                why = vals.validate(shown)[2]
                run.violate(f"C17/invalid-{what}-accepted/{why}",
                            f"{probe.get('kind')}: {what} {canon(shown)} fails the validation "
                            f"({why}) but the block was created")
        else:
            run.fired('reach:ctor_accepted')
            if exc is not None:
                run.violate('C17/valid-initial-value-refused',
                            f"{probe.get('kind')}: initdef {canon(initdef)} / expired "
                            f"{canon(probe.get('expired'))} pass the validation but the "
                            f"constructor raised {canon(exc)}")
    edzed.reset_circuit()


# --------------------------------------------------------------------------- one simulation

def run_phase(run, tag, kind, vspec, cfg, stored, init_event, ops, stop_at, info, resume=None):
    """
    Build the circuit, start, apply the puts, stop. stored: {'v': x} / None = the value in the
    storage at start (Input); resume: InputExp round trip expectation + raw storage content.
    Returns dict(content=storage content after stop, key=..., final=InputExp snapshot, dead=..).
    """
    loop = run.loop
    calls = []
    outev = []
    vals, kw = validator_kwargs(vspec, calls)
    initdef = boxed(cfg.get('initdef'))
    if initdef is not UNDEF:
        kw['initdef'] = copy.deepcopy(initdef)
    persistent = bool(cfg.get('persistent'))
    if persistent:
        kw['persistent'] = True
        kw['sync_state'] = bool(cfg.get('sync_state', True))
    combo = (vals.allowed is not None, vals.check is not None, vals.schema is not None)
    if all(combo):
        run.fired('reach:all_three_validators')
    if vals.allowed is not None and not vals.allowed:
        run.fired('reach:empty_allowed')

    consumer = cfg.get('consumer') if kind == 'input' else None
    if consumer is not None and (not isinstance(consumer, dict)
                                 or consumer.get('how') not in ('handler', 'filter')
                                 or not isinstance(consumer.get('keys'), list)):
        raise PlanError('bad consumer spec')
    fault_keys = set(consumer['keys']) if consumer else set()

    def consumer_fails(value):
        """The scripted consumer of the output events: fails for some values once running."""
        return bool(fault_keys) and not st['initialising'] and key(value) in fault_keys

    def rec_sink(_rec, _etype, data):
        outev.append(copy.deepcopy(data.get('value')))
        if consumer and consumer['how'] == 'handler' and consumer_fails(data.get('value')):
            raise ValueError(f"consumer cannot use {data.get('value')!r}")

    def out_filter(data):
        if consumer_fails(data.get('value')):
            raise ValueError(f"invalid literal for the consumer: {data.get('value')!r}")
        return data

    ctor_exc = None
    blk = None
    try:
        recorder = fsmlib.Recorder('rec', x_sink=rec_sink)
        if consumer and consumer['how'] == 'filter':
            kw['on_output'] = edzed.Event(recorder, 'out', efilter=out_filter)
        else:
            kw['on_output'] = edzed.Event(recorder, 'out')
        fwd_value = boxed(cfg.get('fwd')) if kind == 'input' and persistent else UNDEF
        fwd = None
        if fwd_value is not UNDEF:
            # created BEFORE the input block: its restored value is forwarded to the input
            # block before the simulator has restored the input block itself
            fwd = edzed.Input('fwd', persistent=True, on_output=edzed.Event('inp', 'put'))
        if kind == 'input':
            model = InputModel(vspec, initdef)
            if model.refused:
                raise PlanError('initdef outside the accepted set in the main block')
            try:
                icls = edzed.Input
                if cfg.get('subclass'):
                    icls = type('InputSub', (edzed.Input,), {'__doc__': 'adds nothing'})
                    run.fired('reach:trivial_subclass')
                blk = icls('inp', **kw)
            except Exception as err:    # pylint: disable=broad-except
                ctor_exc = err
        elif kind == 'inputexp':
            expired = boxed(cfg.get('expired'))
            if expired is UNDEF:
                raise PlanError('no expired value')
            duration = cfg.get('duration')
            model = InputExpModel(vspec, duration, expired, initdef)
            if model.refused or (duration is None and initdef is not UNDEF):
                raise PlanError('unusable InputExp configuration')
            dur = mk_dur(duration)
            try:
                icls = edzed.InputExp
                if cfg.get('subclass'):
                    # an instance of a subclass that adds nothing: validation is inherited (F27)
                    icls = type('InputExpSub', (edzed.InputExp,), {'__doc__': 'adds nothing'})
                    run.fired('reach:trivial_subclass')
                blk = icls('inp', duration=dur, expired=copy.deepcopy(expired), **kw)
            except Exception as err:    # pylint: disable=broad-except
                ctor_exc = err
        else:
            raise PlanError(f"unknown kind {kind}")
        if ctor_exc is not None:
            run.log('ctor-main', kind, canon(cfg), canon(ctor_exc))
            run.violate('C17/valid-initial-value-refused',
                        f"{tag}: {kind} with initdef {canon(initdef)} / expired "
                        f"{canon(cfg.get('expired'))}: both pass the validation but the "
                        f"constructor raised {canon(ctor_exc)}")
            return {'content': None, 'key': None, 'final': {}, 'dead': True}
        sender = Sender('sender', x_dest=blk)
        init_value = boxed(init_event)
        if init_value is not UNDEF:
            if kind != 'input':
                raise PlanError('init events are generated for Input only')
            InitSender('isender', x_dest=blk, x_value=init_value)
    except PlanError:
        raise
    except Exception as err:
        raise PlanError(f"construction failed: {type(err).__name__}: {err}") from None
    circuit = edzed.get_circuit()
    storage = None
    restored = UNDEF
    if persistent:
        initial = {}
        if resume is not None:
            initial = copy.deepcopy(resume['content'])
        elif stored is not None:
            if kind != 'input':
                raise PlanError('pre-stored values are generated for Input only')
            initial = {blk.key: boxed(stored), 'edzed-stop-time': 1_699_999_000.0}
        if fwd is not None:
            initial.setdefault('edzed-stop-time', 1_699_999_000.0)
            initial[fwd.key] = copy.deepcopy(fwd_value)
        if kind == 'input' and blk.key in initial:
            restored = copy.deepcopy(initial[blk.key])
        storage = SimStorage(initial=initial, clock=lambda: loop._ns)
        circuit.set_persistent_data(storage)
    st = {'depth': 0, 'origin': None, 'result': None, 'driver': None, 'initialising': True,
          'stopped': False, 'dead': False, 'last_expiry_ns': None, 'prev_rejected': False,
          'deadline_from': None}
    slack = (run.knobs['latency_ns'] + 50 * run.knobs['cost_ns']) / 1e9 + 0.05

    def alive():
        return circuit.is_ready() and circuit.error is None

    def diag(value):
        return '/allowed-unhashable' if vals.allowed is not None and unhashable(value) else ''

    def snapshot():
        if kind == 'input':
            return ('out', copy.deepcopy(blk.output))
        with seams.free_reads():
            state, exp, sdata = blk.get_state()
        return (state, exp, copy.deepcopy(sdata))

    def same_state(a, b):
        if kind == 'input':
            return a == b
        if a[0] != b[0] or a[2] != b[2] or (a[1] is None) != (b[1] is None):
            return False
        return a[1] is None or abs(a[1] - b[1]) < 1e-4

    def resync():
        if kind == 'input':
            model.value = UNDEF if blk.output is edzed.UNDEF else copy.deepcopy(blk.output)
        else:
            model.state = blk.state if blk.state is not edzed.UNDEF else None
            model.value = copy.deepcopy(blk.sdata.get('input', UNDEF))
            model.unknown_timer()

    def out_ok():
        exp = model.output()
        if exp is UNDEF:
            return blk.output is edzed.UNDEF
        return blk.output is not edzed.UNDEF and blk.output == exp

    def check_overdue(where):
        if kind == 'inputexp' and not st['dead'] and model.overdue(run.now(), slack):
            run.violate('C17/expired-value-still-valid',
                        f"{tag} {where}: t={run.now():.6f}: the value {canon(model.value)} should "
                        f"have been replaced by the expired value at {model.deadline:.6f} "
                        f"(accepted put + duration{', restored' if st['deadline_from'] == 'restore' else ''}); "
                        f"output {canon(blk.output)}, state {canon(blk.state)}")
            model.unknown_timer()

    def hook(phase, _blk, etype, arg):
        if phase == 'pre':
            st['depth'] += 1
            if st['depth'] == 1:
                if st['driver'] is not None:
                    st['origin'] = 'driver'
                elif st['initialising']:
                    st['origin'] = 'init'
                else:
                    st['origin'] = 'timer'
            return
        st['depth'] -= 1
        if st['depth'] > 0:
            return
        if st['origin'] == 'driver':
            st['result'] = (phase, arg)
        elif st['origin'] == 'timer' and kind == 'inputexp' and not st['dead']:
            if st['stopped']:
                return      # (timers after the stop are C04's business)
            run.log('timer-event', tag, canon(etype), phase, canon(arg))
            if isinstance(etype, edzed.Goto) and etype.state == 'expired' and phase == 'post':
                run.fired('reach:expiry')
                run.beh('expiry')
                st['last_expiry_ns'] = loop._ns
                if model.early(run.now()):
                    site = ('restored-value' if st['deadline_from'] == 'restore' else
                            'put-after-restart' if resume is not None else 'plain')
                    run.violate(f"C17/accepted-value-expired-early/{site}",
                                f"{tag}: the value {canon(model.value)} accepted last was replaced "
                                f"by the expired value at t={run.now():.6f}; it must last until "
                                f"{'for ever (infinite duration)' if model.deadline is None else format(model.deadline, '.6f')}"
                                f" (time of the accepted put + duration"
                                f"{'; restored after a restart' if st['deadline_from'] == 'restore' else ''})")
                model.expire()
                if not out_ok():
                    run.violate('C17/wrong-output-after-expiry',
                                f"{tag}: after the expiration the output is {canon(blk.output)}, "
                                f"expected the expired value {canon(model.output())}")
                    resync()
    fsmlib.hook_events(blk, hook)

    def judge_put(label, op, value, ret, exc, before_out, before_state, tie, now):
        was_valid = kind == 'inputexp' and model.state == 'valid'
        if kind == 'input':
            exp_ok, why = model.put(value)
        else:
            pending_restored = (st['deadline_from'] == 'restore' and model.state == 'valid'
                                and model.deadline is not None)
            exp_ok, why = model.put(value, op.get('dur'), now)
            if exp_ok:
                st['deadline_from'] = 'put'
                if pending_restored:
                    run.fired('reach:accepted_put_before_restored_expiry')
        info['puts'] += 1
        uh = unhashable(value)
        if uh:
            run.fired('reach:unhashable_put')
            if vals.allowed is not None:
                run.fired('reach:unhashable_put_with_allowed')
        run.log('put', label, canon(value), op.get('dur'), op.get('via'), exp_ok, why, canon(ret),
                canon(exc), canon(blk.output))
        run.beh('put', op.get('via'), exp_ok or why, uh, tie)
        if exp_ok:
            if st['prev_rejected']:
                run.fired('reach:followup_after_rejected')
            if vals.schema is not None and not vals.schema_entry(value)[1] == value:
                run.fired('reach:schema_changed_value')
            if kind == 'inputexp' and op.get('dur') == 0:
                run.fired('reach:zero_duration_put')
        else:
            run.fired(f"reach:rejected_by_{why}")
            if was_valid:
                run.fired('reach:rejected_put_while_valid')
        st['prev_rejected'] = not exp_ok
        if exc is None and ret is False and not (
                blk.output is not edzed.UNDEF and blk.output == before_out):
            # whatever happened inside: "returns False" always means "nothing changed"
            run.violate('C17/returned-False-but-output-changed',
                        f"{label}: put {canon(value)} ({'acceptable' if exp_ok else why}): the "
                        f"event returned False although the output changed "
                        f"{canon(before_out)} -> {canon(blk.output)} (output events: "
                        f"{canon(outev)})")
            resync()
            return
        if (kind == 'input' and exp_ok and consumer_fails(model.output())
                and not (before_out is not edzed.UNDEF and before_out == model.output())):
            # The new output was delivered to a consumer that raised ValueError. That is not a
            # validation failure: the error propagates out of the handler and (as documented
            # for errors inside event handlers) stops the simulation.
            run.fired('reach:consumer_fault')
            run.beh('consumer-fault', exc is not None)
            if not out_ok():
                run.violate('C17/wrong-output',
                            f"{label}: accepted put of {canon(value)} (its consumer failed): "
                            f"output {canon(blk.output)}, expected {canon(model.output())}")
            if exc is not None or not alive():
                st['dead'] = True       # expected
            return
        if exc is not None or not alive():
            st['dead'] = True
            if not exp_ok:
                run.violate('C17/rejected-put-aborts' + diag(value),
                            f"{label}: put {canon(value)} must be rejected ({why}): event returns "
                            f"False, nothing changes, simulation keeps running; observed: "
                            f"raised {canon(exc)}, circuit.error={canon(circuit.error)}")
            else:
                run.violate('C17/accepted-put-aborts',
                            f"{label}: put {canon(value)} is acceptable but raised {canon(exc)}, "
                            f"circuit.error={canon(circuit.error)}")
            return
        for name, k in calls:
            if k != key(value):
                run.violate('C17/validator-saw-modified-value',
                            f"{label}: put {canon(value)}: {name} was called with {k}; all "
                            "validators must test the original value")
                break
        bad = False
        if exp_ok:
            if ret is not True:
                bad = True
                if not ret:
                    run.violate('C17/acceptable-value-rejected',
                                f"{label}: put {canon(value)} passes all validators but the event "
                                f"returned {canon(ret)} (output {canon(blk.output)})")
                else:
                    run.violate('C17/wrong-return-value',
                                f"{label}: accepted put returned {canon(ret)} instead of True")
            if not out_ok():
                bad = True
                run.violate('C17/wrong-output',
                            f"{label}: after the accepted put of {canon(value)} the output is "
                            f"{canon(blk.output)}, expected {canon(model.output())}")
            elif kind == 'inputexp' and blk.state != model.state:
                bad = True
                run.violate('C17/wrong-state',
                            f"{label}: state {canon(blk.state)}, expected {model.state}")
            for val in outev:
                if not val == model.output():
                    bad = True
                    run.violate('C17/output-event-with-other-value',
                                f"{label}: accepted put of {canon(value)}: an output event "
                                f"carried {canon(val)}, expected {canon(model.output())}")
                    break
        else:
            if ret is not False:
                bad = True
                if ret:
                    run.violate(f"C17/rejected-value-accepted/{why}",
                                f"{label}: put {canon(value)} fails the validation ({why}) but "
                                f"the event returned {canon(ret)}; output {canon(blk.output)}")
                else:
                    run.violate('C17/wrong-return-value',
                                f"{label}: rejected put returned {canon(ret)} instead of False")
            if not (blk.output is not edzed.UNDEF and blk.output == before_out):
                bad = True
                run.violate(f"C17/rejected-put-changed-output/{why}",
                            f"{label}: rejected put of {canon(value)} ({why}): output "
                            f"{canon(before_out)} -> {canon(blk.output)}")
            elif not same_state(before_state, snapshot()):
                bad = True
                run.violate('C17/rejected-put-changed-state',
                            f"{label}: rejected put of {canon(value)} ({why}): state "
                            f"{canon(before_state)} -> {canon(snapshot())}")
            if outev:
                bad = True
                run.violate('C17/rejected-put-sent-output-event',
                            f"{label}: rejected put of {canon(value)} ({why}) generated output "
                            f"event(s) with {canon(outev)}")
        if bad:
            resync()

    def do_op(n, op):
        """Loop callback: an exception here would only be logged by asyncio; make it a verdict."""
        try:
            _do_op(n, op)
        except PlanError as err:
            run.harness_error = run.harness_error or f"PLAN: {err}"
        except Exception as err:    # pylint: disable=broad-except
            import traceback    # pylint: disable=import-outside-toplevel
            run.harness_error = run.harness_error or (
                f"HARNESS-EXC in do_op: {type(err).__name__}: {err}\n" + traceback.format_exc(limit=6))

    def _do_op(n, op):
        if st['dead'] or st['stopped']:
            return
        if not alive():
            run.log('skipped', tag, n)
            return
        if isinstance(op, dict) and 'jump' in op:
            delta = op['jump']
            if isinstance(delta, bool) or not isinstance(delta, (int, float)) or not delta:
                raise PlanError('bad clock jump')
            seams.jump_wall(delta)
            run.fired('fault:clock_jump_fwd' if delta > 0 else 'fault:clock_jump_back')
            run.log('clock-jump', tag, delta)
            run.beh('jump', delta > 0)
            return
        if not isinstance(op, dict) or 'v' not in op:
            raise PlanError('bad op')
        check_overdue(f"before put {n}")
        sent_at = run.now()
        value = copy.deepcopy(op['v'])
        data = {'value': copy.deepcopy(value)}
        if op.get('dur') is not None:
            if kind != 'inputexp':
                raise PlanError('duration on an Input')
            data['duration'] = mk_dur(op['dur'])
        elif kind == 'inputexp' and cfg.get('duration') is None:
            raise PlanError('put without any duration')
        label = f"{tag}:{n}"
        tie = '-'
        if kind == 'inputexp':
            if st['last_expiry_ns'] == loop._ns:
                tie = 'after-expiry'
                run.fired('reach:tie_expiry_before_put')
            elif (model.state == 'valid' and model.deadline is not None
                  and run.now() >= model.deadline - 1e-9):
                tie = 'before-expiry'
                run.fired('reach:tie_put_before_expiry')
            elif model.state == 'expired' and st['last_expiry_ns'] is not None:
                run.fired('reach:put_after_expiry')
        before_out = copy.deepcopy(blk.output)
        before_state = snapshot()
        del calls[:]
        del outev[:]
        st['result'] = None
        st['driver'] = op
        ret = exc = None
        try:
            if op.get('via') == 'blk':
                run.fired('reach:via_block')
                edzed.ExtEvent(sender, 'fire').send(data=data)
                if st['result'] is None:
                    run.violate('C17/not-delivered', f"{label}: the put did not reach the block")
                    return
                if st['result'][0] == 'post':
                    ret = st['result'][1]
                else:
                    exc = st['result'][1]
            else:
                ret = edzed.ExtEvent(blk, 'put').send(**data)
        except Exception as err:    # pylint: disable=broad-except
            exc = err
        finally:
            st['driver'] = None
        judge_put(label, op, value, ret, exc, before_out, before_state, tie, sent_at)

    def quiescent():
        if st['initialising'] or st['stopped'] or st['dead'] or not alive():
            return
        check_overdue('at an idle point')
        if not out_ok():
            run.violate('C17/output-not-last-accepted',
                        f"{tag}: at an idle point the output is {canon(blk.output)}, the last "
                        f"accepted value is {canon(model.output())}")
            resync()
    loop.quiescence_hook = quiescent
    final = {}

    async def main():
        t_begin = run.now()
        simtask = asyncio.create_task(circuit.run_forever())
        init_err = None
        early = []
        early_boxes = cfg.get('early') or []
        if early_boxes:
            if kind != 'input' or not isinstance(early_boxes, list):
                raise PlanError('early puts are generated for Input only')
            # the application sends puts as soon as the circuit is ready, without wait_init()
            for _ in range(50):
                if circuit.is_ready() or circuit.error is not None:
                    break
                await asyncio.sleep(0)
            if circuit.is_ready():
                if blk.init_steps_completed == 0:
                    run.fired('reach:early_put_before_initialisation')
                for box in early_boxes:
                    value = boxed(box)
                    st['driver'] = box
                    ret = exc = None
                    try:
                        ret = edzed.ExtEvent(blk, 'put').send(copy.deepcopy(value))
                    except Exception as err:    # pylint: disable=broad-except
                        exc = err
                    finally:
                        st['driver'] = None
                    early.append((value, ret, exc))
        try:
            await circuit.wait_init()
        except Exception as err:    # pylint: disable=broad-except
            init_err = err
        st['initialising'] = False
        started = init_err is None and alive()
        sources = []
        judged = True
        if kind == 'input':
            events = [] if init_value is UNDEF else [init_value]
            if events:
                run.fired('reach:init_event')
            # documented order: persistent data, initdef if still uninitialised; a block that
            # receives an event earlier completes this first and handles the event afterwards
            sources = model.start(restored, [])
            for src, val, ok in sources:
                if src == 'restored':
                    run.fired('reach:restored_accepted' if ok else 'reach:restored_rejected')
            for value, ret, exc in early:
                ok = model.put(value)[0]
                sources.append(('early', value, ok))
                if restored is not UNDEF and ok:
                    run.fired('reach:early_put_accepted_with_saved_value')
                if exc is not None or ret is not ok:
                    run.violate('C17/early-put-result',
                                f"{tag}: put {canon(value)} sent before the initialisation was "
                                f"over: returned {canon(ret)} / raised {canon(exc)}, expected {ok}")
            if fwd_value is not UNDEF:
                run.fired('reach:forwarded_restored_value')
                sources.append(('forwarded', fwd_value, model.put(fwd_value)[0]))
            for value in events:
                sources.append(('event', value, model.put(value)[0]))
        elif resume is None:
            model.start(t_begin)
            st['deadline_from'] = 'init'
        else:
            exp = resume['expect']
            if exp is None:
                judged = False
            else:
                model.restore(exp['state'], copy.deepcopy(exp['value']), exp['deadline'])
                st['deadline_from'] = 'restore'
                run.fired('reach:inputexp_roundtrip_' + exp['state'])
        run.log('start', tag, kind, canon(cfg), canon(restored), canon(init_value),
                canon(sources), canon(model.output()), canon(blk.output), canon(init_err))
        run.beh(tag, kind, combo, [(s, ok) for s, _v, ok in sources], started)
        expect_start = model.output() is not UNDEF
        if not started:
            bad_src = [v for _s, v, ok in sources if not ok and diag(v)]
            if kind == 'input' and not expect_start:
                run.fired('reach:start_fails_uninitialised')
                if blk.output is not edzed.UNDEF:
                    run.violate('C17/rejected-initial-value-used',
                                f"{tag}: no initial value passes the validation, but the output "
                                f"is {canon(blk.output)}")
            elif bad_src:
                run.violate('C17/rejected-put-aborts/allowed-unhashable',
                            f"{tag}: initial value {canon(bad_src[0])} (restored / sent during "
                            f"initialisation) must be rejected and not used; instead the "
                            f"simulation was aborted: {canon(circuit.error)}")
            else:
                run.violate('C17/start-failed',
                            f"{tag}: the simulation did not start: {canon(init_err)} / "
                            f"{canon(circuit.error)}; expected output {canon(model.output())}")
            st['dead'] = True
        elif not judged:
            resync()
        elif not out_ok():
            rej = [v for s, v, ok in sources if not ok]
            late = [v for s_, v, ok in sources if ok and s_ in ('early', 'forwarded', 'event')]
            alt = InputModel(vspec, initdef) if kind == 'input' and late else None
            if alt is not None:
                # what if the saved value had been restored AFTER the events?
                for s_, v, ok in sources:
                    if s_ not in ('restored', 'initdef'):
                        alt.put(v)
                if restored is not UNDEF:
                    alt.put(restored)
            if (alt is not None and alt.value is not UNDEF and blk.output is not edzed.UNDEF
                    and blk.output == alt.value):
                run.violate('C17/wrong-initial-output/put-overwritten-by-restore',
                            f"{tag}: an accepted put that arrived while the circuit was being "
                            f"initialised was overwritten by the restored value: output "
                            f"{canon(blk.output)}, expected {canon(model.output())} "
                            f"(order of sources {canon(sources)})")
            elif rej and blk.output is not edzed.UNDEF and any(blk.output == v for v in rej):
                run.violate('C17/rejected-initial-value-used',
                            f"{tag}: initial output {canon(blk.output)} is a value the validators "
                            f"reject (sources {canon(sources)}); expected {canon(model.output())}")
            else:
                run.violate('C17/wrong-initial-output',
                            f"{tag}: initial output {canon(blk.output)}, expected "
                            f"{canon(model.output())} (sources {canon(sources)}, "
                            f"restored state {canon(resume['expect']) if resume else None})")
            resync()
        elif kind == 'inputexp' and blk.state != model.state:
            run.violate('C17/wrong-state', f"{tag}: initial state {canon(blk.state)}, expected "
                        f"{model.state}")
            resync()
        if not st['dead']:
            for n, op in enumerate(ops):
                if not isinstance(op, dict) or not isinstance(op.get('t'), (int, float)):
                    raise PlanError('bad op time')
                run.at(float(op['t']), do_op, n, op)
            fut = loop.create_future()
            run.at(float(stop_at), fut.set_result, None)
            await fut
            if not st['dead'] and alive():
                check_overdue('before the stop')
                if not out_ok():
                    run.violate('C17/output-not-last-accepted',
                                f"{tag}: before the stop the output is {canon(blk.output)}, the "
                                f"last accepted value is {canon(model.output())}")
                if kind == 'inputexp':
                    final.update(state=model.state, value=copy.deepcopy(model.value),
                                 remaining=None if model.deadline is None
                                 else model.deadline - run.now(), at=run.now(),
                                 known=model.deadline_known)
        err = None
        try:
            await circuit.shutdown()
        except Exception as exc:    # pylint: disable=broad-except
            err = exc
        st['stopped'] = True
        run.log('stopped', tag, canon(err))
        if err is not None and not st['dead']:
            run.violate('C17/unexpected-abort', f"{tag}: simulation ended with {canon(err)}")
            st['dead'] = True
        return simtask

    run.run(main())
    loop.quiescence_hook = None
    return {'content': storage.content() if storage is not None else None, 'key': blk.key,
            'final': final, 'dead': st['dead']}


def restart_run(prev, knobs, wall_start_us):
    """Close a finished Run and continue its trace/verdicts in a new one (restart)."""
    res = prev.result()
    prev.close()
    new = Run(knobs, wall_start_us=wall_start_us)
    new.trace = prev.trace
    new.violations = prev.violations
    new.stats = prev.stats
    new.behaviour = prev.behaviour
    new.harness_error = prev.harness_error
    return new, res['steps'], res['sim_seconds']


def execute(plan, trace=False):
    info = {'puts': 0}
    kind = plan.get('kind')
    run = Run(plan['knobs'])
    steps = 0
    sim_s = 0.0
    try:
        ctor_probes(run, plan)
        out = run_phase(run, 'p1', kind, plan['val'], plan['cfg'], plan.get('stored'),
                        plan.get('init_event'), plan.get('ops') or [], plan.get('stop_at', 1.0),
                        info)
        rs = plan.get('restart')
        if (rs and out['content'] is not None and not out['dead'] and run.harness_error is None
                and not run.violations):
            downtime = float(rs.get('downtime', 0.0))
            p1_end = run.now()
            # the downtime is measured on the wall clock as the first run left it (incl. steps)
            wall = seams.wall_us() + int(downtime * 1e6)
            run, steps, sim_s = restart_run(run, plan['knobs'], wall)
            run.fired('reach:restart')
            content = out['content']
            cfg2 = dict(plan['cfg'])
            cfg2['initdef'] = rs.get('initdef')
            cfg2['early'] = rs.get('early')
            cfg2['persistent'] = True
            vspec2 = plan['val']
            resume = {'content': content, 'expect': None}
            tamper = rs.get('tamper')
            if kind == 'input':
                if rs.get('val') is not None:
                    vspec2 = rs['val']
                    run.fired('reach:restart_new_validators')
                if tamper:
                    run.fired('reach:restart_tampered')
                    if tamper.get('delete'):
                        content.pop(out['key'], None)
                    else:
                        content[out['key']] = boxed(tamper)
            else:
                if rs.get('val') is not None or tamper:
                    raise PlanError('InputExp restarts are round trips only')
                fin = out['final']
                if fin and fin.get('known', True):
                    if fin['state'] == 'expired':
                        resume['expect'] = {'state': 'expired', 'value': fin['value'],
                                            'deadline': None}
                    elif fin['remaining'] is None:
                        resume['expect'] = {'state': 'valid', 'value': fin['value'],
                                            'deadline': None}
                    else:
                        # time left when the second simulation starts (monotonic time: put +
                        # duration; wall clock steps do not count): the first one went on for
                        # (end - fin['at']) seconds after the snapshot (its clean-up)
                        left = fin['remaining'] - (p1_end - fin['at']) - downtime
                        if left > 0.05:
                            resume['expect'] = {'state': 'valid', 'value': fin['value'],
                                                'deadline': left}
                            run.fired('reach:restart_inside_validity_window')
                            dflt = plan['cfg'].get('duration')
                            if dflt is not None and left > dflt + 0.05:
                                run.fired('reach:restored_longer_than_default_duration')
                            if any('jump' in op for op in plan.get('ops') or []
                                   if isinstance(op, dict)):
                                run.fired('reach:restart_in_window_after_clock_jump')
            run.log('restart', canon(content), canon(tamper), canon(resume['expect']))
            run.beh('restart', bool(tamper), rs.get('val') is not None)
            run_phase(run, 'p2', kind, vspec2, cfg2, None, None, rs.get('ops') or [],
                      rs.get('stop_at', 1.0), info, resume=resume)
        res = run.result()
        res['steps'] += steps
        res['sim_seconds'] += sim_s
        if not info['puts']:
            res['behaviour'] = None
        if trace:
            res['trace'] = run.trace
        return res
    finally:
        run.close()
