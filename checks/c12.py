"""
C12 - OutputAsync honours its mode for every arrival pattern.

One OutputAsync block (mode cancel/wait/start, guard_time or not, stop_data or not) driven
by 1-6 'put' events on a virtual time grid relative to the scripted run durations (same
instant, during a run, during the guard time, while a cancelled run is still being awaited,
right before the stop); scripted coroutines (duration, failure, slow reaction to
cancellation). Oracle: post-mortem monitor over the recorded history (put / begin / end /
result event / output change), plus output bounds at every quiescent point.
Two strata: generous stop_timeout (everything must complete, all clauses) and tight
stop_timeout (only: clean-up bounded by stop_timeout, nothing left behind, no duplicates).
"""

from __future__ import annotations

import asyncio

from simkit import seams
from simkit.runner import Run, PlanError, canon, gen_knobs
from checks import fsmlib

edzed = seams.install()

PROP = 'C12'
LEVEL = 'exploration'
RUNS = {'quick': 100000, 'thorough': 1200000}
CHUNK = 500
RULE = ("one run = one OutputAsync block (mode x guard_time x stop_data x stop_timeout "
        "generous/tight) x 1-6 puts on a time grid (same instant, during a run, during guard "
        "time, during the wait for a cancelled run, just before stop) x scripted coroutine "
        "(duration, failure, slow cancellation) x stop instant x loop knobs; run indices below "
        "6000 walk mode x guard x stop_data x (arrival pattern of <=3 puts on the grid) "
        "systematically; non-trivial = at least two puts whose handling overlapped in time "
        "(second arrived before the first finished incl. guard) or a stop with work pending; "
        "distinct = hash of (mode, guard, stop_data, tight, ordered history of kinds)")
REACH_EXPECTED = ['same_instant_puts', 'put_during_run', 'put_during_guard', 'cancelled_run',
                  'discarded_put', 'failed_run', 'slow_cancel', 'stop_with_pending_work',
                  'stop_data_last', 'tight_timeout_hit', 'start_mode_concurrent']
ASSUMPTIONS = [
    "the guard sleep belongs to the output task: the output stays incremented during it "
    "(docs: 'the number of active output tasks'); bounds are checked, not the exact instant",
    "tight stratum: when pending work exceeds stop_timeout only boundedness, no duplicates and "
    "no leftovers are demanded (the property promises completion only 'within stop_timeout')",
]

GRID = [0.0, 0.1, 0.2, 0.3, 0.5, 0.7, 1.0, 1.5]
DURS = [0.0, 0.1, 0.3, 0.5, 1.0]


class Injected(Exception):
    pass


def gen(rng, tier, index=0):
    if index < 6000:
        k = index
        mode = ['cancel', 'wait', 'start'][k % 3]
        k //= 3
        guard = [None, 0.2][k % 2]
        k //= 2
        stop_data = bool(k % 2)
        k //= 2
        nput = 1 + k % 3
        k //= 3
        # arrival offsets from the grid, durations from DURS, decided by the rest of k and rng
        offs = []
        for _ in range(nput):
            offs.append(GRID[k % len(GRID)])
            k //= len(GRID)
        tight = False
    else:
        mode = rng.choice(['cancel', 'wait', 'start'])
        guard = rng.choice([None, None, 0.2, 0.5])
        stop_data = rng.random() < 0.5
        nput = rng.randint(1, 6)
        offs = [rng.choice(GRID) for _ in range(nput)]
        tight = rng.random() < 0.2
    exact = rng.random() < 0.6
    knobs = gen_knobs(rng, latency=not exact, cost=not exact, ties=True)
    if exact:
        knobs['tie_permute'] = rng.random() < 0.5
    puts = []
    t = 1.0
    for i, off in enumerate(offs):
        t = round(t + off, 6)
        p = {'t': t, 'id': i + 1, 'dur': rng.choice(DURS), 'fail': rng.random() < 0.15,
             'cancel_delay': rng.choice([0, 0, 0, 0.05, 0.3])}
        puts.append(p)
    stop_at = round(t + rng.choice([0.0, 0.0, 0.05, 0.3, 1.0, 3.0]), 6)
    total = sum(p['dur'] + p['cancel_delay'] for p in puts) + (guard or 0) * (len(puts) + 1) + 1.0
    if tight:
        stop_timeout = rng.choice([0.1, 0.3, 0.6])
        if guard is not None and guard > stop_timeout:
            guard = 0.1
    else:
        stop_timeout = round(total + 5.0, 3)
    plan = {'knobs': knobs, 'mode': mode, 'guard': guard, 'stop_data': stop_data,
            'stop_dur': rng.choice([0.0, 0.2]), 'stop_timeout': stop_timeout, 'tight': tight,
            'puts': puts, 'stop_at': stop_at}
    # how the coroutine takes its arguments / what stop_data looks like:
    #   value: f_args=('value',), stop_data={'value': 'STOP'}
    #   kwarg: f_kwargs=('value',)
    #   empty: coroutine without arguments, stop_data={} (a defined but empty mapping);
    #          the runs cannot be told apart then, so this shape has no puts at all
    r = rng.random()
    plan['stop_shape'] = 'value' if r < 0.85 else 'kwarg' if r < 0.93 else 'empty'
    if plan['stop_shape'] == 'empty':
        plan['stop_data'] = True
        plan['puts'] = []
    return plan


def execute(plan, trace=False):
    run = Run(plan['knobs'])
    try:
        loop = run.loop
        mode = plan['mode']
        guard = plan['guard'] or 0.0
        script = {p['id']: p for p in plan['puts']}
        script['STOP'] = {'dur': plan.get('stop_dur', 0.0), 'fail': False, 'cancel_delay': 0}
        hist = []       # [t_ns, kind, id, extra]
        st = {'active_lo': 0, 'stopped': False, 'stop_ns': None, 'end_ns': None}

        def h(kind, ident, extra=None):
            hist.append([loop._ns, kind, ident, extra])
            run.log(kind, ident, extra)

        shape = plan.get('stop_shape', 'value')

        async def coro(*args, **kwargs):
            if shape == 'value':
                value, = args
            elif shape == 'kwarg':
                if args or list(kwargs) != ['value']:
                    raise PlanError('unexpected coroutine arguments')
                value = kwargs['value']
            else:
                if args or kwargs:
                    raise PlanError('unexpected coroutine arguments')
                value = 'STOP'
            sc = script.get(value)
            if sc is None:
                raise PlanError('unknown put id')
            h('begin', value, canon(blk.output))
            try:
                await asyncio.sleep(sc['dur'])
            except asyncio.CancelledError:
                h('cancel-req', value)
                if sc['cancel_delay']:
                    run.fired('fault:user_coro_slow_cancel')
                    try:
                        await asyncio.sleep(sc['cancel_delay'])
                    except asyncio.CancelledError:
                        pass
                h('end', value, 'cancelled')
                raise
            if sc['fail']:
                run.fired('fault:user_fn_raises:coro')
                h('end', value, 'err')
                raise Injected(f"run {value}")
            h('end', value, 'ok')
            return value if value == 'STOP' else value * 10

        def rec(_rec, etype, data):
            if etype == 'out':
                h('out', None, [canon(data.get('previous')), canon(data.get('value'))])
            else:
                put = data.get('put') or {}
                h('result', 'STOP' if shape == 'empty' and not put else put.get('value'), [etype, canon(data.get('value')),
                                               type(data.get('error')).__name__
                                               if 'error' in data else None,
                                               canon({k: v for k, v in put.items()})])
        recorder = fsmlib.Recorder('rec', x_sink=rec)
        try:
            blk = edzed.OutputAsync(
                'out', coro=coro, mode=mode, guard_time=plan['guard'],
                on_success=edzed.Event(recorder, 'success'), on_error=edzed.Event(recorder, 'error'),
                on_cancel=edzed.Event(recorder, 'cancel'), on_output=edzed.Event(recorder, 'out'),
                stop_data=(({} if shape == 'empty' else {'value': 'STOP'})
                           if plan['stop_data'] else None),
                f_args=('value',) if shape == 'value' else (),
                f_kwargs=('value',) if shape == 'kwarg' else (),
                stop_timeout=plan['stop_timeout'])
        except Exception as err:
            raise PlanError(f"OutputAsync: {err}") from None
        circuit = edzed.get_circuit()
        slack_ns = plan['knobs']['latency_ns'] * 4 + plan['knobs']['cost_ns'] * 60 + 2000
        guard_ns = int(round(guard * 1e9))

        def quiescent():
            if st['end_ns'] is not None or circuit.error is not None or not circuit.is_ready():
                return
            now = loop._ns
            begun = {}
            ended = {}
            for t, kind, ident, extra in hist:
                if kind == 'begin':
                    begun[ident] = t
                elif kind == 'end':
                    ended[ident] = t
            lo = sum(1 for i in begun if i not in ended)
            hi = sum(1 for i in begun if i not in ended or ended[i] + guard_ns + slack_ns >= now)
            out = blk.output
            if not isinstance(out, int) or not lo <= out <= hi:
                run.violate('C12/output-not-active-count',
                            f"output {canon(out)} at an idle point, active runs between {lo} and {hi}")
            if mode != 'start' and isinstance(out, int) and out > 1:
                run.violate('C12/more-than-one-active', f"output {out} in mode {mode}")
        loop.quiescence_hook = quiescent

        def do_put(p):
            if not circuit.is_ready():
                return
            try:
                edzed.ExtEvent(blk, 'put').send(p['id'])
            except Exception as err:    # pylint: disable=broad-except
                run.violate('C12/put-refused', f"put {p['id']} raised {canon(err)}")
                return
            h('put', p['id'])

        async def main():
            simtask = asyncio.create_task(circuit.run_forever())
            await circuit.wait_init()
            for p in plan['puts']:
                run.at(p['t'], do_put, p)
            fut = loop.create_future()
            run.at(plan['stop_at'], fut.set_result, None)
            await fut
            h('stop-called', None)
            st['stop_ns'] = loop._ns
            err = None
            try:
                await circuit.shutdown()
            except Exception as exc:    # pylint: disable=broad-except
                err = exc
            st['end_ns'] = loop._ns
            h('sim-end', None, canon(err))
            if err is not None:
                run.violate('C12/simulation-error', f"the simulation ended with {canon(err)}")
            await asyncio.sleep(0)
            return simtask

        run.run(main())
        if run.harness_error is None and st['end_ns'] is not None:
            judge(run, plan, hist, st, slack_ns, guard_ns)
            pend = run.pending_tasks()
            if pend:
                run.violate(f"C12/task-left-behind/{'tight' if plan['tight'] else 'generous'}",
                            f"tasks still pending after the stop: {pend}")
            n0 = len(hist)
            run.run_more(60.0)
            if len(hist) > n0:
                run.violate('C12/activity-after-stop',
                            f"output activity after the simulation ended: {hist[n0:][:3]}")
        res = run.result()
        if not run.stats.get('nontrivial'):
            res['behaviour'] = None
        if trace:
            res['trace'] = run.trace
        return res
    finally:
        run.close()


def judge(run, plan, hist, st, slack_ns, guard_ns):
    mode = plan['mode']
    tight = plan['tight']
    puts = [e for e in hist if e[1] == 'put']
    order = [e[2] for e in puts]
    put_t = {e[2]: e[0] for e in puts}
    if plan['stop_data']:
        order = order + ['STOP']
        put_t['STOP'] = st['stop_ns']
    begins = {}
    ends = {}
    creq = {}
    results = {}
    for t, kind, ident, extra in hist:
        if kind == 'begin':
            if ident in begins:
                run.violate('C12/run-started-twice', f"put {ident}: the coroutine was started twice")
            begins[ident] = t
        elif kind == 'end':
            ends[ident] = (t, extra)
        elif kind == 'cancel-req':
            creq[ident] = t
        elif kind == 'result':
            results.setdefault(ident, []).append((t, extra))
    label = 'tight' if tight else 'generous'
    # ---- exactly one result, carrying the original data
    for ident in order:
        res = results.get(ident, [])
        if len(res) > 1:
            run.violate('C12/duplicate-result',
                        f"put {ident}: {len(res)} result events {[r[1][0] for r in res]}")
        if not res:
            if not tight:
                run.violate('C12/missing-result',
                            f"put {ident} ({mode}): no on_success/on_error/on_cancel event "
                            f"(began={ident in begins}, ended={ends.get(ident)})")
            continue
        rtype, rvalue, rerr, rput = res[0][1]
        if plan.get('stop_shape') == 'empty' and ident == 'STOP':
            if rput:
                run.violate('C12/result-data', f"stop_data {{}}: result carries put={rput}")
        elif rput.get('value') != ident or ('source' in rput) != (ident != 'STOP'):
            run.violate('C12/result-data', f"put {ident}: result carries put={rput}")
        outcome = ends.get(ident, (None, None))[1]
        want = {'ok': 'success', 'err': 'error', 'cancelled': 'cancel', None: 'cancel'}[outcome]
        if rtype != want:
            run.violate('C12/wrong-result-kind',
                        f"put {ident}: run outcome {outcome}, result event {rtype}")
        if rtype == 'success' and rvalue != (ident if ident == 'STOP' else ident * 10):
            run.violate('C12/result-data', f"put {ident}: success value {rvalue}")
    for ident in results:
        if ident not in order:
            run.violate('C12/result-for-unknown-put', f"result for {ident}")
    # ---- mode discipline
    seq = sorted(begins, key=lambda i: begins[i])
    if mode in ('wait', 'cancel'):
        for a, b in zip(seq, seq[1:]):
            if a not in ends:
                run.violate('C12/overlapping-runs', f"{mode}: run {b} started while {a} was active")
                continue
            gap = begins[b] - ends[a][0]
            if gap < 0:
                run.violate('C12/overlapping-runs',
                            f"{mode}: run {b} started {-gap / 1e9:.6f}s before run {a} ended")
            elif gap < guard_ns - 1000:
                run.violate('C12/guard-time-shortened',
                            f"{mode}: run {b} started {gap / 1e9:.6f}s after the end of run {a}, "
                            f"guard_time is {guard_ns / 1e9}"
                            + (" (run was cancelled)" if ends[a][1] == 'cancelled' else ''))
            if 0 <= gap and begins[b] < ends[a][0] + guard_ns + 1 and put_t.get(b, 0) <= ends[a][0] + guard_ns:
                pass
    if mode == 'wait':
        started = [i for i in order if i in begins]
        if seq != started:
            run.violate('C12/wait-not-fifo', f"wait: runs started in order {seq}, puts arrived {order}")
        if not tight:
            for ident in order:
                if ident not in begins:
                    run.violate('C12/wait-put-not-run', f"wait: put {ident} was never run")
        for ident, t in creq.items():
            if not tight:
                run.violate('C12/cancelled-without-newer-put',
                            f"wait: run {ident} was cancelled")
    if mode == 'cancel':
        for ident, t in creq.items():
            newer = [j for j in order[order.index(ident) + 1:] if put_t[j] <= t]
            if not newer and not (tight and t >= st['stop_ns']):
                run.violate('C12/cancelled-without-newer-put',
                            f"cancel: run {ident} was cancelled at {t / 1e9:.6f} although no newer "
                            "put had arrived")
        for ident in order:
            if ident not in begins:
                newer = order[order.index(ident) + 1:]
                if not newer and not tight:
                    run.violate('C12/newest-put-discarded',
                                f"cancel: the most recent put {ident} was never run")
                run.fired('reach:discarded_put')
        if order and not tight:
            last = order[-1]
            if last in ends and ends[last][1] == 'cancelled':
                run.violate('C12/newest-put-cancelled',
                            f"cancel: the most recent put {last} did not run to completion")
    if mode == 'start':
        for ident in order:
            if ident == 'STOP':
                continue
            if ident not in begins:
                if not tight:
                    run.violate('C12/start-put-not-run', f"start: put {ident} was never run")
                continue
            delay = begins[ident] - put_t[ident]
            if delay > slack_ns:
                run.violate('C12/start-not-immediate',
                            f"start: put {ident} started {delay / 1e9:.6f}s after its arrival")
        if not tight:
            for ident in creq:
                run.violate('C12/cancelled-without-newer-put', f"start: run {ident} was cancelled")
    # ---- output walk
    outs = [e[3] for e in hist if e[1] == 'out']
    cur = '<UNDEF>'
    for prev, val in outs:
        if prev != cur:
            run.violate('C12/output-walk', f"output events not chained: {outs[:12]}")
            break
        if cur != '<UNDEF>' and (not isinstance(val, int) or abs(val - cur) != 1 or val < 0):
            run.violate('C12/output-walk', f"output changed {cur} -> {val}: {outs[:12]}")
            break
        cur = val
    if not tight and cur != 0:
        run.violate('C12/output-not-zero-when-idle', f"final output {cur}")
    ups = sum(1 for prev, val in outs if isinstance(prev, int) and isinstance(val, int) and val > prev)
    if not tight and ups != len(begins):
        run.violate('C12/output-walk', f"{ups} increments for {len(begins)} runs")
    # ---- stop
    dur_ns = st['end_ns'] - st['stop_ns']
    if plan['stop_data'] and not tight:
        if not seq or seq[-1] != 'STOP' or ends.get('STOP', (0, None))[1] != 'ok':
            run.violate('C12/stop-data-not-last',
                        f"{mode}: runs started in order {seq}, stop_data must be the last one and "
                        f"complete ({ends.get('STOP')})")
        else:
            run.fired('reach:stop_data_last')
    # after the time-out the run in progress is cancelled: the coroutine may react slowly
    # (scripted cancel_delay, the user's business) and the guard sleep is uncancellable by
    # design; anything beyond that means new work was started after the time-out
    worst_cancel = max([p['cancel_delay'] for p in plan['puts']] + [0])
    limit = (plan['stop_timeout'] + worst_cancel) * 1e9 + guard_ns + slack_ns + 10_000_000
    if dur_ns > limit:
        deadline = st['stop_ns'] + plan['stop_timeout'] * 1e9
        late_runs = [i for i in seq if begins[i] >= deadline - 1000]
        diag = 'run-started-after-timeout' if late_runs else 'other'
        run.violate(f"C12/stop-timeout-exceeded/{mode}/{label}/{diag}",
                    f"{mode}: the clean-up took {dur_ns / 1e9:.3f}s, stop_timeout is "
                    f"{plan['stop_timeout']}; runs started at/after the time-out: {late_runs}")
    # ---- reach / non-triviality
    nontrivial = False
    times = sorted(put_t[i] for i in order if i != 'STOP')
    if len(times) != len(set(times)):
        run.fired('reach:same_instant_puts')
    for ident in order:
        if ident == 'STOP':
            continue
        for other in seq:
            if other == ident or other not in ends:
                continue
            if begins[other] <= put_t[ident] < ends[other][0] and order.index(other) < order.index(ident):
                run.fired('reach:put_during_run')
                nontrivial = True
            elif guard_ns and ends[other][0] <= put_t[ident] < ends[other][0] + guard_ns:
                run.fired('reach:put_during_guard')
                nontrivial = True
    if creq:
        run.fired('reach:cancelled_run')
    if any(e[1] == 'err' for e in ends.values()):
        run.fired('reach:failed_run')
    if any(plan_p['cancel_delay'] and plan_p['id'] in creq for plan_p in plan['puts']):
        run.fired('reach:slow_cancel')
    pending_at_stop = [i for i in order if i != 'STOP' and (i not in ends or ends[i][0] > st['stop_ns'])]
    if pending_at_stop:
        run.fired('reach:stop_with_pending_work')
        nontrivial = True
    if tight and dur_ns >= plan['stop_timeout'] * 1e9 - 1000:
        run.fired('reach:tight_timeout_hit')
    if mode == 'start':
        for a in seq:
            for b in seq:
                if a != b and a in ends and begins[a] < begins[b] < ends[a][0]:
                    run.fired('reach:start_mode_concurrent')
                    nontrivial = True
    if nontrivial:
        run.stats['nontrivial'] += 1
    run.beh(mode, bool(guard_ns), plan['stop_data'], tight,
            [(e[1], e[3][0] if e[1] == 'result' else (e[3] if e[1] == 'end' else None))
             for e in hist if e[1] != 'out'])
