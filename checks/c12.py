"""
C12 - OutputAsync honours its mode for every arrival pattern.

One OutputAsync block (mode cancel/wait/start, guard_time or not, stop_data or not) driven
by 1-6 'put' events on a virtual time grid relative to the scripted run durations (same
instant, during a run, during the guard time, while a cancelled run is still being awaited,
right before the stop); scripted coroutines (duration, failure, slow reaction to
cancellation). Oracle: post-mortem monitor over the recorded history (put / begin / end /
result event / output change), plus output bounds at every quiescent point.
Two strata: generous stop_timeout (everything must complete, all clauses) and tight
stop_timeout (only: clean-up bounded by stop_timeout, nothing left behind, no duplicates).

Optional dimensions, each behind its own plan key (absent = off, so replay files recorded
before they existed - the three known/C12-F13-*.json - execute identically):
  term2   further termination requests besides main's shutdown() at stop_at: a second
          shutdown() task / circuit.abort(CancelledError) / circuit.abort(error) /
          Event('_ctrl', 'shutdown') from a driver callback at stop_at + dt, or wired into the
          block: on_error=(..., Event.abort()), on_success=(..., Event.shutdown()); the FIRST
          request whatever its source is "the stop" (stop_ns), the later ones land in the
          clean-up and must change nothing ("the first error stops the simulation");
  stalls  a driver callback advances the virtual clock by 1 ms .. 2 s (a blocking callback):
          whatever was due fires late, in deadline order. One-sided bounds stay as they are
          (guard time, exactly-once, order); the upper bounds (output still counted after the
          guard time, start mode starts at once, clean-up within stop_timeout) are widened by
          the stalls that happened inside the window the bound is about - not for the run;
  wjumps  steps of the wall clock (simkit.seams.jump_wall) during the run / the clean-up:
          no allowance at all, OutputAsync and the stop time-outs use the loop clock;
  aux     a second OutputAsync ('wait', stop_data only) busy at stop: the simulator waits for
          the blocks one after the other (longest stop_timeout first, time-outs counted from
          a common start), so a wrongly computed remaining time hits the block awaited second.
  stopper  shutdown() is awaited by a helper task that is cancelled at stop_at + dt; main only
          waits for the simulation task: cancelling the caller must not disturb the clean-up;
  sfail   one more on_success recipient (before or after the recorder) whose filter or
          handler raises for some results. The fault is in a user callback: once it fired
          only "never two results for one put, result kind = run outcome, original data" is
          judged (degraded mode; the original lets the exception escape the output task:
          wait mode / failing handler -> simulation aborted, no guard sleep for that run);
  selfcancel (per put) the scripted coroutine ends with a CancelledError nobody requested
          through task.cancel() of the run: raised by itself, or from a helper future that a
          timer cancels. HEAD reports on_cancel and carries on: all clauses stay as they are;
  slowinit an InitAsync block with a slow init_async; main does not wait for wait_init():
          puts are sent (legal: is_ready()) while the simulator waits for that block, runs
          are active when the initialization completes. Always ends before the stop.

Sensitivity (scratch copies of /repo, quick tier or less):
  seeded C12-s1..s12 (seeded/*/patch.diff)                                  all caught
    s10 needs sfail ('duplicate-result', 'wrong-result-kind'), s11 needs stopper,
    s12 needs slowinit ('output-walk', 'output-not-active-count')
    s8 (repeated abort() cancels the clean-up): needs term2                 caught, ~1 % of runs
    s9 (_run_tasks measures the elapsed time with time.time()): needs aux + wjumps
        'stop-data-not-processed/second-block', 'cancelled-without-newer-put', ...   caught
  _run_tasks: wait_for(task, timeout) instead of the common start (needs aux)
        'stop-timeout-exceeded/<mode>/tight/other'                          caught
  guard sleep measured with time.time() (needs wjumps forward during the guard time)
        'guard-time-shortened', 'output-not-active-count', ...              caught
"""

from __future__ import annotations

import asyncio
import zlib

from simkit import seams
from simkit.runner import Run, PlanError, canon, gen_knobs
from checks import fsmlib

edzed = seams.install()

PROP = 'C12'
LEVEL = 'exploration'
RUNS = {'quick': 100000, 'thorough': 1200000}
CHUNK = 500
RULE = ("one run = one OutputAsync block (mode x guard_time x stop_data x stop_timeout "
        "generous/tight) x 1-6 puts on a time grid (same instant, during a run, during guard "
        "time, during the wait for a cancelled run, just before stop) x scripted coroutine "
        "(duration, failure, slow cancellation) x stop instant x loop knobs; random runs "
        "optionally add (independently) a second source of termination requests (driver at "
        "stop+dt or wired to on_error/on_success), 1-2 clock stalls, 1-2 wall clock steps, a "
        "second OutputAsync busy at stop, shutdown() awaited by a helper task cancelled in the "
        "clean-up, an on_success recipient that raises for some results, another block with a "
        "slow init_async (puts during the initialization); run indices below "
        "6000 walk mode x guard x stop_data x (arrival pattern of <=3 puts on the grid) "
        "systematically; non-trivial = at least two puts whose handling overlapped in time "
        "(second arrived before the first finished incl. guard) or a stop with work pending; "
        "distinct = hash of (mode, guard, stop_data, tight, ordered history of kinds, which "
        "added faults fired)")
REACH_EXPECTED = ['same_instant_puts', 'put_during_run', 'put_during_guard', 'cancelled_run',
                  'discarded_put', 'failed_run', 'slow_cancel', 'stop_with_pending_work',
                  'stop_data_last', 'tight_timeout_hit', 'start_mode_concurrent',
                  'second_terminate_work_pending', 'result_event_terminates_in_cleanup',
                  'stall_during_run', 'stall_during_cleanup', 'stall_over_run_end',
                  'stall_over_stop_timeout', 'wall_jump_during_run',
                  'wall_jump_during_cleanup', 'wall_jump_two_blocks_in_cleanup',
                  'two_blocks_busy_at_stop', 'shutdown_caller_cancelled_work_pending',
                  'on_success_delivery_failed', 'put_during_slow_init',
                  'run_active_at_init_end', 'unrequested_cancel_run',
                  'unrequested_cancel_work_follows']
ASSUMPTIONS = [
    "the guard sleep belongs to the output task: the output stays incremented during it "
    "(docs: 'the number of active output tasks'); bounds are checked, not the exact instant",
    "tight stratum: when pending work exceeds stop_timeout only boundedness, no duplicates and "
    "no leftovers are demanded (the property promises completion only 'within stop_timeout')",
    "the stop is the first termination request of the run whatever its source (shutdown(), "
    "abort(), a 'shutdown'/'abort' event to the control block); later requests are ignored "
    "(docs: 'the first error stops the simulation') and shutdown() raises the first one's error",
    "a stall (blocking callback) only delays: upper bounds get the length of the stalls inside "
    "their own window as extra slack, lower bounds and exactly-once/order clauses get none; "
    "in the generous stratum stop_timeout is raised by the total stall length",
    "a step of the wall clock changes nothing (no allowance)",
    "an on_success recipient/filter that raises is a fault of a user callback: from then on "
    "only 'never two results for one put', result kind and result data are judged",
    "external events are legal as soon as Circuit.is_ready() is true, i.e. also while the "
    "simulator waits for another block's init_async (the block is then initialized early)",
]

GRID = [0.0, 0.1, 0.2, 0.3, 0.5, 0.7, 1.0, 1.5]
DURS = [0.0, 0.1, 0.3, 0.5, 1.0]


class Injected(Exception):
    pass


class SeqTask(asyncio.Task):
    """
    Task with a hash that does not depend on its address. The 'start' mode keeps its output
    tasks in a WeakSet; when the control task is cancelled by an expired stop_timeout,
    gather() cancels them in the iteration order of that set, i.e. by hash(task). With the
    default hash the trace of such a run differed from process to process (found when the
    determinism self-test was run over the random part of the plan space). The order is
    arbitrary in reality; here it is drawn from the plan's hash_salt like the order of blocks.
    """
    count = 0
    salt = 0

    def __init__(self, coro, **kwargs):
        SeqTask.count += 1
        self.c12_hash = zlib.crc32(f"{SeqTask.salt}:{SeqTask.count}".encode()) & 0x7fffffff
        super().__init__(coro, **kwargs)

    def __hash__(self):
        return self.c12_hash


def task_factory(loop, coro, context=None):
    return SeqTask(coro, loop=loop, context=context)


def gen(rng, tier, index=0):
    if index < 6000:
        k = index
        mode = ['cancel', 'wait', 'start'][k % 3]
        k //= 3
        guard = [None, 0.2][k % 2]
        k //= 2
        stop_data = bool(k % 2)
        k //= 2
        nput = 1 + k % 3
        k //= 3
        # arrival offsets from the grid, durations from DURS, decided by the rest of k and rng
        offs = []
        for _ in range(nput):
            offs.append(GRID[k % len(GRID)])
            k //= len(GRID)
        tight = False
    else:
        mode = rng.choice(['cancel', 'wait', 'start'])
        guard = rng.choice([None, None, 0.2, 0.5])
        stop_data = rng.random() < 0.5
        nput = rng.randint(1, 6)
        offs = [rng.choice(GRID) for _ in range(nput)]
        tight = rng.random() < 0.2
    exact = rng.random() < 0.6
    knobs = gen_knobs(rng, latency=not exact, cost=not exact, ties=True)
    if exact:
        knobs['tie_permute'] = rng.random() < 0.5
    puts = []
    t = 1.0
    for i, off in enumerate(offs):
        t = round(t + off, 6)
        p = {'t': t, 'id': i + 1, 'dur': rng.choice(DURS), 'fail': rng.random() < 0.15,
             'cancel_delay': rng.choice([0, 0, 0, 0.05, 0.3])}
        puts.append(p)
    stop_at = round(t + rng.choice([0.0, 0.0, 0.05, 0.3, 1.0, 3.0]), 6)
    total = sum(p['dur'] + p['cancel_delay'] for p in puts) + (guard or 0) * (len(puts) + 1) + 1.0
    if tight:
        stop_timeout = rng.choice([0.1, 0.3, 0.6])
        if guard is not None and guard > stop_timeout:
            guard = 0.1
    else:
        stop_timeout = round(total + 5.0, 3)
    plan = {'knobs': knobs, 'mode': mode, 'guard': guard, 'stop_data': stop_data,
            'stop_dur': rng.choice([0.0, 0.2]), 'stop_timeout': stop_timeout, 'tight': tight,
            'puts': puts, 'stop_at': stop_at}
    # how the coroutine takes its arguments / what stop_data looks like:
    #   value: f_args=('value',), stop_data={'value': 'STOP'}
    #   kwarg: f_kwargs=('value',)
    #   empty: coroutine without arguments, stop_data={} (a defined but empty mapping);
    #          the runs cannot be told apart then, so this shape has no puts at all
    r = rng.random()
    plan['stop_shape'] = 'value' if r < 0.85 else 'kwarg' if r < 0.93 else 'empty'
    if plan['stop_shape'] == 'empty':
        plan['stop_data'] = True
        plan['puts'] = []
    if index >= 6000:
        # drawn after everything else: the base plan of a given (seed, index) stays what it was
        gen_extras(rng, plan)
    return plan


TERM2_KINDS = ['shutdown', 'abort_cancel', 'abort_error', 'ctrl_shutdown', 'on_error_abort',
               'on_error_abort', 'on_success_shutdown']
TERM2_DT = [0.0, 0.001, 0.02, 0.05, 0.1, 0.15, 0.25, 0.4, 0.8, 1.5]
FAULT_OFFS = [-0.02, 0.0, 0.001, 0.03, 0.08, 0.15, 0.28, 0.45, 0.9]
STALLS = [0.001, 0.02, 0.15, 0.6, 2.0]
WJUMPS = [-86400.0, -3600.0, -5.0, -0.5, 0.5, 5.0, 3600.0, 86400.0]


def gen_extras(rng, plan):
    """
    Optional plan keys (absent = off; replay files recorded before they existed run unchanged):
      term2   a second source of termination requests besides main's shutdown() at stop_at
      stalls  driver callbacks that advance the virtual clock (a blocking callback)
      wjumps  wall clock steps (must not matter: OutputAsync and the stop use the loop clock)
      aux     a second OutputAsync busy with its stop_data at stop (several blocks cleaned up)
    """
    puts = plan['puts']
    stop_at = plan['stop_at']
    anchors = [stop_at, stop_at, stop_at]
    for p in puts:
        anchors += [p['t'], round(p['t'] + p['dur'], 6)]

    def instant():
        return round(max(0.5, rng.choice(anchors) + rng.choice(FAULT_OFFS)), 6)

    if rng.random() < 0.30:
        kind = rng.choice(TERM2_KINDS)
        plan['term2'] = {'kind': kind, 'dt': rng.choice(TERM2_DT)}
        if kind == 'on_error_abort' and puts and rng.random() < 0.7:
            rng.choice(puts)['fail'] = True
    if rng.random() < 0.22:
        plan['stalls'] = sorted(({'t': instant(), 'dur': rng.choice(STALLS)}
                                 for _ in range(rng.choice([1, 1, 2]))), key=lambda s: s['t'])
        if not plan['tight']:
            plan['stop_timeout'] = round(
                plan['stop_timeout'] + sum(s['dur'] for s in plan['stalls']), 3)
    if rng.random() < 0.22:
        plan['wjumps'] = sorted(({'t': instant(), 'delta': rng.choice(WJUMPS)}
                                 for _ in range(rng.choice([1, 1, 2]))), key=lambda s: s['t'])
    if rng.random() < (0.6 if 'wjumps' in plan else 0.12):
        if plan['tight']:
            durs = [d for d in (0.02, 0.05, 0.2, 0.4) if d <= plan['stop_timeout'] * 0.7]
            extra = rng.choice([0.0, 0.0, 0.5])
        else:
            durs = [0.02, 0.05, 0.2, 0.5, 1.2]
            extra = rng.choice([-1.0, 0.0, 0.0, 1.0])
        plan['aux'] = {'dur': rng.choice(durs), 'extra_timeout': extra}
    # ---- round 4 (drawn after the older ones, which therefore stay what they were)
    wired = plan.get('term2', {}).get('kind') in ('on_error_abort', 'on_success_shutdown')
    if rng.random() < 0.12:
        # shutdown() is awaited by a helper task which gets cancelled during the clean-up
        plan['stopper'] = {'cancel_dt': rng.choice([0.001, 0.02, 0.05, 0.1, 0.15, 0.25, 0.4,
                                                    0.8])}
    if rng.random() < 0.08:
        # one more on_success recipient; the delivery raises for some of the results
        ids = [p['id'] for p in puts if rng.random() < 0.5]
        if plan['stop_data'] and rng.random() < 0.3:
            ids.append('STOP')
        if not ids and puts:
            ids = [rng.choice(puts)['id']]
        plan['sfail'] = {'kind': rng.choice(['filter', 'filter', 'handler']),
                         'first': rng.random() < 0.3, 'ids': ids}
        for p in puts:
            if p['id'] in ids and rng.random() < 0.6:
                p['fail'] = False
    if rng.random() < 0.12 and puts and not wired and 'sfail' not in plan:
        # another block with a slow init_async: puts are legal (and sent) during that window
        room = stop_at - 0.05 - sum(s['dur'] for s in plan.get('stalls', ()))
        cands = [round(p['t'] + x, 6) for p in puts for x in (0.001, 0.05, 0.15, 0.4, 0.8)]
        cands = [d for d in cands if d <= room]
        if cands:
            plan['slowinit'] = {'dur': rng.choice(cands)}
    # ---- round 5
    if rng.random() < 0.12 and puts:
        # the user coroutine ends with a CancelledError nobody requested from the run's task:
        # it raises one itself / it awaits a helper future that somebody else cancels
        for p in rng.sample(puts, min(len(puts), rng.choice([1, 1, 2]))):
            p['selfcancel'] = rng.choice(['raise', 'future'])
            p['fail'] = False


def execute(plan, trace=False):
    run = Run(plan['knobs'])
    try:
        loop = run.loop
        SeqTask.count = 0
        SeqTask.salt = plan['knobs'].get('hash_salt', 0)
        loop.set_task_factory(task_factory)
        mode = plan['mode']
        guard = plan['guard'] or 0.0
        script = {p['id']: p for p in plan['puts']}
        if len(script) != len(plan['puts']) or 'STOP' in script:
            raise PlanError('put ids are not unique')     # the oracle is keyed by them
        script['STOP'] = {'dur': plan.get('stop_dur', 0.0), 'fail': False, 'cancel_delay': 0}
        hist = []       # [t_ns, kind, id, extra]
        st = {'active_lo': 0, 'stopped': False, 'stop_ns': None, 'end_ns': None,
              'sim_end_ns': None, 'first': ('main', None)}
        term2 = plan.get('term2')
        t2kind = term2['kind'] if term2 else None
        aux = plan.get('aux')
        stalls = []     # [start_ns, end_ns] of the stalls that happened
        wjumps = []     # [t_ns, delta]
        terms = []      # [index into hist, t_ns, source] of the repeated termination requests
        auxh = []       # [t_ns, kind, extra] history of the second block
        harness_tasks = []
        if t2kind not in (None,) + tuple(TERM2_KINDS):
            raise PlanError('unknown term2 kind')
        stopper = plan.get('stopper')
        sfail = plan.get('sfail')
        slowinit = plan.get('slowinit')
        st.update(helper=None, helper_cancels=[], sfail_fired=False, init_end_ns=None)

        def note_term(src, err=None):
            """A termination request is being issued right now."""
            if st['stop_ns'] is None:
                st['stop_ns'] = loop._ns
                st['first'] = (src, err)
                h('term', src, 'first')
            elif st['sim_end_ns'] is None and st['end_ns'] is None:
                run.fired('fault:second_terminate')
                h('term', src, 'again')
                terms.append([len(hist), loop._ns, src])

        def h(kind, ident, extra=None):
            hist.append([loop._ns, kind, ident, extra])
            run.log(kind, ident, extra)

        shape = plan.get('stop_shape', 'value')

        async def coro(*args, **kwargs):
            if shape == 'value':
                value, = args
            elif shape == 'kwarg':
                if args or list(kwargs) != ['value']:
                    raise PlanError('unexpected coroutine arguments')
                value = kwargs['value']
            else:
                if args or kwargs:
                    raise PlanError('unexpected coroutine arguments')
                value = 'STOP'
            sc = script.get(value)
            if sc is None:
                raise PlanError('unknown put id')
            h('begin', value, canon(blk.output))
            how = sc.get('selfcancel')
            if how not in (None, 'raise', 'future'):
                raise PlanError('unknown selfcancel kind')
            helper = timer = None
            try:
                if how == 'future':
                    helper = loop.create_future()
                    timer = loop.call_later(sc['dur'], helper.cancel)
                    await helper
                else:
                    await asyncio.sleep(sc['dur'])
            except asyncio.CancelledError:
                if helper is not None and helper.cancelled():
                    # not a cancellation of this run: somebody cancelled what it was waiting for
                    run.fired('fault:user_coro_unrequested_cancel')
                    h('end', value, 'selfcancelled')
                    raise
                if timer is not None:
                    timer.cancel()
                h('cancel-req', value)
                if sc['cancel_delay']:
                    run.fired('fault:user_coro_slow_cancel')
                    try:
                        await asyncio.sleep(sc['cancel_delay'])
                    except asyncio.CancelledError:
                        pass
                h('end', value, 'cancelled')
                raise
            if how == 'raise':
                run.fired('fault:user_coro_unrequested_cancel')
                h('end', value, 'selfcancelled')
                raise asyncio.CancelledError()
            if sc['fail']:
                run.fired('fault:user_fn_raises:coro')
                h('end', value, 'err')
                raise Injected(f"run {value}")
            h('end', value, 'ok')
            return value if value == 'STOP' else value * 10

        def rec(_rec, etype, data):
            if etype.startswith('aux_'):
                put = data.get('put') or {}
                auxh.append([loop._ns, etype[4:], canon({k: v for k, v in put.items()})])
                run.log('aux', etype, canon(data.get('value')))
                return
            if etype == 'out':
                h('out', None, [canon(data.get('previous')), canon(data.get('value'))])
            else:
                put = data.get('put') or {}
                h('result', 'STOP' if shape == 'empty' and not put else put.get('value'), [etype, canon(data.get('value')),
                                               type(data.get('error')).__name__
                                               if 'error' in data else None,
                                               canon({k: v for k, v in put.items()})])
                # the next event of the same list goes to the control block
                if etype == 'error' and t2kind == 'on_error_abort':
                    note_term('on_error_abort')
                elif etype == 'success' and t2kind == 'on_success_shutdown':
                    note_term('on_success_shutdown')
        recorder = fsmlib.Recorder('rec', x_sink=rec)
        on_success = [edzed.Event(recorder, 'success')]
        on_error = [edzed.Event(recorder, 'error')]
        ev_ctrl = None
        if sfail:
            bad_ids = list(sfail['ids'])

            def poisoned(data):
                put = data.get('put') or {}
                ident = 'STOP' if shape == 'empty' and not put else put.get('value')
                if data.get('trigger') == 'success' and ident in bad_ids:
                    st['sfail_fired'] = True
                    run.fired('fault:user_fn_raises:on_success_' + sfail['kind'])
                    run.log('sfail', ident)
                    raise Injected(f"on_success recipient cannot cope with {ident}")

            def rec2(_rec, _etype, data):
                poisoned(data)

            def flt(data):
                poisoned(data)
                return data
            try:
                recorder2 = fsmlib.Recorder('rec2', x_sink=rec2)
                if sfail['kind'] == 'filter':
                    ev2 = edzed.Event(recorder2, 'succ2', efilter=flt)
                elif sfail['kind'] == 'handler':
                    ev2 = edzed.Event(recorder2, 'succ2')
                else:
                    raise PlanError('unknown sfail kind')
            except PlanError:
                raise
            except Exception as err:
                raise PlanError(f"Event: {err}") from None
            if sfail.get('first'):
                on_success.insert(0, ev2)
            else:
                on_success.append(ev2)
        try:
            if t2kind == 'on_error_abort':
                on_error.append(edzed.Event.abort())
            elif t2kind == 'on_success_shutdown':
                on_success.append(edzed.Event.shutdown())
            elif t2kind == 'ctrl_shutdown':
                ev_ctrl = edzed.Event('_ctrl', 'shutdown')
        except Exception as err:
            raise PlanError(f"Event: {err}") from None
        try:
            blk = edzed.OutputAsync(
                'out', coro=coro, mode=mode, guard_time=plan['guard'],
                on_success=on_success, on_error=on_error,
                on_cancel=edzed.Event(recorder, 'cancel'), on_output=edzed.Event(recorder, 'out'),
                stop_data=(({} if shape == 'empty' else {'value': 'STOP'})
                           if plan['stop_data'] else None),
                f_args=('value',) if shape == 'value' else (),
                f_kwargs=('value',) if shape == 'kwarg' else (),
                stop_timeout=plan['stop_timeout'])
        except Exception as err:
            raise PlanError(f"OutputAsync: {err}") from None
        if aux:
            async def aux_coro(value):
                auxh.append([loop._ns, 'begin', value])
                run.log('aux', 'begin', value)
                try:
                    await asyncio.sleep(aux['dur'])
                except asyncio.CancelledError:
                    auxh.append([loop._ns, 'end', 'cancelled'])
                    run.log('aux', 'end', 'cancelled')
                    raise
                auxh.append([loop._ns, 'end', 'ok'])
                run.log('aux', 'end', 'ok')
                return value
            try:
                edzed.OutputAsync(
                    'aux', coro=aux_coro, mode='wait', stop_data={'value': 'AUX'},
                    on_success=edzed.Event(recorder, 'aux_success'),
                    on_error=edzed.Event(recorder, 'aux_error'),
                    on_cancel=edzed.Event(recorder, 'aux_cancel'),
                    stop_timeout=round(plan['stop_timeout'] + aux['extra_timeout'], 6))
            except Exception as err:
                raise PlanError(f"OutputAsync: {err}") from None
        if slowinit:
            async def slow_init():
                await asyncio.sleep(slowinit['dur'])
                st['init_end_ns'] = loop._ns
                run.log('slow-init-done')
                return 'cfg'
            try:
                edzed.InitAsync('cfg', init_coro=[slow_init], init_timeout=slowinit['dur'] + 30.0)
            except Exception as err:
                raise PlanError(f"InitAsync: {err}") from None
        circuit = edzed.get_circuit()
        slack_ns = plan['knobs']['latency_ns'] * 4 + plan['knobs']['cost_ns'] * 60 + 2000
        guard_ns = int(round(guard * 1e9))

        def stalled(a, b):
            """Total length of the stalls that ended at/after a and began at/before b."""
            return sum(e - s for s, e in stalls if e >= a and s <= b)
        st['stalled'] = stalled

        def quiescent():
            if st['end_ns'] is not None or circuit.error is not None or not circuit.is_ready():
                return
            if st['sfail_fired']:
                return      # a user callback failed: only "never two results" is judged
            if slowinit and blk.output is edzed.UNDEF and st['init_end_ns'] is None \
                    and not any(e[1] == 'put' for e in hist):
                return      # not initialized yet: no event so far, other block's init_async
            now = loop._ns
            begun = {}
            ended = {}
            for t, kind, ident, extra in hist:
                if kind == 'begin':
                    begun[ident] = t
                elif kind == 'end':
                    ended[ident] = t
            lo = sum(1 for i in begun if i not in ended)
            if stalls:
                # a stall delays the begin of the guard sleep (it is started a few loop
                # iterations after the coroutine ended), its end and the bookkeeping after it
                hi = sum(1 for i in begun if i not in ended or ended[i] + guard_ns + slack_ns
                         + stalled(ended[i], now) >= now)
            else:
                hi = sum(1 for i in begun
                         if i not in ended or ended[i] + guard_ns + slack_ns >= now)
            out = blk.output
            if not isinstance(out, int) or not lo <= out <= hi:
                run.violate('C12/output-not-active-count',
                            f"output {canon(out)} at an idle point, active runs between {lo} and {hi}")
            if mode != 'start' and isinstance(out, int) and out > 1:
                run.violate('C12/more-than-one-active', f"output {out} in mode {mode}")
        loop.quiescence_hook = quiescent

        def do_put(p):
            if not circuit.is_ready():
                return
            try:
                edzed.ExtEvent(blk, 'put').send(p['id'])
            except Exception as err:    # pylint: disable=broad-except
                run.violate('C12/put-refused', f"put {p['id']} raised {canon(err)}")
                return
            h('put', p['id'])

        def over():
            return st['end_ns'] is not None or st['sim_end_ns'] is not None

        def do_stall(s):
            if over():
                return
            t0 = loop._ns
            loop.advance_ns(int(round(s['dur'] * 1e9)))
            stalls.append([t0, loop._ns])
            run.fired('fault:stall')
            run.log('stall', s['dur'])

        def do_wjump(j):
            if over():
                return
            seams.jump_wall(j['delta'])
            wjumps.append([loop._ns, j['delta']])
            run.fired('fault:clock_jump_fwd' if j['delta'] > 0 else 'fault:clock_jump_back')
            run.log('wall-jump', j['delta'])

        async def shutdown_again():
            try:
                await circuit.shutdown()
            except Exception:       # pylint: disable=broad-except
                pass                # main() judges the error of the simulation

        def do_term2():
            if over():
                return
            if t2kind == 'shutdown':
                note_term('shutdown')
                harness_tasks.append(asyncio.ensure_future(shutdown_again()))
            elif t2kind == 'abort_cancel':
                note_term('abort_cancel')
                circuit.abort(asyncio.CancelledError('once more'))
            elif t2kind == 'abort_error':
                err = RuntimeError('abort requested by the driver')
                note_term('abort_error', err)
                circuit.abort(err)
            elif t2kind == 'ctrl_shutdown':
                note_term('ctrl_shutdown')
                ev_ctrl.send(recorder)

        def sim_done(_task):
            st['sim_end_ns'] = loop._ns

        def stop_called():
            h('stop-called', None)
            if st['stop_ns'] is None:
                st['stop_ns'] = loop._ns
            elif not over():
                run.fired('fault:second_terminate')
                terms.append([len(hist), loop._ns, 'main'])

        async def shutdown_helper():
            stop_called()
            st['helper_started'] = True
            await circuit.shutdown()

        def cancel_helper():
            helper = st['helper']
            if helper is None or helper.done() or over() or not st.get('helper_started'):
                return      # (a task cancelled before its first step would never call shutdown)
            run.fired('fault:shutdown_caller_cancelled')
            h('helper-cancelled', None)
            st['helper_cancels'].append([len(hist), loop._ns])
            helper.cancel()

        async def main():
            simtask = asyncio.create_task(circuit.run_forever())
            if slowinit:
                # external events are legal as soon as the circuit is ready: do not wait
                await asyncio.sleep(0)
            else:
                await circuit.wait_init()
            if term2 or stopper:
                # only then: old plans must not see one more callback (cost knob draws)
                simtask.add_done_callback(sim_done)
            if stopper:
                run.at(plan['stop_at'] + stopper['cancel_dt'], cancel_helper)
            for p in plan['puts']:
                run.at(p['t'], do_put, p)
            fut = loop.create_future()
            run.at(plan['stop_at'], fut.set_result, None)
            if term2 and t2kind in ('shutdown', 'abort_cancel', 'abort_error', 'ctrl_shutdown'):
                run.at(plan['stop_at'] + term2['dt'], do_term2)
            for s in plan.get('stalls', ()):
                run.at(s['t'], do_stall, s)
            for j in plan.get('wjumps', ()):
                run.at(j['t'], do_wjump, j)
            await fut
            err = None
            if stopper:
                # the caller of shutdown() gets cancelled; the simulation must finish its
                # clean-up on its own
                st['helper'] = asyncio.ensure_future(shutdown_helper())
                harness_tasks.append(st['helper'])
                await asyncio.wait([simtask])
                if not simtask.cancelled():
                    err = simtask.exception()
            else:
                stop_called()
                try:
                    await circuit.shutdown()
                except Exception as exc:    # pylint: disable=broad-except
                    err = exc
            st['end_ns'] = loop._ns if st['sim_end_ns'] is None else st['sim_end_ns']
            h('sim-end', None, canon(err))
            # "the exception that stopped the simulation is raised": the first request counts
            src, first_err = st['first']
            if src == 'abort_error':
                ok = err is first_err
            elif src == 'on_error_abort':
                ok = (isinstance(err, edzed.EdzedCircuitError)
                      and isinstance(err.__cause__, Injected))
            else:
                ok = err is None
            if not ok and not st['sfail_fired']:
                run.violate('C12/simulation-error',
                            f"the simulation ended with {canon(err)}, stopped by {src}")
            await asyncio.sleep(0)
            return simtask

        run.run(main())
        if run.harness_error is None and st['end_ns'] is not None:
            judge(run, plan, hist, st, slack_ns, guard_ns)
            if not st['sfail_fired']:
                judge_extras(run, plan, hist, st, stalls, wjumps, terms, auxh)
            pend = run.pending_tasks(exclude=harness_tasks) if not st['sfail_fired'] else None
            if pend:
                run.violate(f"C12/task-left-behind/{'tight' if plan['tight'] else 'generous'}",
                            f"tasks still pending after the stop: {pend}")
            n0 = len(hist)
            n1 = len(auxh)
            run.run_more(60.0)
            if (len(hist) > n0 or len(auxh) > n1) and not st['sfail_fired']:
                run.violate('C12/activity-after-stop',
                            "output activity after the simulation ended: "
                            f"{(hist[n0:] + auxh[n1:])[:3]}")
        res = run.result()
        if not run.stats.get('nontrivial'):
            res['behaviour'] = None
        if trace:
            res['trace'] = run.trace
        return res
    finally:
        run.close()


def judge(run, plan, hist, st, slack_ns, guard_ns):
    mode = plan['mode']
    # the delivery of an on_success event raised (fault in a user callback): what the block
    # does afterwards is nowhere promised; only "never two results for one put" is judged
    degraded = bool(st.get('sfail_fired'))
    tight = plan['tight'] or degraded
    stalled = st.get('stalled') or (lambda a, b: 0)
    puts = [e for e in hist if e[1] == 'put']
    order = [e[2] for e in puts]
    put_t = {e[2]: e[0] for e in puts}
    if plan['stop_data']:
        order = order + ['STOP']
        put_t['STOP'] = st['stop_ns']
    begins = {}
    ends = {}
    creq = {}
    results = {}
    for t, kind, ident, extra in hist:
        if kind == 'begin':
            if ident in begins:
                run.violate('C12/run-started-twice', f"put {ident}: the coroutine was started twice")
            begins[ident] = t
        elif kind == 'end':
            ends[ident] = (t, extra)
        elif kind == 'cancel-req':
            creq[ident] = t
        elif kind == 'result':
            results.setdefault(ident, []).append((t, extra))
    label = 'tight' if tight else 'generous'
    # ---- exactly one result, carrying the original data
    for ident in order:
        res = results.get(ident, [])
        if len(res) > 1:
            run.violate('C12/duplicate-result',
                        f"put {ident}: {len(res)} result events {[r[1][0] for r in res]}")
        if not res:
            if not tight:
                run.violate('C12/missing-result',
                            f"put {ident} ({mode}): no on_success/on_error/on_cancel event "
                            f"(began={ident in begins}, ended={ends.get(ident)})")
            continue
        rtype, rvalue, rerr, rput = res[0][1]
        if plan.get('stop_shape') == 'empty' and ident == 'STOP':
            if rput:
                run.violate('C12/result-data', f"stop_data {{}}: result carries put={rput}")
        elif rput.get('value') != ident or ('source' in rput) != (ident != 'STOP'):
            run.violate('C12/result-data', f"put {ident}: result carries put={rput}")
        outcome = ends.get(ident, (None, None))[1]
        # a coroutine ending with a CancelledError of its own is reported as cancelled too
        # ("cancelled tasks trigger on_cancel events"); the block carries on as after any run
        want = {'ok': 'success', 'err': 'error', 'cancelled': 'cancel', 'selfcancelled': 'cancel',
                None: 'cancel'}[outcome]
        if rtype != want:
            run.violate('C12/wrong-result-kind',
                        f"put {ident}: run outcome {outcome}, result event {rtype}")
        if rtype == 'success' and rvalue != (ident if ident == 'STOP' else ident * 10):
            run.violate('C12/result-data', f"put {ident}: success value {rvalue}")
    for ident in results:
        if ident not in order and not (degraded and ident == 'STOP'):
            run.violate('C12/result-for-unknown-put', f"result for {ident}")
    if degraded:
        run.fired('reach:on_success_delivery_failed')
        run.stats['nontrivial'] += 1
        run.beh(mode, 'degraded', plan['sfail']['kind'], bool(plan['sfail'].get('first')),
                [(e[1], e[3][0] if e[1] == 'result' else (e[3] if e[1] == 'end' else None))
                 for e in hist if e[1] != 'out'])
        return
    # ---- mode discipline
    seq = sorted(begins, key=lambda i: begins[i])
    if mode in ('wait', 'cancel'):
        for a, b in zip(seq, seq[1:]):
            if a not in ends:
                run.violate('C12/overlapping-runs', f"{mode}: run {b} started while {a} was active")
                continue
            gap = begins[b] - ends[a][0]
            if gap < 0:
                run.violate('C12/overlapping-runs',
                            f"{mode}: run {b} started {-gap / 1e9:.6f}s before run {a} ended")
            elif gap < guard_ns - 1000:
                run.violate('C12/guard-time-shortened',
                            f"{mode}: run {b} started {gap / 1e9:.6f}s after the end of run {a}, "
                            f"guard_time is {guard_ns / 1e9}"
                            + (" (run was cancelled)" if ends[a][1] == 'cancelled' else ''))
            if 0 <= gap and begins[b] < ends[a][0] + guard_ns + 1 and put_t.get(b, 0) <= ends[a][0] + guard_ns:
                pass
    if mode == 'wait':
        started = [i for i in order if i in begins]
        if seq != started:
            run.violate('C12/wait-not-fifo', f"wait: runs started in order {seq}, puts arrived {order}")
        if not tight:
            for ident in order:
                if ident not in begins:
                    run.violate('C12/wait-put-not-run', f"wait: put {ident} was never run")
        for ident, t in creq.items():
            if not tight:
                run.violate('C12/cancelled-without-newer-put',
                            f"wait: run {ident} was cancelled")
    if mode == 'cancel':
        for ident, t in creq.items():
            newer = [j for j in order[order.index(ident) + 1:] if put_t[j] <= t]
            if not newer and not (tight and t >= st['stop_ns']):
                run.violate('C12/cancelled-without-newer-put',
                            f"cancel: run {ident} was cancelled at {t / 1e9:.6f} although no newer "
                            "put had arrived")
        for ident in order:
            if ident not in begins:
                newer = order[order.index(ident) + 1:]
                if not newer and not tight:
                    run.violate('C12/newest-put-discarded',
                                f"cancel: the most recent put {ident} was never run")
                run.fired('reach:discarded_put')
        if order and not tight:
            last = order[-1]
            if last in ends and ends[last][1] == 'cancelled':
                run.violate('C12/newest-put-cancelled',
                            f"cancel: the most recent put {last} did not run to completion")
    if mode == 'start':
        for ident in order:
            if ident == 'STOP':
                continue
            if ident not in begins:
                if not tight:
                    run.violate('C12/start-put-not-run', f"start: put {ident} was never run")
                continue
            delay = begins[ident] - put_t[ident]
            if delay > slack_ns + stalled(put_t[ident], begins[ident]):
                run.violate('C12/start-not-immediate',
                            f"start: put {ident} started {delay / 1e9:.6f}s after its arrival")
        if not tight:
            for ident in creq:
                run.violate('C12/cancelled-without-newer-put', f"start: run {ident} was cancelled")
    # ---- output walk
    outs = [e[3] for e in hist if e[1] == 'out']
    cur = '<UNDEF>'
    for prev, val in outs:
        if prev != cur:
            run.violate('C12/output-walk', f"output events not chained: {outs[:12]}")
            break
        if cur != '<UNDEF>' and (not isinstance(val, int) or abs(val - cur) != 1 or val < 0):
            run.violate('C12/output-walk', f"output changed {cur} -> {val}: {outs[:12]}")
            break
        cur = val
    if not tight and cur != 0:
        run.violate('C12/output-not-zero-when-idle', f"final output {cur}")
    ups = sum(1 for prev, val in outs if isinstance(prev, int) and isinstance(val, int) and val > prev)
    if not tight and ups != len(begins):
        run.violate('C12/output-walk', f"{ups} increments for {len(begins)} runs")
    # ---- stop
    dur_ns = st['end_ns'] - st['stop_ns']
    if plan['stop_data'] and not tight:
        if not seq or seq[-1] != 'STOP' or ends.get('STOP', (0, None))[1] != 'ok':
            run.violate('C12/stop-data-not-last',
                        f"{mode}: runs started in order {seq}, stop_data must be the last one and "
                        f"complete ({ends.get('STOP')})")
        else:
            run.fired('reach:stop_data_last')
    # after the time-out the run in progress is cancelled: the coroutine may react slowly
    # (scripted cancel_delay, the user's business) and the guard sleep is uncancellable by
    # design; anything beyond that means new work was started after the time-out
    worst_cancel = max([p['cancel_delay'] for p in plan['puts']] + [0])
    limit = (plan['stop_timeout'] + worst_cancel) * 1e9 + guard_ns + slack_ns + 10_000_000
    # a stall makes whatever was due fire late: the time-out itself, the end of the coroutine's
    # reaction to the cancellation, the end of the guard sleep
    limit += stalled(st['stop_ns'], st['end_ns'])
    if dur_ns > limit:
        deadline = st['stop_ns'] + plan['stop_timeout'] * 1e9
        late_runs = [i for i in seq if begins[i] >= deadline - 1000]
        diag = 'run-started-after-timeout' if late_runs else 'other'
        run.violate(f"C12/stop-timeout-exceeded/{mode}/{label}/{diag}",
                    f"{mode}: the clean-up took {dur_ns / 1e9:.3f}s, stop_timeout is "
                    f"{plan['stop_timeout']}; runs started at/after the time-out: {late_runs}")
    # ---- reach / non-triviality
    nontrivial = False
    times = sorted(put_t[i] for i in order if i != 'STOP')
    if len(times) != len(set(times)):
        run.fired('reach:same_instant_puts')
    for ident in order:
        if ident == 'STOP':
            continue
        for other in seq:
            if other == ident or other not in ends:
                continue
            if begins[other] <= put_t[ident] < ends[other][0] and order.index(other) < order.index(ident):
                run.fired('reach:put_during_run')
                nontrivial = True
            elif guard_ns and ends[other][0] <= put_t[ident] < ends[other][0] + guard_ns:
                run.fired('reach:put_during_guard')
                nontrivial = True
    if creq:
        run.fired('reach:cancelled_run')
    if any(e[1] == 'err' for e in ends.values()):
        run.fired('reach:failed_run')
    if any(plan_p['cancel_delay'] and plan_p['id'] in creq for plan_p in plan['puts']):
        run.fired('reach:slow_cancel')
    for ident in seq:
        if ident in ends and ends[ident][1] == 'selfcancelled':
            run.fired('reach:unrequested_cancel_run')
            nontrivial = True
            if any(j not in begins or begins[j] > ends[ident][0]
                   for j in order[order.index(ident) + 1:]):
                run.fired('reach:unrequested_cancel_work_follows')
    pending_at_stop = [i for i in order if i != 'STOP' and (i not in ends or ends[i][0] > st['stop_ns'])]
    if pending_at_stop:
        run.fired('reach:stop_with_pending_work')
        nontrivial = True
    if tight and dur_ns >= plan['stop_timeout'] * 1e9 - 1000:
        run.fired('reach:tight_timeout_hit')
    if mode == 'start':
        for a in seq:
            for b in seq:
                if a != b and a in ends and begins[a] < begins[b] < ends[a][0]:
                    run.fired('reach:start_mode_concurrent')
                    nontrivial = True
    if nontrivial:
        run.stats['nontrivial'] += 1
    run.beh(mode, bool(guard_ns), plan['stop_data'], tight,
            [(e[1], e[3][0] if e[1] == 'result' else (e[3] if e[1] == 'end' else None))
             for e in hist if e[1] != 'out'])


def judge_extras(run, plan, hist, st, stalls, wjumps, terms, auxh):
    """Second block (oracle), reach probes of the added fault dimensions."""
    tight = plan['tight']
    stop_ns, end_ns = st['stop_ns'], st['end_ns']
    begins = {}
    ends = {}
    first_result = {}
    for idx, (t, kind, ident, extra) in enumerate(hist):
        if kind == 'begin':
            begins.setdefault(ident, t)
        elif kind == 'end':
            ends[ident] = t
        elif kind == 'result':
            first_result.setdefault(ident, idx)
    idents = [e[2] for e in hist if e[1] == 'put'] + (['STOP'] if plan['stop_data'] else [])
    aux = plan.get('aux')
    # ---- the second block: its stop_data run needs less than its stop_timeout
    if aux and not tight:
        abeg = [e for e in auxh if e[1] == 'begin']
        aend = [e for e in auxh if e[1] == 'end']
        ares = [e for e in auxh if e[1] in ('success', 'error', 'cancel')]
        if (len(abeg) != 1 or [e[2] for e in aend] != ['ok']
                or [(e[1], e[2]) for e in ares] != [('success', {'value': 'AUX'})]):
            run.violate('C12/stop-data-not-processed/second-block',
                        "second OutputAsync (wait, stop_data only, run of "
                        f"{aux['dur']}s): history {[e[1:] for e in auxh]}")
    # ---- reach probes
    for idx, t, src in terms:
        pending = [i for i in idents if first_result.get(i, len(hist)) >= idx]
        if pending:
            run.fired('reach:second_terminate_work_pending')
            if src in ('on_error_abort', 'on_success_shutdown'):
                run.fired('reach:result_event_terminates_in_cleanup')
    busy = [(begins[i], ends.get(i, end_ns)) for i in begins]
    for s, e in stalls:
        if any(b <= s < x for b, x in busy if b < stop_ns) and s < stop_ns:
            run.fired('reach:stall_during_run')
        if stop_ns <= s < end_ns:
            run.fired('reach:stall_during_cleanup')
        for p in plan['puts']:
            b = begins.get(p['id'])
            if b is not None and s < b + int(round(p['dur'] * 1e9)) <= e and b <= s:
                run.fired('reach:stall_over_run_end')
        if (stop_ns <= e and s - stop_ns <= plan['stop_timeout'] * 1e9 < e - stop_ns
                and end_ns >= e):
            run.fired('reach:stall_over_stop_timeout')
    for t, delta in wjumps:
        if t < stop_ns and any(b <= t < x for b, x in busy):
            run.fired('reach:wall_jump_during_run')
        if stop_ns <= t < end_ns:
            run.fired('reach:wall_jump_during_cleanup')
            if aux and any(e[1] == 'begin' and e[0] <= t for e in auxh) \
                    and not any(e[1] == 'end' and e[0] <= t for e in auxh) \
                    and any(first_result.get(i) is None or hist[first_result[i]][0] > t
                            for i in idents):
                run.fired('reach:wall_jump_two_blocks_in_cleanup')
    if aux and any(i for i in idents if i not in ends or ends[i] > stop_ns):
        run.fired('reach:two_blocks_busy_at_stop')
    for idx, t in st.get('helper_cancels', ()):
        if any(first_result.get(i, len(hist)) >= idx for i in idents):
            run.fired('reach:shutdown_caller_cancelled_work_pending')
    init_end = st.get('init_end_ns')
    if init_end is not None:
        if any(e[1] == 'put' and e[0] < init_end for e in hist):
            run.fired('reach:put_during_slow_init')
        if any(begins[i] < init_end < ends.get(i, end_ns) for i in begins):
            run.fired('reach:run_active_at_init_end')
    if plan.get('term2') or stalls or wjumps or aux:
        run.beh('extras', (plan.get('term2') or {}).get('kind'), [src for _, _, src in terms],
                len(stalls), [d > 0 for _, d in wjumps], bool(aux))
    if st.get('helper_cancels') or init_end is not None:
        run.beh('extras4', len(st.get('helper_cancels', ())), init_end is not None)
