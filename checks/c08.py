"""
C08 - every started block is stopped exactly once and nothing outlives the simulation.

Generated circuits of lifecycle probes and library blocks; one fault site (block x phase)
and one or two termination causes at drawn instants; both entry points (run_forever in a
task, edzed.run with supporting coroutines). Oracle: start/stop counters and order recorded
by pass-through wrappers, stop_data last, bounded clean-up, and inspection of the loop
after the end: no unfinished task, no live timer, the circuit frozen.
"""

from __future__ import annotations

import asyncio
import signal

from simkit import seams
from simkit.runner import Run, PlanError, canon, gen_knobs
from simkit.storage import SimStorage

edzed = seams.install()

PROP = 'C08'
LEVEL = 'fault_enumeration'
RUNS = {'quick': 60000, 'thorough': 600000}
CHUNK = 200
RULE = ("one run = circuit of 2-8 blocks (lifecycle probes: sync, init_from_value, async "
        "init/stop, main task, persistent, CBlock; library: astable Timer, OutputAsync in all "
        "modes, OutputFunc, Repeat, ValuePoll, InitAsync, TimeDate) x at most one fault site "
        "(block x phase in start/restore/init_async/init_regular/init_from_value/calc_output/"
        "event handler/main task/stop/stop_async) x termination cause (shutdown(), abort(), "
        "task cancel, '_ctrl' shutdown/abort events incl. the documented Event.shutdown(), "
        "supporting task returns/raises, SIGTERM, cancel of run()) x instant (before start, "
        "first step, during async init, running, output tasks in flight, second cause during "
        "clean-up); the first 1500 run indices walk the product fault site x cause x instant "
        "systematically; 40 % of the persistent probes have no stored entry, a fifth of the "
        "OutputAsync blocks have one 3 s run outliving a 0.3 s stop_timeout (cancel mode, single "
        "put); non-trivial = at least one block was started; distinct = hash of "
        "(entry, block kinds, fault, causes, instants, recorded lifecycle call sequence)")
REACH_EXPECTED = ['term_during_async_init', 'term_before_start', 'term_first_step',
                  'second_cause_in_cleanup', 'output_task_in_flight_at_stop',
                  'stop_async_timeout', 'init_async_timeout', 'start_fault_partial_start',
                  'all_started', 'fsm_timer_pending_at_stop']
ASSUMPTIONS = [
    "injected start() faults are raised before the block's own start code, injected "
    "stop()/stop_async() faults after the library's own clean-up ran (the block whose own "
    "clean-up is made to fail early could not release its resources; not what C08 promises)",
    "output coroutines of OutputAsync finish well inside stop_timeout here (tight stop_timeout "
    "is C12's business)",
]

SITES = ['start', 'restore', 'init_async', 'init_regular', 'init_from_value', 'calc_output',
         'event', 'main_task', 'stop', 'stop_async']
CAUSES_RF = ['shutdown', 'abort', 'cancel_task', 'ctrl_shutdown', 'ctrl_abort', 'ctrl_shutdown_doc',
             'none']
CAUSES_RUN = ['sup_return', 'sup_raise', 'sigterm', 'shutdown', 'cancel_run', 'ctrl_shutdown',
              'abort']
INSTANTS = ['before_start', 'first_step', 'async_init', 'running', 'in_flight']
SECOND = ['shutdown', 'abort', 'sigterm', 'internal_ctrl_shutdown']


_ORIG_START, _ORIG_STOP = edzed.Block.start, edzed.Block.stop


class Injected(Exception):
    """Fault raised by the harness inside user code."""


# --------------------------------------------------------------------------- generation

def gen_blocks(rng, fault_site):
    blocks = []
    n = rng.randint(2, 7)
    kinds = ['sync', 'ifv', 'async', 'main', 'persist', 'cblock', 'timer', 'oasync', 'ofunc',
             'repeat', 'vpoll', 'initasync', 'timedate']
    need = {'start': None, 'restore': 'persist', 'init_async': 'async', 'init_regular': 'sync',
            'init_from_value': 'ifv', 'calc_output': 'cblock', 'event': 'sync',
            'main_task': 'main', 'stop': None, 'stop_async': 'async'}.get(fault_site)
    chosen = [rng.choice(kinds) for _ in range(n)]
    if need and need not in chosen:
        chosen[rng.randrange(n)] = need
    if 'cblock' in chosen and not any(k in ('sync', 'ifv') for k in chosen):
        chosen.append('sync')
    if 'repeat' in chosen and 'sync' not in chosen and 'ofunc' not in chosen:
        chosen.append('sync')
    rng.shuffle(chosen)
    for i, kind in enumerate(chosen):
        b = {'kind': kind, 'name': f"{kind}{i}"}
        if kind == 'async':
            b['init'] = None
            b['stop'] = None
            if rng.random() < 0.7 or fault_site == 'init_async':
                b['init'] = {'dur': rng.choice([0.0, 0.2, 1.0, 2.0, 5.0]), 'set': rng.random() < 0.8}
                b['init_timeout'] = rng.choice([0.5, 1.5, 3.0, 0])
            if rng.random() < 0.7 or fault_site == 'stop_async':
                b['stop'] = {'dur': rng.choice([0.0, 0.1, 1.0, 4.0])}
                b['stop_timeout'] = rng.choice([0.5, 2.0, 6.0, 0])
        elif kind == 'main':
            b['stop_timeout'] = rng.choice([1.0, 3.0])
            b['slow_cancel'] = rng.choice([0.0, 0.0, 0.3, 5.0])
        elif kind == 'timer':
            b['t_period'] = rng.choice([0.4, 1.0, 3.0])
        elif kind == 'oasync':
            b['mode'] = rng.choice(['cancel', 'wait', 'start'])
            b['dur'] = rng.choice([0.0, 0.1, 0.5])
            b['stop_data'] = rng.random() < 0.6
            b['guard'] = rng.choice([None, None, 0.2])
            b['stop_timeout'] = 10.0
            if rng.random() < 0.2:
                # a single long run still active when the stop time-out expires: the time-out's
                # cancellation must reach the output task (cancel mode, one put, no stop_data:
                # clear of the known finding F13, which needs queued work)
                b.update(mode='cancel', dur=3.0, stop_data=False, guard=None, stop_timeout=0.3,
                         tight=True)
        elif kind == 'persist':
            b['stored'] = rng.random() < 0.6
        elif kind == 'ofunc':
            b['stop_data'] = rng.random() < 0.7
        elif kind == 'repeat':
            b['interval'] = rng.choice([0.3, 1.0])
            b['count'] = rng.choice([None, 2])
        elif kind == 'vpoll':
            b['interval'] = rng.choice([0.5, 2.0])
            b['async'] = rng.random() < 0.5
            b['first_delay'] = rng.choice([0.0, 0.0, 0.4, 3.0])
            b['init_timeout'] = rng.choice([1.0, 2.0])
            b['initdef'] = rng.random() < 0.6
        elif kind == 'initasync':
            b['dur'] = rng.choice([0.0, 0.3, 2.0])
            b['init_timeout'] = rng.choice([1.0, 0.2])
        blocks.append(b)
    names = [b['name'] for b in blocks]
    for b in blocks:
        if b['kind'] == 'cblock':
            b['input'] = rng.choice([x['name'] for x in blocks if x['kind'] in ('sync', 'ifv')])
            syncs = [x['name'] for x in blocks if x['kind'] == 'sync']
            if syncs and rng.random() < 0.5:
                # the CBlock's output event is delivered from inside the simulation task:
                # a failing handler there calls abort() AND raises into the simulator
                b['fwd'] = rng.choice(syncs)
        if b['kind'] == 'repeat':
            b['dest'] = rng.choice([x['name'] for x in blocks if x['kind'] in ('sync', 'ofunc')])
    return blocks, names


def gen(rng, tier, index=0):
    systematic = index < 1500
    if systematic:
        k = index
        site = (SITES + [None])[k % 11]
        k //= 11
        entry = ['rf', 'run'][k % 2]
        k //= 2
        causes = CAUSES_RF if entry == 'rf' else CAUSES_RUN
        cause = causes[k % len(causes)]
        k //= len(causes)
        instant = INSTANTS[k % len(INSTANTS)]
    else:
        site = rng.choice(SITES + [None, None, None])
        entry = rng.choice(['rf', 'run'])
        cause = rng.choice(CAUSES_RF if entry == 'rf' else CAUSES_RUN)
        instant = rng.choice(INSTANTS)
    blocks, _names = gen_blocks(rng, site)
    fault = None
    if site is not None:
        cands = {
            'start': [b for b in blocks],
            'stop': [b for b in blocks],
            'restore': [b for b in blocks if b['kind'] == 'persist'],
            'init_async': [b for b in blocks if b['kind'] == 'async' and b.get('init')],
            'stop_async': [b for b in blocks if b['kind'] == 'async' and b.get('stop')],
            'init_regular': [b for b in blocks if b['kind'] == 'sync'],
            'init_from_value': [b for b in blocks if b['kind'] == 'ifv'],
            'calc_output': [b for b in blocks if b['kind'] == 'cblock'],
            'event': [b for b in blocks if b['kind'] == 'sync'],
            'main_task': [b for b in blocks if b['kind'] == 'main'],
        }[site]
        if cands:
            fb = rng.choice(cands)
            fault = {'blk': fb['name'], 'site': site}
            if site == 'calc_output':
                fault['on_call'] = rng.choice([1, 2, 3])
            if site == 'main_task':
                fault['at'] = rng.choice([0.0, 0.5, 2.5])
                fault['mode'] = rng.choice(['raise', 'return'])
    if instant == 'before_start':
        if cause not in ('abort',):
            cause = 'abort'
        if entry == 'run':
            entry = 'rf'
    if instant == 'first_step' and cause not in ('abort', 'cancel_task', 'shutdown', 'sigterm',
                                                 'cancel_run', 'sup_return', 'sup_raise'):
        cause = 'abort' if entry == 'rf' else 'sup_return'
    t_term = {'before_start': 0.0, 'first_step': 0.0,
              'async_init': rng.choice([0.0005, 0.1, 0.3, 0.6, 1.2]),
              'running': rng.choice([6.0, 6.5, 7.25, 9.0]),
              'in_flight': 8.0}[instant]
    ops = []
    targets = [b for b in blocks if b['kind'] in ('sync', 'oasync', 'ofunc', 'repeat')]
    for _ in range(rng.randint(0, 5)):
        if not targets:
            break
        b = rng.choice(targets)
        ops.append({'t': rng.choice([5.5, 6.2, 7.0, 7.9, 7.95, 7.999, 8.0]), 'blk': b['name'],
                    'value': rng.randint(1, 9)})
    if instant == 'in_flight':
        for b in blocks:
            if b['kind'] == 'oasync':
                ops.append({'t': rng.choice([7.7, 7.95, 8.0]), 'blk': b['name'], 'value': 7})
                ops.append({'t': 8.0, 'blk': b['name'], 'value': 8})
    for b in blocks:
        if b.get('tight'):
            ops = [o for o in ops if o['blk'] != b['name']]
            ops.append({'t': 7.7, 'blk': b['name'], 'value': 7})
    ops.sort(key=lambda o: o['t'])
    second = None
    if rng.random() < 0.3 and cause != 'none' and instant not in ('before_start',):
        second = {'dt': rng.choice([0.0, 0.001, 0.05, 0.3, 1.5]), 'cause': rng.choice(SECOND)}
        if second['cause'] == 'sigterm' and entry != 'run':
            second['cause'] = 'shutdown'
    knobs = gen_knobs(rng, latency=True, cost=True, ties=True)
    waiter = rng.choice([None, 'plain', 'plain', 'cancelled'])
    return {'knobs': knobs, 'entry': entry, 'blocks': blocks, 'fault': fault, 'ops': ops,
            'waiter': waiter, 'waiter_cancel_t': rng.choice([0.0, 0.2, 1.0]),
            'term': {'t': t_term, 'cause': cause, 'instant': instant, 'second': second}}


# --------------------------------------------------------------------------- probe classes

class PSync(edzed.SBlock):
    def init_regular(self):
        self.x_ctx.site(self, 'init_regular')
        self.set_output(0)

    def _event_put(self, *, value, **_data):
        self.x_ctx.site(self, 'event')
        self.set_output(value)
        return value


class PIfv(edzed.SBlock):
    def init_from_value(self, value):
        self.x_ctx.site(self, 'init_from_value')
        self.set_output(value)

    def _event_put(self, *, value, **_data):
        self.set_output(value)


class PPersist(edzed.AddonPersistence, edzed.SBlock):
    def _restore_state(self, state, /):
        self.x_ctx.site(self, 'restore')
        self.set_output(state)

    def init_regular(self):
        self.set_output('regular')

    def _event_put(self, *, value, **_data):
        self.set_output(value)


class PMain(edzed.AddonMainTask, edzed.SBlock):
    def init_regular(self):
        self.set_output(0)

    async def _maintask(self):
        ctx = self.x_ctx
        spec = self.x_spec
        fault = ctx.fault_for(self, 'main_task')
        t0 = ctx.run.now()
        try:
            while True:
                if fault is not None and ctx.run.now() - t0 >= fault['at']:
                    ctx.run.fired('fault:user_fn_raises:main_task')
                    ctx.rec('main-fail', self.name, fault['mode'])
                    ctx.fatal_expected = True
                    if fault['mode'] == 'raise':
                        raise Injected(f"main task of {self.name}")
                    return
                await asyncio.sleep(0.25)
        except asyncio.CancelledError:
            if spec.get('slow_cancel'):
                # a task that reacts slowly to its cancellation
                try:
                    await asyncio.sleep(spec['slow_cancel'])
                except asyncio.CancelledError:
                    pass
            raise


def make_async_class(with_init, with_stop):
    ns = {}

    def init_regular(self):
        if not self.is_initialized():
            self.set_output('regular')
    ns['init_regular'] = init_regular
    if with_init:
        async def init_async(self):
            spec = self.x_spec['init']
            await asyncio.sleep(spec['dur'])
            self.x_ctx.site(self, 'init_async')
            if spec.get('set', True) and not self.is_initialized():
                self.set_output('async')
        ns['init_async'] = init_async
    if with_stop:
        async def stop_async(self):
            await asyncio.sleep(self.x_spec['stop']['dur'])
        ns['stop_async'] = stop_async
    return type(f"PAsync{int(with_init)}{int(with_stop)}", (edzed.AddonAsync, edzed.SBlock), ns)


ASYNC_CLASSES = {(i, s): make_async_class(i, s) for i in (False, True) for s in (False, True)}


class Trig(edzed.SBlock):
    """Sends control events on request."""

    def init_regular(self):
        self.set_output(0)

    def _event_fire(self, *, which, **_data):
        ev = self.x_events.get(which)
        if ev is not None:
            ev.send(self)


# --------------------------------------------------------------------------- context

class Ctx:
    def __init__(self, run, plan):
        self.run = run
        self.plan = plan
        self.fault = plan.get('fault')
        self.log = []               # lifecycle records
        self.started = {}           # name -> count of start() that returned
        self.stops = {}             # name -> count
        self.start_entered = {}
        self.fatal_expected = False
        self.base_started = {}
        self.base_stopped = {}
        self.calc_calls = {}
        self.ended = False          # the awaited entry point has returned
        self.late = []              # activity observed after the end
        self.harness_tasks = []

    def rec(self, kind, name, *extra):
        entry = [kind, name, *extra]
        self.log.append(entry)
        self.run.log('lc', *entry)
        if self.ended and kind not in ('wait_init', 'shutdown-exc', 'term', 'term-refused', 'term-exc'):
            self.late.append(entry)

    def fault_for(self, blk, site):
        f = self.fault
        if f is not None and f['site'] == site and f['blk'] == blk.name:
            return f
        return None

    def site(self, blk, site):
        """Called from user code at a fault site; raises when the fault is planned here."""
        if self.ended:
            self.late.append(['user-code', blk.name, site])
        if self.fault_for(blk, site) is not None:
            self.run.fired(f"fault:user_fn_raises:{site}")
            self.rec('fault', blk.name, site)
            if site in ('init_regular', 'init_from_value', 'event', 'calc_output'):
                self.fatal_expected = True
            raise Injected(f"{site} of {blk.name}")

    def wrap(self, blk):
        """Pass-through wrappers (instance attributes) recording the lifecycle calls."""
        ctx = self
        name = blk.name
        orig_start, orig_stop = blk.start, blk.stop
        circuit = blk.circuit

        def start():
            ctx.start_entered[name] = ctx.start_entered.get(name, 0) + 1
            ctx.rec('start', name)
            if ctx.fault_for(blk, 'start') is not None:
                ctx.run.fired('fault:user_fn_raises:start')
                ctx.fatal_expected = True
                raise Injected(f"start of {name}")
            orig_start()
            ctx.started[name] = ctx.started.get(name, 0) + 1

        def stop():
            ctx.stops[name] = ctx.stops.get(name, 0) + 1
            ctx.rec('stop', name, circuit.error is not None)
            orig_stop()
            if ctx.fault_for(blk, 'stop') is not None:
                ctx.run.fired('fault:user_fn_raises:stop')
                raise Injected(f"stop of {name}")
        blk.start = start
        blk.stop = stop
        if isinstance(blk, edzed.AddonAsync) and blk.has_method('stop_async'):
            orig_sa = blk.stop_async

            async def stop_async():
                ctx.rec('sa-begin', name)
                try:
                    await orig_sa()
                except asyncio.CancelledError:
                    ctx.rec('sa-cancel', name)
                    raise
                except Exception as err:
                    ctx.rec('sa-exc', name, type(err).__name__)
                    raise
                if ctx.fault_for(blk, 'stop_async') is not None:
                    ctx.run.fired('fault:user_fn_raises:stop_async')
                    ctx.rec('sa-exc', name, 'Injected')
                    raise Injected(f"stop_async of {name}")
                ctx.rec('sa-end', name)
            blk.stop_async = stop_async
        if isinstance(blk, edzed.AddonAsync) and blk.has_method('init_async'):
            orig_ia = blk.init_async

            async def init_async():
                ctx.rec('ia-begin', name)
                try:
                    await orig_ia()
                except asyncio.CancelledError:
                    ctx.rec('ia-cancel', name)
                    raise
                except Exception as err:
                    ctx.rec('ia-exc', name, type(err).__name__)
                    raise
                ctx.rec('ia-end', name)
            blk.init_async = init_async


# --------------------------------------------------------------------------- execution

def build(ctx, plan, storage):
    run = ctx.run
    blocks = {}
    outlog = []

    def mk_ofunc(name):
        def func(value):
            ctx.rec('ofunc', name, value)
            return value
        return func

    def mk_ocoro(name, dur):
        async def coro(value):
            ctx.rec('ocoro-begin', name, value)
            try:
                await asyncio.sleep(dur)
            except asyncio.CancelledError:
                ctx.rec('ocoro-cancel', name, value)
                raise
            ctx.rec('ocoro-end', name, value)
            return value
        return coro

    def mk_vpfunc(name, spec):
        calls = {'n': 0}
        if spec.get('async'):
            async def afunc():
                calls['n'] += 1
                if ctx.ended:
                    ctx.late.append(['vpoll-call', name])
                if calls['n'] == 1 and spec.get('first_delay'):
                    await asyncio.sleep(spec['first_delay'])
                return calls['n']
            return afunc

        def func():
            calls['n'] += 1
            if ctx.ended:
                ctx.late.append(['vpoll-call', name])
            if calls['n'] == 1 and spec.get('first_delay'):
                return edzed.UNDEF
            return calls['n']
        return func

    def mk_calc(name, spec):
        def func(x):
            n = ctx.calc_calls[name] = ctx.calc_calls.get(name, 0) + 1
            f = ctx.fault
            if (f is not None and f['site'] == 'calc_output' and f['blk'] == name
                    and n >= f.get('on_call', 1)):
                ctx.run.fired('fault:user_fn_raises:calc_output')
                ctx.rec('fault', name, 'calc_output')
                ctx.fatal_expected = True
                raise Injected(f"calc_output of {name}")
            return x
        return func

    try:
        for b in plan['blocks']:
            kind, name = b['kind'], b['name']
            if kind == 'sync':
                blk = PSync(name, x_ctx=ctx)
            elif kind == 'ifv':
                blk = PIfv(name, x_ctx=ctx, initdef=5)
            elif kind == 'persist':
                blk = PPersist(name, x_ctx=ctx, persistent=True)
                if b.get('stored', True):
                    storage[blk.key] = 'stored'
                else:
                    ctx.run.fired('reach:persistent_block_without_saved_state')
            elif kind == 'main':
                blk = PMain(name, x_ctx=ctx, x_spec=b, stop_timeout=b.get('stop_timeout', 3.0))
            elif kind == 'async':
                cls = ASYNC_CLASSES[(b.get('init') is not None, b.get('stop') is not None)]
                kw = {}
                if b.get('init') is not None:
                    kw['init_timeout'] = b.get('init_timeout', 1.0)
                if b.get('stop') is not None:
                    kw['stop_timeout'] = b.get('stop_timeout', 1.0)
                blk = cls(name, x_ctx=ctx, x_spec=b, **kw)
            elif kind == 'cblock':
                kw = {}
                if b.get('fwd'):
                    kw['on_output'] = edzed.Event(b['fwd'], 'put')
                blk = edzed.FuncBlock(name, func=mk_calc(name, b), **kw).connect(b['input'])
            elif kind == 'timer':
                blk = edzed.Timer(name, t_period=b['t_period'])
            elif kind == 'oasync':
                blk = edzed.OutputAsync(
                    name, coro=mk_ocoro(name, b['dur']), mode=b['mode'], guard_time=b.get('guard'),
                    on_error=None, stop_data={'value': 'STOP'} if b.get('stop_data') else None,
                    stop_timeout=b.get('stop_timeout', 10.0))
            elif kind == 'ofunc':
                blk = edzed.OutputFunc(
                    name, func=mk_ofunc(name), on_error=None,
                    stop_data={'value': 'STOP'} if b.get('stop_data') else None)
            elif kind == 'repeat':
                blk = edzed.Repeat(name, dest=b['dest'], etype='put', interval=b['interval'],
                                   count=b.get('count'))
            elif kind == 'vpoll':
                kw = {'initdef': 0} if b.get('initdef') else {}
                blk = edzed.ValuePoll(name, func=mk_vpfunc(name, b), interval=b['interval'],
                                      init_timeout=b.get('init_timeout', 1.0), **kw)
            elif kind == 'initasync':
                async def icoro(dur=b['dur']):
                    await asyncio.sleep(dur)
                    return 'ia'
                blk = edzed.InitAsync(name, init_coro=[icoro], init_timeout=b['init_timeout'],
                                      initdef='dflt')
            elif kind == 'timedate':
                blk = edzed.TimeDate(name, times=[[[1, 0], [2, 0]]])
            else:
                raise PlanError(f"unknown kind {kind}")
            blocks[name] = blk
        events = {'shutdown': edzed.Event('_ctrl', 'shutdown'), 'abort': edzed.Event.abort()}
        if hasattr(edzed.Event, 'shutdown'):
            events['shutdown_doc'] = edzed.Event.shutdown()
        trig = Trig('trig', x_events=events)
        blocks['trig'] = trig
    except PlanError:
        raise
    except Exception as err:
        raise PlanError(f"build failed: {type(err).__name__}: {err}") from None
    return blocks


def execute(plan, trace=False):
    run = Run(plan['knobs'])
    ctx = Ctx(run, plan)
    try:
        loop = run.loop
        storage = SimStorage(clock=lambda: loop._ns)
        blocks = build(ctx, plan, storage)
        circuit = edzed.get_circuit()
        circuit.set_persistent_data(storage)
        for blk in list(circuit.getblocks()):
            ctx.wrap(blk)
        planned = set(b.name for b in circuit.getblocks())
        # auto-created blocks (_ctrl, _cron_*, _not_*): count through the base class hooks
        Block = edzed.Block

        def base_start(self):
            if self.name not in planned:
                ctx.base_started[self.name] = ctx.base_started.get(self.name, 0) + 1
                ctx.rec('start', self.name)

        def base_stop(self):
            if self.name not in planned:
                ctx.base_stopped[self.name] = ctx.base_stopped.get(self.name, 0) + 1
                ctx.rec('stop', self.name, circuit.error is not None)
        Block.start, Block.stop = base_start, base_stop
        term = plan['term']
        entry = plan['entry']
        info = {'t_end': None, 'result': None, 'simtask': None, 'runtask': None,
                'term_fired_ns': None, 'doc_missing': False}
        sup_events = {}
        sup_fired = set()

        def fire(cause, tag):
            """Termination causes that are plain calls (no awaiting)."""
            if cause in ('cancel_task', 'cancel_run') and circuit.error is not None:
                # A plain task cancellation while the clean-up is already in progress is not
                # among the ways of ending the simulation listed by C08 (it interrupts the
                # clean-up, as the comments in edzed.run() acknowledge); use abort() then.
                cause = 'abort'
            ctx.rec('term', cause, tag)
            run.fired(f"fault:terminate:{cause}")
            if info['term_fired_ns'] is None:
                info['term_fired_ns'] = loop._ns
            if cause == 'abort':
                circuit.abort(Injected('abort() by the application'))
            elif cause == 'cancel_task':
                if info['simtask'] is not None:
                    info['simtask'].cancel()
            elif cause == 'cancel_run':
                if info['runtask'] is not None:
                    info['runtask'].cancel()
            elif cause in ('ctrl_shutdown', 'ctrl_abort', 'ctrl_shutdown_doc'):
                which = {'ctrl_shutdown': 'shutdown', 'ctrl_abort': 'abort',
                         'ctrl_shutdown_doc': 'shutdown_doc'}[cause]
                if which == 'shutdown_doc' and 'shutdown_doc' not in blocks['trig'].x_events:
                    info['doc_missing'] = True
                    which = 'shutdown'
                try:
                    edzed.ExtEvent(blocks['trig'], 'fire').send(which=which)
                except edzed.EdzedInvalidState:
                    ctx.rec('term-refused', cause)
            elif cause == 'internal_ctrl_shutdown':
                # an internal event still flows during clean-up
                try:
                    blocks['trig'].event('fire', which='shutdown')
                except Exception as err:    # pylint: disable=broad-except
                    ctx.rec('term-exc', cause, type(err).__name__)
            elif cause == 'sigterm':
                handler = signal.getsignal(signal.SIGTERM)
                if callable(handler):
                    handler(signal.SIGTERM, None)
                else:
                    ctx.rec('term-refused', cause)
            elif cause in ('sup_return', 'sup_raise'):
                sup_fired.add(cause)
                ev = sup_events.get(cause)
                if ev is not None:
                    ev.set()
            elif cause == 'shutdown':
                ctx.harness_tasks.append(loop.create_task(do_shutdown()))
            elif cause == 'none':
                pass
            else:
                raise PlanError(f"unknown cause {cause}")

        async def do_shutdown():
            try:
                await circuit.shutdown()
            except asyncio.CancelledError:
                raise
            except Exception as err:    # pylint: disable=broad-except
                ctx.rec('shutdown-exc', type(err).__name__)

        def do_op(op):
            blk = blocks.get(op['blk'])
            if blk is None:
                raise PlanError('op on missing block')
            try:
                edzed.ExtEvent(blk, 'put').send(op['value'])
            except edzed.EdzedInvalidState:
                pass
            except Exception as err:    # pylint: disable=broad-except
                ctx.rec('op-exc', op['blk'], type(err).__name__)

        def max_timeouts():
            st = [0.0]
            it = [0.0]
            for blk in circuit.getblocks(edzed.AddonAsync):
                if blk.has_method('stop_async'):
                    st.append(blk.stop_timeout)
                if blk.has_method('init_async'):
                    it.append(blk.init_timeout)
            return max(st), max(it)

        async def main():
            max_stop, max_init = max_timeouts()
            for op in plan['ops']:
                run.at(op['t'], do_op, op)
            instant = term['instant']
            cause = term['cause']
            waited = None
            if instant == 'before_start':
                fire('abort', 'first')
                run.fired('reach:term_before_start')
            if entry == 'rf':
                simtask = asyncio.create_task(circuit.run_forever())
                info['simtask'] = simtask
                waited = simtask
            else:
                async def sup(kind):
                    ev = sup_events[kind] = asyncio.Event()
                    if kind not in sup_fired:
                        await ev.wait()
                    if kind == 'sup_raise':
                        raise Injected('supporting task failed')
                runtask = asyncio.create_task(edzed.run(sup('sup_return'), sup('sup_raise')))
                info['runtask'] = runtask
                waited = runtask
            if plan.get('waiter'):
                async def waiter():
                    try:
                        await circuit.wait_init()
                        ctx.rec('wait_init', 'returned')
                    except edzed.EdzedInvalidState:
                        ctx.rec('wait_init', 'refused')
                    except Exception as err:    # pylint: disable=broad-except
                        ctx.rec('wait_init', 'error', type(err).__name__)
                wtask = asyncio.create_task(waiter())
                ctx.harness_tasks.append(wtask)
                if plan['waiter'] == 'cancelled':
                    run.at(plan.get('waiter_cancel_t', 0.2), wtask.cancel)
            if instant == 'first_step':
                run.fired('reach:term_first_step')
                if cause in ('sup_return', 'sup_raise', 'sigterm'):
                    # these need run() to have started its tasks / handler
                    await asyncio.sleep(0)
                    await asyncio.sleep(0)
                fire(cause, 'first')
            elif instant != 'before_start':
                run.at(term['t'], fire, cause, 'first')
            sec = term.get('second')
            if sec:
                run.at(term['t'] + sec['dt'], fire, sec['cause'], 'second')
            bound = term['t'] + max_stop + max_init + 12.0
            if cause == 'none' and ctx.fault is None:
                # nobody terminates: the harness shuts down late
                run.at(10.0, fire, 'shutdown', 'late')
            elif cause == 'none':
                run.at(12.0, fire, 'shutdown', 'late')
            done, _pending = await asyncio.wait([waited], timeout=bound + 6.0)
            ctx.ended = True
            info['t_end'] = run.now()
            if not done:
                run.violate('C08/cleanup-not-bounded',
                            f"the simulation did not finish within {bound + 6.0:.1f}s after start "
                            f"(max stop_timeout {max_stop}, max init_timeout {max_init})")
                return
            try:
                info['result'] = ('ok', waited.result())
            except (Exception, asyncio.CancelledError) as err:  # pylint: disable=broad-except
                info['result'] = ('exc', err)
            run.log('ended', canon(info['result']))

        run.run(main())
        Block.start, Block.stop = _ORIG_START, _ORIG_STOP
        if run.harness_error is None and info['t_end'] is not None and info['result'] is not None:
            judge(run, ctx, plan, circuit, blocks, info)
        res = run.result()
        if not ctx.started and not ctx.base_started:
            res['behaviour'] = None
        if trace:
            res['trace'] = run.trace
        return res
    finally:
        edzed.Block.start, edzed.Block.stop = _ORIG_START, _ORIG_STOP
        run.close()


def judge(run, ctx, plan, circuit, blocks, info):
    term = plan['term']
    fault = plan.get('fault')
    loop = run.loop
    log = ctx.log
    all_blocks = list(circuit.getblocks())
    # ---- 1. stop exactly once for exactly the started blocks
    n_started = 0
    for blk in all_blocks:
        name = blk.name
        started = ctx.started.get(name, 0) + ctx.base_started.get(name, 0)
        stops = ctx.stops.get(name, 0) + ctx.base_stopped.get(name, 0)
        n_started += bool(started)
        if started > 1:
            run.violate('C08/started-twice', f"{name}: start() returned {started} times")
        if stops != (1 if started else 0):
            site = f"{fault['site']}" if fault else 'no-fault'
            kind = 'never-stopped' if stops == 0 else ('stopped-twice' if started else
                                                       'stopped-but-not-started')
            run.violate(f"C08/stop-count/{kind}",
                        f"{name}: start() returned {started}x, stop() called {stops}x "
                        f"(fault {site}, cause {term['cause']} at {term['instant']})")
    if n_started == len(all_blocks):
        run.fired('reach:all_started')
    elif n_started and fault and fault['site'] == 'start':
        run.fired('reach:start_fault_partial_start')
    # ---- 2. no stop before the simulation ended
    for e in log:
        if e[0] == 'stop' and e[2] is False:
            run.violate('C08/stop-before-end', f"{e[1]}: stop() called while the simulation was running")
    # ---- 3. async blocks first
    async_names = set()
    for blk in all_blocks:
        if (isinstance(blk, edzed.AddonAsync) and blk.has_method('stop_async')
                and blk.stop_timeout > 0.0):
            async_names.add(blk.name)
    first_sync_stop = None
    for i, e in enumerate(log):
        if e[0] == 'stop' and e[1] not in async_names:
            first_sync_stop = i
            break
    if first_sync_stop is not None:
        for i, e in enumerate(log):
            if i > first_sync_stop and e[1] in async_names and e[0] in ('stop', 'sa-begin', 'sa-end',
                                                                       'sa-cancel', 'sa-exc'):
                run.violate('C08/async-cleanup-order',
                            f"{e[1]}: {e[0]} after the synchronous block {log[first_sync_stop][1]} "
                            "was already stopped")
                break
    for name in async_names:
        started = ctx.started.get(name, 0) + ctx.base_started.get(name, 0)
        if not started or name not in ctx.stops:
            continue
        seq = [e[0] for e in log if e[1] == name and e[0].startswith('sa-')]
        if seq[:1] != ['sa-begin'] and any(b['name'] == name for b in plan['blocks']):
            # (only planned blocks carry the stop_async wrapper)
            run.violate('C08/stop-async-not-awaited', f"{name}: stop_async() was not run ({seq})")
        if 'sa-cancel' in seq:
            run.fired('reach:stop_async_timeout')
    if any(e[0] == 'ia-cancel' for e in log):
        run.fired('reach:init_async_timeout')
    # ---- 4. clean-up bounded
    stop_times = [t[1] for t in run.trace if t[2] == 'lc' and t[3][0] == 'stop']
    if stop_times:
        max_stop = max([0.0] + [b.stop_timeout for b in all_blocks if b.name in async_names])
        dur = info['t_end'] - stop_times[0] / 1e9
        slack = 0.05 + run.knobs['latency_ns'] / 1e9 * 20 + run.knobs['cost_ns'] / 1e9 * 500
        if dur > max_stop + slack:
            run.violate('C08/cleanup-too-long',
                        f"clean-up took {dur:.3f}s, the largest stop_timeout is {max_stop}")
    # ---- 5. stop_data last
    for b in plan['blocks']:
        name = b['name']
        if b['kind'] == 'ofunc':
            calls = [e[2] for e in log if e[0] == 'ofunc' and e[1] == name]
            want = bool(b.get('stop_data')) and ctx.started.get(name, 0) > 0
            n_stop = calls.count('STOP')
            if want and (n_stop != 1 or calls[-1] != 'STOP'):
                run.violate('C08/stop-data/ofunc', f"{name}: calls {calls}: stop_data must be the last call, once")
            if not want and n_stop:
                run.violate('C08/stop-data/ofunc', f"{name}: stop_data processed although not started/configured")
        if b['kind'] == 'oasync':
            begins = [e[2] for e in log if e[0] == 'ocoro-begin' and e[1] == name]
            ends = [e[2] for e in log if e[0] == 'ocoro-end' and e[1] == name]
            want = bool(b.get('stop_data')) and ctx.started.get(name, 0) > 0
            if want:
                if begins.count('STOP') != 1 or begins[-1] != 'STOP' or 'STOP' not in ends:
                    init_done = getattr(circuit, '_init_done', None)
                    phase = 'after-init' if (init_done is not None and init_done.is_set()) \
                        else 'stopped-before-init'
                    run.violate(f"C08/stop-data/oasync/{phase}",
                                f"{name} ({b['mode']}): runs started {begins}, completed {ends}: "
                                "stop_data must be processed last and completely")
            elif 'STOP' in begins:
                run.violate('C08/stop-data/oasync', f"{name}: stop_data processed although not started/configured")
            unfinished = len(begins) - len(ends) - sum(
                1 for e in log if e[0] == 'ocoro-cancel' and e[1] == name)
            if unfinished:
                run.violate('C08/output-task-unfinished', f"{name}: {unfinished} output run(s) neither "
                            "completed nor cancelled when the simulation ended")
    # ---- 6. nothing outlives the simulation
    pend = run.pending_tasks(exclude=ctx.harness_tasks)
    for desc in pend:
        what = desc.split('|')[0]
        run.violate(f"C08/leaked-task/{what}",
                    f"task still pending after the simulation ended: {desc} "
                    f"(fault {fault['site'] if fault else None}, cause {term['cause']} at "
                    f"{term['instant']}, second {term.get('second')})")
    timers = [t for t in run.live_timers() if not getattr(t[2], '_sim_exact', False)]
    for qual, owner, _h in timers:
        run.violate(f"C08/leaked-timer/{qual}", f"timer still pending after the end: {qual} {owner}")
    n_late0 = len(ctx.late)
    run.run_more(3600.0)
    if len(ctx.late) > n_late0 or ctx.late:
        run.violate('C08/activity-after-end', f"edzed code ran after the simulation ended: {ctx.late[:4]}")
    # ---- 7. frozen
    async def again():
        try:
            await circuit.run_forever()
        except edzed.EdzedInvalidState:
            return 'refused'
        except (Exception, asyncio.CancelledError) as err:  # pylint: disable=broad-except
            return f"other: {type(err).__name__}: {err}"
        return 'returned'
    was_started = circuit._simtask is not None
    if was_started:
        try:
            verdict = loop.run_until_complete(again())
        except Exception as err:    # pylint: disable=broad-except
            verdict = f"loop: {err}"
        if verdict != 'refused':
            run.violate('C08/restart-not-refused', f"second run_forever(): {verdict}")
        for what, fn in (('new block', lambda: PSync('late_block', x_ctx=ctx)),
                         ('set_persistent_data', lambda: circuit.set_persistent_data({}))):
            try:
                fn()
            except edzed.EdzedInvalidState:
                pass
            except Exception as err:    # pylint: disable=broad-except
                run.violate('C08/modification-not-refused', f"{what}: raised {type(err).__name__} "
                            "instead of EdzedInvalidState")
            else:
                run.violate('C08/modification-not-refused',
                            f"{what} accepted after the simulation ended")
    if info['doc_missing']:
        run.violate('C08/documented-api-missing/Event.shutdown',
                    "docs/events.rst documents the classmethod Event.shutdown(); it does not exist")
    # ---- reach
    inst = term['instant']
    if inst == 'async_init' and any(e[0] == 'ia-begin' for e in log):
        # was an init_async still running when the termination fired?
        ia_open = 0
        for e in log:
            if e[0] == 'ia-begin':
                ia_open += 1
            elif e[0] in ('ia-end', 'ia-cancel', 'ia-exc'):
                ia_open -= 1
            elif e[0] == 'term' and e[2] == 'first':
                if ia_open > 0:
                    run.fired('reach:term_during_async_init')
                break
    if term.get('second'):
        # second cause fired between the first stop() and the end?
        seen_stop = False
        for e in log:
            if e[0] == 'stop':
                seen_stop = True
            if e[0] == 'term' and e[2] == 'second' and not seen_stop and any(
                    x[0] == 'term' and x[2] == 'first' for x in log):
                run.fired('reach:second_cause_before_cleanup')
            if e[0] == 'term' and e[2] == 'second' and seen_stop:
                run.fired('reach:second_cause_in_cleanup')
    open_runs = 0
    for e in log:
        if e[0] == 'ocoro-begin':
            open_runs += 1
        elif e[0] in ('ocoro-end', 'ocoro-cancel'):
            open_runs -= 1
        elif e[0] == 'stop' and open_runs > 0:
            run.fired('reach:output_task_in_flight_at_stop')
            break
    if any(b['kind'] == 'timer' and ctx.started.get(b['name']) for b in plan['blocks']):
        run.fired('reach:fsm_timer_pending_at_stop')
    # behaviour abstraction
    run.beh(plan['entry'], sorted(b['kind'] for b in plan['blocks']),
            fault['site'] if fault else None, term['cause'], term['instant'],
            (term.get('second') or {}).get('cause'),
            [e[0] for e in log if e[0] in ('start', 'stop', 'sa-begin', 'sa-end', 'sa-cancel',
                                           'ia-begin', 'ia-end', 'ia-cancel', 'term', 'fault')])
