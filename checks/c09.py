"""
C09 - the first error stops the simulation and is the one that gets reported.

One run = a fixed small probe circuit (input -> FuncBlock -> handler probe, relay, control
event trigger, OutputFunc/OutputAsync with on_error=Event.abort(), optional async init/stop
probe, persistent probe, init probes, main-task probes, ValuePoll, stop probe) x one entry
point (run_forever() in a task / edzed.run() with supporting coroutines / edzed.run() alone)
x 1-3 competing *fatal* sources of different kinds fired at planned virtual instants (same
instant with equal or different number of call_soon hops, 1 ms apart, during the async
initialisation, during the clean-up, at the exact end of the clean-up, before the start,
between create_task() and the first step) x non-fatal sources (unknown event type, missing /
extra event parameter, failing init_async, failing _restore_state, failing
stop()/stop_async()).

Ground truth ("delivery order"): every fault site writes a record at the instant it fires
(inside the raising handler / calc function / task / init routine, or immediately before the
harness calls abort()).  Cancellations that edzed itself delivers on behalf of a request
(shutdown(), SIGTERM handler, run() after a supporting task ended, '_ctrl' shutdown event)
are recorded by a pass-through wrapper of Circuit.abort (instance attribute, records the
*call*, never the outcome).  A raw Task.cancel() of the simulation task is delivered when
the task next runs: everything recorded between the request and that point is accepted as
possibly first (monitor style), nothing else is relaxed.

Oracle: the first delivered entry F decides what run_forever() raises, what Circuit.error
holds (and keeps holding: it is sampled at every record), what every shutdown() call made
before / during / after the clean-up does (returns when F is a cancellation, re-raises F
otherwise), what run() does (F if fatal; else the error of any failed supporting task
(DESIGN 3.3); else None).  Handler errors and '_ctrl' abort events must arrive wrapped in
EdzedCircuitError with the original as __cause__, everything else by identity.  is_ready()
must be true at every sample between the end of the start phase and the first terminating
record (so non-fatal kinds leave it true) and false at every sample after the entry point
finished, incl. after another 3 virtual seconds, and false from the record that follows the
first delivery.  abort() before the start: no block may be started.

Genuine defects of the pinned tree found by this check (replays in /verif/known/):
  C09/first-error-lost/shutdown-awaiter-cancelled
      error X delivered, a supporting coroutine awaits the documented Circuit.shutdown(),
      another supporting coroutine exits: run() cancels the awaiting task, `await
      self._simtask` forwards the cancellation into the simulation task, the clean-up is cut
      short, run_forever() ends with CancelledError: run() returns None (or raises the
      supporting task's error), shutdown() returns, Circuit.error still holds X.
  C09/init-routine-error-not-fatal/early-init-by-external-event
      an external event that arrives before / during the (async) initialisation makes
      event() run init_regular() early; an exception of that routine goes to the sender only
      (the early initialisation is outside the try block that aborts); if the routine had
      set the output before it failed, the simulation goes on.

Sensitivity (first 12000 indices of the quick tier, mutants applied to a scratch copy of
/repo that has the two candidate repairs; c = caught):

  M1   abort(): a later call overwrites _error (early return dropped)              c
  M1b  abort(): a later *error* overwrites _error (only cancellations ignored)     c
  M2   SBlock.event: no abort() for handler errors (DESIGN: "not aborted when      c
       caught")
  M3   SBlock.event: abort although tb_next is None (missing/extra parameter)      c
  M4   run(): supporting-task errors collected before the simulator's              c
  M5   _task_monitor swallows (no abort, no re-raise)                              c
  M6   run_forever: `_error = err` for every non-cancel exception caught (the      c
       raise after an abort(), the handler error passing through the simulator
       task replace the first error)
  M7   shutdown(): never re-raises                                                 c
  M8   abort(): an error replaces an earlier cancellation                          c
  M9   SBlock.event: abort(err) without the EdzedCircuitError wrapper              c
  M10  ControlBlock 'abort' event delivers CancelledError                          c
  M11  is_ready(): `_simtask is not None and not _simtask.done()` (ready during    c
       the clean-up)
  M11b is_ready(): true again after a cancellation (`not isinstance(_error,        c
       Exception)`)
  M12  run_forever: no check of an error set before the start                      c (circuits
       without an automatic '_ctrl' block only; with one, addblock() refuses and the start
       fails anyway)
  M16  run(): the early "Simulator task did not start" branch swallows the error   missed:
       unreachable, run_forever() always yields once before it ends, equivalent mutant
  M17  _task_monitor: abort() only after the initialisation is done                c
  M19  run_forever: pending cancellation not absorbed before the clean-up          c
  M20  SIGTERM handler aborts with an EdzedCircuitError                            c
  M24  run_forever: CancelledError not caught (no clean-up, no _error)             c
  M30  run(): the last collected error wins                                        c
  M35  SBlock.event: EdzedUnknownEvent treated like any handler error              c
  s2   (seeded C09-s2) abort() does not cancel the simulation task when called     c
       by it + pending-cancellation drain removed: needs abort() executed by the
       simulation task with nothing raised (kinds ctrl_abort_sim, ofunc_abort_sim,
       handler_caught_sim); clause not-terminated / not-terminated-by-itself
  s6   (seeded C09-s6) the pending-cancellation drain only after a caught error:   c
       needs abort() by the simulation task during the synchronous initialisation with
       nothing raised (kinds init_abort, init_ctrl_abort, init_ofunc_abort) + a stop_async
       block; run_forever ends as cancelled although Circuit.error holds the error
  C05-s4 early-init failure not aborted inside the simulation task: needs an       c
       internal event whose sender swallows the exception (kind init_early_int: relay /
       AddonPersistence restore path)
  s8   (seeded C09-s8) _run_tasks() swallows the simulation task's CancelledError:   c
       needs a stop (raw cancel / abort(E) / shutdown() / any fatal source) while an
       init_async is awaited, and a second, slower init_async (plan['pa2']) so that the
       swallowed stop shows as a delay; clauses not-terminated-promptly,
       initialisation-continued-after-stop, reached-running-state-after-stop
  MB   run(): raw simtask.cancel() instead of abort(CancelledError) when a         c
       supporting task exits (needs: error first, supporting task exits during clean-up)
  MC   abort(): cancels the simulation task again although an error is set         c
       (needs: error first, any abort()/shutdown() during an async clean-up)
"""

from __future__ import annotations

import asyncio
import signal

from simkit import seams
from simkit.runner import Run, PlanError, gen_knobs
from simkit.storage import SimStorage

edzed = seams.install()

PROP = 'C09'
LEVEL = 'fault_enumeration'
RUNS = {'quick': 40000, 'thorough': 2000000}
CHUNK = 250
RULE = ("one run = fixed probe circuit x entry point (run_forever task + shutdown() / "
        "edzed.run(*supporting coroutines) / edzed.run()) x 1-3 fatal sources (handler error "
        "direct / caught by the calling block / through a relaying block / inside the simulator "
        "task / inside an init routine, failing OutputFunc / OutputAsync with "
        "on_error=Event.abort(), abort() executed by the simulator task itself with nothing "
        "raised ('_ctrl' abort event on a CBlock's on_output, OutputFunc with "
        "on_error=Event.abort() fed by a CBlock, handler error caught by a sender running in "
        "the simulator task), the same during the synchronous initialisation (abort() in an "
        "init routine, '_ctrl' abort event / failing OutputFunc on a block's initial output), "
        "init routine failing in an early initialisation forced by an internal event whose "
        "sender swallows the exception (relay / AddonPersistence restore), init routine failing in an early initialisation forced by an "
        "external event, calc_output error, abort() followed by a raise, failing main task (raise / "
        "return), failing ValuePoll.func, abort(exc), '_ctrl' abort event, '_ctrl' shutdown "
        "event, shutdown(), raw cancel of the simulation task / of run(), failing or returning "
        "supporting task, SIGTERM, failing init_regular/init_from_value) at planned instants "
        "(same instant with equal / different call_soon hops, +1 ms, during async init, during "
        "clean-up, at the end of clean-up, before start, before the first step) x non-fatal "
        "sources x loop knobs (tie order, latency, cost, hash salt); the first N_SYS (about 6000) run indices walk "
        "entry x (single kind x phase, unordered pair of kinds x 7 timing patterns, for run(): "
        "fatal kind x shutdown() in a supporting coroutine x exiting supporting coroutine x 3 "
        "patterns) systematically, the rest is sampled incl. triples; non-trivial = at least one planned "
        "source (not only the harness's late shutdown()) fired; distinct = hash of (entry, "
        "ordered kinds of all recorded deliveries / requests / non-fatal faults, same-instant "
        "flags, kind of the reported error, results of run()/shutdown())")
REACH_EXPECTED = ['two_deliveries_same_instant', 'tie_order_reversed', 'later_error_ignored',
                  'cancel_first_then_error', 'error_first_then_cancel', 'abort_before_start',
                  'abort_before_first_step', 'delivery_during_async_init',
                  'delivery_during_cleanup', 'handler_error_caught_by_caller',
                  'handler_error_in_simtask', 'abort_then_raise', 'nonfatal_still_ready',
                  'sup_error_reported_by_run', 'sim_error_preferred_over_sup',
                  'raw_cancel_raced', 'request_overtaken', 'shutdown_reraised',
                  'shutdown_returned', 'shutdown_during_cleanup', 'run_returned_none',
                  'three_sources_fired', 'error_in_cleanup_ignored',
                  'shutdown_awaiter_cancelled', 'init_error_in_early_init',
                  'abort_inside_simtask_nothing_raised', 'abort_during_sync_init_nothing_raised',
                  'init_error_swallowed_by_sender', 'stop_while_init_task_awaited_other_pending']
ASSUMPTIONS = [
    "delivery order = order of the records written at the fault sites and by the pass-through "
    "wrapper of Circuit.abort for cancellations that edzed itself delivers (shutdown(), SIGTERM, "
    "run(), '_ctrl' shutdown); the oracle consumes this order, it does not predict it",
    "a raw Task.cancel() of the simulation task counts as delivered when the task next runs; "
    "whatever is delivered in between is accepted as first as well",
    "a raw Task.cancel() of the simulation task or of run() is only issued while no termination "
    "is in progress (a second plain cancellation interrupts the clean-up, which no property "
    "covers; edzed.run() acknowledges it in a comment)",
    "several failed supporting tasks: the error of any of them is accepted (DESIGN 3.3)",
    "is_ready() is judged from the record that follows the first delivery (for a raw "
    "Task.cancel(): from the point the task ran again; during the initialisation phase: from "
    "the end of the entry point)",
    "injected init_regular/init_from_value faults fire in the simulator's own initialisation "
    "pass, in an early initialisation forced by an external event, and in one forced by an "
    "internal event whose sender swallows the exception",
]

T_LATE = 6.0
VP_INTERVAL = 0.25
POLLS = [0.0, 0.1, 0.3, 0.6, 1.0, 1.9, 2.0, 2.1, 2.3, 2.6, 3.2, 4.0, 5.9]

COMMON = ['handler', 'handler_caught', 'handler_relay', 'handler_cblock', 'calc', 'calc_abort',
          'task_raise', 'task_return', 'vpoll', 'abort', 'ctrl_abort', 'ctrl_shutdown',
          'shutdown', 'init', 'handler_init', 'init_early', 'ofunc_abort', 'oasync_abort',
          # abort() executed BY the simulation task without any exception reaching it:
          'ctrl_abort_sim', 'ofunc_abort_sim', 'handler_caught_sim',
          # the same during the synchronous initialisation (nothing raised to the simulator),
          # and an init routine failing in an early initialisation forced by an INTERNAL
          # event whose sender swallows the exception:
          'init_abort', 'init_ctrl_abort', 'init_ofunc_abort', 'init_early_int']
INIT_KINDS = ('init', 'handler_init', 'init_abort', 'init_ctrl_abort', 'init_ofunc_abort',
              'init_early_int')
SIM_CODES = {'ctrl_abort_sim': 'XA', 'ofunc_abort_sim': 'OS', 'handler_caught_sim': 'HS'}
KINDS = {'rf': COMMON + ['cancel'],
         'run': COMMON + ['sup_raise', 'sup_return', 'sup_shutdown', 'sigterm', 'cancel_run'],
         'run0': COMMON + ['sigterm', 'cancel_run']}
PATTERNS = ['tie', 'hop_ab', 'hop_ba', 'b_1ms', 'b_cleanup', 'b_cleanup_end', 'init_phase']
PHASES = ['running', 'init', 'first']
NONFATAL = ['unknown', 'missing', 'extra']
WRAPPED = ('handler', 'handler_caught', 'handler_relay', 'handler_cblock', 'handler_stop',
           'handler_init', 'ctrl_abort', 'ofunc_abort', 'oasync_abort',
           'ctrl_abort_sim', 'ofunc_abort_sim', 'handler_caught_sim',
           'init_ctrl_abort', 'init_ofunc_abort')
SUP_KINDS = ('sup_raise', 'sup_return', 'sup_shutdown')
_NR = len(KINDS['run'])
N_SYS = 2 * (_NR * len(PHASES) + _NR * (_NR - 1) // 2 * len(PATTERNS) + len(COMMON) * 2 * 3)


class Injected(Exception):
    """Fault raised by the harness inside user code."""


# --------------------------------------------------------------------------- generation

def _pairs(kinds):
    return [(a, b) for i, a in enumerate(kinds) for b in kinds[i + 1:]]


def _mk_source(rng, kind, t, hops):
    s = {'kind': kind, 't': t, 'hops': hops}
    if kind == 'vpoll':
        s['async'] = rng.random() < 0.5
    elif kind == 'ctrl_abort':
        s['as_str'] = rng.random() < 0.2
    elif kind == 'ctrl_shutdown':
        s['doc'] = rng.random() < 0.5
    elif kind == 'init':
        s['ifv'] = rng.random() < 0.4
    elif kind == 'init_early_int':
        s['via'] = rng.choice(['relay', 'restore'])
        s['after_output'] = rng.random() < 0.6
    elif kind == 'init_early':
        s['after_output'] = rng.random() < 0.5
    return s


def _finish(rng, entry, sources, *, d_init, d_stop, pre=(), systematic=False, pa2_p=0.2):
    """Complete a plan: tags, probe configuration, non-fatal faults, knobs."""
    seen_once = set()
    out = []
    for s in sources:
        if s['kind'] in INIT_KINDS or s['kind'] in ('init_early', 'vpoll', 'cancel',
                                                    'cancel_run'):
            if s['kind'] in seen_once:
                continue
            seen_once.add(s['kind'])
        if s['kind'] in ('cancel', 'cancel_run') and s['t'] < 0.1:
            s['t'] = 0.25
        out.append(s)
    for i, s in enumerate(out):
        s['tag'] = i + 1
    tag = len(out)
    pre_list = []
    for when in pre:
        tag += 1
        pre_list.append({'when': when, 'tag': tag})
    pa = None
    if d_init is not None or d_stop is not None:
        pa = {'d_init': d_init or 0.0, 'd_stop': d_stop or 0.0,
              'init_fail': rng.random() < 0.25, 'stop_fail': rng.random() < 0.25}
    pa2 = None
    if rng.random() < pa2_p:
        # a second block with a longer init_async: while one init task is awaited by the
        # simulator another one is pending (init_timeout below / above the first block's 10 s
        # decides which one is awaited first)
        pa2 = {'d_init': 3.0, 'init_timeout': rng.choice([8.0, 12.0])}
    persist = None
    if rng.random() < 0.25:
        persist = {'restore_fail': rng.random() < 0.7}
    stopf = None
    r = rng.random()
    if r < 0.3:
        tag += 1
        stopf = {'mode': 'raise' if r < 0.15 else 'event', 'tag': tag}
    mtc = None
    if rng.random() < 0.15:
        tag += 1
        mtc = {'tag': tag}
    sup_cancel = None
    if entry == 'run' and rng.random() < 0.15:
        tag += 1
        sup_cancel = {'tag': tag}
    nonfatal = []
    for _ in range(rng.choice([0, 0, 1, 1, 2, 3])):
        nonfatal.append({'kind': rng.choice(NONFATAL),
                         't': rng.choice([0.0, 0.1, 0.3, 0.6, 1.0, 2.0, 2.0, 2.1]),
                         'hops': rng.choice([0, 0, 1, 2])})
    exact = rng.random() < (0.7 if systematic else 0.5)
    knobs = gen_knobs(rng, latency=not exact, cost=not exact, ties=True)
    if exact:
        knobs['tie_permute'] = rng.random() < 0.7
    return {'knobs': knobs, 'entry': entry, 'sources': out, 'pre': pre_list, 'pa': pa,
            'pa2': pa2, 'persist': persist, 'stopf': stopf, 'mtc': mtc, 'sup_cancel': sup_cancel,
            'nonfatal': nonfatal, 'polls': list(POLLS), 't_late': T_LATE}


def _gen_systematic(rng, index):
    k = index
    entry = ['rf', 'run'][k % 2]
    k //= 2
    kinds = KINDS[entry]
    d_init, d_stop = 0.5, 0.5
    n_single = len(kinds) * len(PHASES)
    if k < n_single:
        kind = kinds[k % len(kinds)]
        phase = PHASES[k // len(kinds)]
        t = {'running': 2.0, 'init': 0.25, 'first': 0.0}[phase]
        if kind == 'init_early' and phase == 'running':
            t = 0.4
        return _finish(rng, entry, [_mk_source(rng, kind, t, 0)], d_init=d_init, d_stop=d_stop,
                       systematic=True, pa2_p=0.6 if phase == 'init' else 0.1)
    k -= n_single
    pairs = _pairs(kinds)
    if k >= len(pairs) * len(PATTERNS):
        k -= len(pairs) * len(PATTERNS)
        # run() only: fatal kind x shutdown() awaited in a supporting coroutine x another
        # supporting coroutine that exits (three sources of different kinds)
        triples = [(x, y) for x in COMMON for y in ('sup_return', 'sup_raise')]
        if entry != 'run' or k >= len(triples) * 3:
            return None
        x, y = triples[k % len(triples)]
        pat = k // len(triples)
        base = 0.25 if x == 'init_early' else (d_init if x in INIT_KINDS else 2.0)
        if pat == 0:
            spec = [(x, base, 0), ('sup_shutdown', base, 0), (y, base, 0)]
        elif pat == 1:
            spec = [(x, base, 0), ('sup_shutdown', base, 1), (y, base, 2)]
        else:
            spec = [(x, base, 0), ('sup_shutdown', base + 0.1, 0), (y, base + 0.25, 0)]
        return _finish(rng, entry, [_mk_source(rng, kk, tt, hh) for kk, tt, hh in spec],
                       d_init=d_init, d_stop=d_stop, systematic=True)
    a, b = pairs[k % len(pairs)]
    pat = PATTERNS[k // len(pairs)]
    base = 2.0
    if a in INIT_KINDS or b in INIT_KINDS:
        base = d_init           # the init fault fires when the async initialisation is over
    if pat == 'init_phase' or 'init_early' in (a, b):
        base = 0.25             # (an early initialisation needs the async init phase)
    ta = tb = base
    ha = hb = 0
    if pat == 'hop_ab':
        hb = rng.choice([1, 2, 3])
    elif pat == 'hop_ba':
        ha = rng.choice([1, 2, 3])
    elif pat == 'b_1ms':
        tb = base + 0.001
    elif pat == 'b_cleanup':
        tb = base + 0.25
    elif pat == 'b_cleanup_end':
        tb = base + d_stop
    elif pat == 'init_phase' and rng.random() < 0.5:
        tb = d_init
    if rng.random() < 0.5:
        # the roles of the two kinds are swapped in half of the plans
        ta, tb, ha, hb = tb, ta, hb, ha
    return _finish(rng, entry, [_mk_source(rng, a, ta, ha), _mk_source(rng, b, tb, hb)],
                   d_init=d_init, d_stop=d_stop, systematic=True,
                   pa2_p=0.6 if pat == 'init_phase' else 0.1)


def gen(rng, tier, index=0):
    if index < N_SYS:
        plan = _gen_systematic(rng, index)
        if plan is not None:
            return plan
    entry = rng.choice(['rf', 'rf', 'rf', 'run', 'run', 'run', 'run0'])
    kinds = KINDS[entry]
    n = rng.choice([1, 2, 2, 2, 3, 3, 3])
    d_init = rng.choice([None, 0.0, 0.5, 0.5, 0.5])
    d_stop = rng.choice([0.0, 0.5, 0.5, 0.5, 1.0]) if d_init is not None else \
        rng.choice([None, 0.5])
    base = rng.choice([0.0, 0.25, 0.5, 2.0, 2.0, 2.0])
    sources = []
    chosen = []
    for i in range(n):
        kind = rng.choice(kinds)
        if kind in chosen and rng.random() < 0.7:
            kind = rng.choice(kinds)
        chosen.append(kind)
        if i == 0 or rng.random() < 0.5:
            t = base
        else:
            t = rng.choice([base + 0.001, base + 0.25, base + (d_stop or 0.5), base + 1.0,
                            0.25, 0.5, 2.0])
        sources.append(_mk_source(rng, kind, round(t, 6), rng.choice([0, 0, 0, 1, 1, 2, 3, 4])))
    pre = []
    if rng.random() < 0.06:
        pre = [rng.choice(['before', 'first_step']) for _ in range(rng.choice([1, 1, 2]))]
        if entry != 'rf':
            pre = ['before'] * len(pre)
    return _finish(rng, entry, sources, d_init=d_init, d_stop=d_stop, pre=pre)


# --------------------------------------------------------------------------- probe classes

class PIn(edzed.SBlock):
    def init_regular(self):
        self.set_output(0)

    def _event_put(self, *, value, **_data):
        self.set_output(value)


class HProbe(edzed.SBlock):
    """Event handlers that fail on request."""

    def init_regular(self):
        self.set_output(0)

    def _event_fail(self, *, tag, kind, **_data):
        self.x_ctx.fatal_site(kind, tag)

    def _event_cput(self, *, value, **_data):
        if isinstance(value, (list, tuple)) and value and value[0] == 'H':
            self.x_ctx.fatal_site('handler_cblock', value[1])

    def _event_need(self, *, value, **_data):
        self.x_ctx.rec('note', what='need-entered')
        return value

    def _event_strict(self, *, value, source):
        self.x_ctx.rec('note', what='strict-entered')
        return value


class Relay(edzed.SBlock):
    """Forwards to the handler probe; catches the error or lets it through."""

    def init_regular(self):
        self.set_output(0)

    def _event_relay(self, *, tag, kind, catch, **_data):
        try:
            self.x_ev.send(self, tag=tag, kind=kind)
        except Injected:
            if not catch:
                raise
            self.x_ctx.run.fired('reach:handler_error_caught_by_caller')
        return 'relayed'


class RelaySim(edzed.SBlock):
    """
    Fed by the FuncBlock's on_output, i.e. running in the simulation task: forwards a failing
    event to the handler probe and catches the error, nothing is raised to the simulator.
    """

    def init_regular(self):
        self.set_output(0)

    def _event_cput(self, *, value, **_data):
        if isinstance(value, (list, tuple)) and value and value[0] == 'HS':
            try:
                self.x_ev.send(self, tag=value[1], kind='handler_caught_sim')
            except Injected:
                self.x_ctx.run.fired('reach:handler_error_caught_by_caller')


class Trig(edzed.SBlock):
    """Sends control events on request."""

    def init_regular(self):
        self.set_output(0)

    def _event_fire(self, *, which, tag=None, as_str=False, **_data):
        ctx = self.x_ctx
        if which == 'abort':
            exc = ctx.fatal_rec('ctrl_abort', tag, as_str=as_str)
            self.x_events['abort'].send(self, error=(f"INJ-{tag}" if as_str else exc))
        else:
            ctx.rec('req', kind='ctrl_shutdown')
            self.x_events[which].send(self)


class PAsync(edzed.AddonAsync, edzed.SBlock):
    def init_regular(self):
        if not self.is_initialized():
            self.set_output('regular')

    async def init_async(self):
        spec = self.x_spec
        await asyncio.sleep(spec['d_init'])
        if spec.get('init_fail'):
            self.x_ctx.nonfatal_site('init_async')
        if not self.is_initialized():
            self.set_output('async')

    async def stop_async(self):
        spec = self.x_spec
        await asyncio.sleep(spec['d_stop'])
        if spec.get('stop_fail'):
            self.x_ctx.nonfatal_site('stop_async')


class PPersist(edzed.AddonPersistence, edzed.SBlock):
    def _restore_state(self, state, /):
        if self.x_spec.get('restore_fail'):
            self.x_ctx.nonfatal_site('restore')
        self.set_output(state)

    def init_regular(self):
        if not self.is_initialized():
            self.set_output('regular')


class PInit(edzed.SBlock):
    def init_regular(self):
        self.x_ctx.fatal_site('init', self.x_tag)


class PInitSend(edzed.SBlock):
    """Sends a failing event from its initialisation routine (inside the simulator task)."""

    def init_regular(self):
        self.x_ev.send(self, tag=self.x_tag, kind='handler_init')
        self.set_output(0)


class PInitEarly(edzed.SBlock):
    """
    init_regular fails. An external event that arrives during the asynchronous initialisation
    of another block makes event() run this routine early, outside the simulator task.
    """

    def init_regular(self):
        ctx = self.x_ctx
        if self.x_after:
            self.set_output('set-before-the-error')
        if self.circuit.is_current_task():
            ctx.fatal_site('init', self.x_tag)          # the simulator's own pass
        exc = ctx._new_exc('init_early', self.x_tag)
        ctx.run.fired('fault:init_early')
        ctx.rec('early', tag=self.x_tag, kind='init_early', after=bool(self.x_after))
        raise exc

    def _event_put(self, *, value, **_data):
        self.set_output(value)


class PInitAbort(edzed.SBlock):
    """init_regular reports an error with abort() and returns normally."""

    def init_regular(self):
        ctx = self.x_ctx
        ctx.circuit.abort(ctx.fatal_rec('init_abort', self.x_tag))
        self.set_output(0)


class PInitOut(edzed.SBlock):
    """Its initial output (x_value) feeds an abort path through on_output."""

    def init_regular(self):
        self.set_output(self.x_value)


class PInitDest(edzed.SBlock):
    """init_regular fails; an internal event makes event() run it early."""

    def init_regular(self):
        if self.x_after:
            self.set_output('set-before-the-error')
        self.x_ctx.fatal_site('init_early_int', self.x_tag)

    def _event_put(self, *, value, **_data):
        self.set_output(value)


class PInitSender(edzed.SBlock):
    """init_regular sends an event and swallows whatever comes back."""

    def init_regular(self):
        try:
            self.x_ev.send(self, value=1)
        except Injected:
            self.x_ctx.run.fired('reach:init_error_swallowed_by_sender')
        self.set_output(0)


class PRestoreSender(edzed.AddonPersistence, edzed.SBlock):
    """
    Restoring the state sets the output, the output event goes to the failing block; the
    exception comes back into AddonPersistence's restore code, which only logs it.
    """

    def _restore_state(self, state, /):
        self.x_ctx.run.fired('reach:init_error_swallowed_by_sender')
        self.set_output(state)

    def init_regular(self):
        if not self.is_initialized():
            self.set_output('regular')


class PInitV(edzed.SBlock):
    def init_from_value(self, value):
        self.x_ctx.fatal_site('init', self.x_tag)


class PMain(edzed.AddonMainTask, edzed.SBlock):
    """Main task failing (raise / return) when released, or when cancelled."""

    def init_regular(self):
        self.set_output(0)

    async def _maintask(self):
        ctx = self.x_ctx
        mode, tag = self.x_mode, self.x_tag
        fut = asyncio.get_running_loop().create_future()
        ctx.futs[self.name] = fut
        if self.name in ctx.released:
            fut.set_result(None)
        try:
            await fut
        except asyncio.CancelledError:
            if mode == 'raise_on_cancel':
                ctx.fatal_site('task_raise', tag)
            raise
        if mode == 'task_raise':
            ctx.fatal_site('task_raise', tag)
        ctx.fatal_rec('task_return', tag)


class PStop(edzed.SBlock):
    def init_regular(self):
        self.set_output(0)

    def stop(self):
        super().stop()
        spec = self.x_spec
        if spec['mode'] == 'raise':
            self.x_ctx.nonfatal_site('stop')
        else:
            self.x_ev.send(self, tag=spec['tag'], kind='handler_stop')


class PAsyncInit(edzed.AddonAsync, edzed.SBlock):
    """A second, slower asynchronous initialisation."""

    def init_regular(self):
        if not self.is_initialized():
            self.set_output('regular')

    async def init_async(self):
        await asyncio.sleep(self.x_spec['d_init'])
        if not self.is_initialized():
            self.set_output('async')


class ZLast(edzed.SBlock):
    """
    Created last: its start() marks the end of the start phase, its init_regular() the end
    of the second synchronous initialisation pass.
    """

    def init_regular(self):
        self.x_ctx.rec('init2')
        self.set_output(0)

    def start(self):
        super().start()
        self.x_ctx.rec('started')


# --------------------------------------------------------------------------- context

class Ctx:
    def __init__(self, run, plan):
        self.run = run
        self.plan = plan
        self.circuit = None
        self.D = []                 # records in the order they were written
        self.exc = {}               # tag -> injected exception (None for task_return)
        self.kind_of = {}           # tag -> kind
        self.nonfatal = []          # (kind, exception)
        self.futs = {}              # name -> future releasing a task / supporting coroutine
        self.released = set()
        self.shut = []              # results of the harness's shutdown() calls
        self.htasks = []
        self.closed = False
        self.ended = False
        self.harness_fail = None
        self.plan_error = None
        self.need_storage = False
        self.creq_n = 0
        self.awaiter_cancelled = False  # run() cancelled a supporting task inside shutdown()
        self.as_str = {}            # tag -> the '_ctrl' abort event carried a message only

    # -- classification of an exception (for the trace and for the diagnosis)
    def classify(self, err):
        if err is None:
            return 'none'
        if isinstance(err, asyncio.CancelledError):
            return 'cancel'
        for tag, exc in self.exc.items():
            if exc is not None and err is exc:
                return f"{self.kind_of[tag]}#{tag}"
        cause = getattr(err, '__cause__', None)
        if cause is not None:
            for tag, exc in self.exc.items():
                if exc is not None and cause is exc:
                    return f"wrapped-{self.kind_of[tag]}#{tag}"
        for kind, exc in self.nonfatal:
            if err is exc or cause is exc:
                return f"nonfatal-{kind}"
        if isinstance(err, edzed.EdzedCircuitError) and cause is None:
            return 'edzed-error'
        return f"other-{type(err).__name__}"

    def rec(self, k, **kw):
        circuit = self.circuit
        err = circuit.error
        init_done = getattr(circuit, '_init_done', None)
        entry = {'k': k, 'i': len(self.D), 'ns': self.run.loop._ns, 'ready': circuit.is_ready(),
                 'err': err, 'initd': init_done is not None and init_done.is_set()}
        entry.update(kw)
        self.D.append(entry)
        self.run.log('d', k, {key: val for key, val in kw.items() if key != 'exc'},
                     entry['ready'], self.classify(err))
        return entry

    def _new_exc(self, kind, tag):
        if tag in self.kind_of:
            # the same tag must not fire twice (shrunk plans)
            raise PlanError(f"tag {tag} fired twice")
        self.kind_of[tag] = kind
        exc = None if kind == 'task_return' else Injected(f"{kind}#{tag}")
        self.exc[tag] = exc
        return exc

    def fatal_rec(self, kind, tag, **kw):
        """Record a fatal delivery made right now (the caller performs it)."""
        if self.closed:
            return Injected('after the run')
        exc = self._new_exc(kind, tag)
        self.run.fired(f"fault:{kind}")
        self.rec('fatal', kind=kind, tag=tag, **kw)
        return exc

    def fatal_site(self, kind, tag):
        """Called inside user code at a fatal fault site: record and raise."""
        raise self.fatal_rec(kind, tag)

    def nonfatal_site(self, kind):
        exc = Injected(f"nonfatal {kind}")
        self.nonfatal.append((kind, exc))
        self.run.fired(f"fault:nonfatal:{kind}")
        self.rec('nonfatal', kind=kind)
        raise exc

    def poll(self, **kw):
        self.rec('poll', **kw)

    def matches(self, err, tag):
        kind = self.kind_of[tag]
        exc = self.exc[tag]
        if kind == 'init_early_int':
            # (as for the early initialisation by an external event: raw or wrapped)
            return err is exc or getattr(err, '__cause__', None) is exc
        if kind == 'ctrl_abort' and self.as_str.get(tag):
            # the error was given as a message: there is no original exception to chain
            return isinstance(err, edzed.EdzedCircuitError) and err.__cause__ is None
        if kind in WRAPPED:
            return isinstance(err, edzed.EdzedCircuitError) and err.__cause__ is exc
        if kind == 'task_return':
            return isinstance(err, edzed.EdzedCircuitError) and err.__cause__ is None
        return err is exc



# --------------------------------------------------------------------------- execution

def build(ctx, plan, storage):
    blocks = {}

    def calc(x):
        if isinstance(x, (list, tuple)) and x and x[0] == 'C':
            ctx.fatal_site('calc', x[1])
        if isinstance(x, (list, tuple)) and x and x[0] == 'CA':
            # abort() and raise as well: the abort is the first delivery
            exc = ctx.fatal_rec('abort', x[1] + 50)
            ctx.circuit.abort(exc)
            ctx.run.fired('reach:abort_then_raise')
            ctx.fatal_site('calc_abort', x[1])
        return x

    try:
        kinds_present = {s['kind'] for s in plan['sources']}
        blocks['inp'] = PIn('inp')
        fb_events = [edzed.Event('hp', 'cput')]
        if 'ctrl_abort_sim' in kinds_present:
            def ctrl_filter(data):
                # passes only the poisoned value; the site record is written right before
                # the event reaches the control block
                value = data.get('value')
                if isinstance(value, (list, tuple)) and value and value[0] == 'XA':
                    data['error'] = ctx.fatal_rec('ctrl_abort_sim', value[1])
                    return data
                return False
            fb_events.append(edzed.Event('_ctrl', 'abort', efilter=ctrl_filter))
        if 'ofunc_abort_sim' in kinds_present:
            fb_events.append(edzed.Event('ofs', 'put'))
        if 'handler_caught_sim' in kinds_present:
            fb_events.append(edzed.Event('rx', 'cput'))
        blocks['fb'] = edzed.FuncBlock('fb', func=calc, on_output=fb_events).connect('inp')
        if 'ofunc_abort_sim' in kinds_present:
            def ofunc_sim(value):
                if isinstance(value, (list, tuple)) and value and value[0] == 'OS':
                    ctx.fatal_site('ofunc_abort_sim', value[1])
                return value
            blocks['ofs'] = edzed.OutputFunc('ofs', func=ofunc_sim,
                                             on_error=edzed.Event.abort())
        blocks['hp'] = HProbe('hp', x_ctx=ctx)
        blocks['relay'] = Relay('relay', x_ctx=ctx, x_ev=edzed.Event('hp', 'fail'))
        if 'handler_caught_sim' in kinds_present:
            blocks['rx'] = RelaySim('rx', x_ctx=ctx, x_ev=edzed.Event('hp', 'fail'))
        if any(s['kind'] in ('ctrl_abort', 'ctrl_shutdown') for s in plan['sources']):
            # (only then: the automatic '_ctrl' block changes what a start with an error
            # already set runs into)
            events = {'abort': edzed.Event.abort(), 'shutdown': edzed.Event('_ctrl', 'shutdown')}
            events['shutdown_doc'] = (edzed.Event.shutdown() if hasattr(edzed.Event, 'shutdown')
                                      else events['shutdown'])
            blocks['trig'] = Trig('trig', x_ctx=ctx, x_events=events)
        if plan.get('pa'):
            pa = plan['pa']
            blocks['pa'] = PAsync('pa', x_ctx=ctx, x_spec=pa, init_timeout=10.0,
                                  stop_timeout=10.0)
        if plan.get('pa2'):
            blocks['pa2'] = PAsyncInit('pa2', x_spec=plan['pa2'],
                                       init_timeout=plan['pa2'].get('init_timeout', 8.0))
        if plan.get('persist'):
            blk = blocks['pp'] = PPersist('pp', x_ctx=ctx, x_spec=plan['persist'],
                                          persistent=True)
            storage[blk.key] = 'stored'
        for s in plan['sources']:
            kind, tag = s['kind'], s['tag']
            if kind == 'init_abort':
                blocks[f"pab{tag}"] = PInitAbort(f"pab{tag}", x_ctx=ctx, x_tag=tag)
            elif kind == 'init_ctrl_abort':
                def init_ctrl_filter(data, tag=tag):
                    value = data.get('value')
                    if isinstance(value, (list, tuple)) and value and value[0] == 'IA':
                        data['error'] = ctx.fatal_rec('init_ctrl_abort', tag)
                        return data
                    return False
                blocks[f"pio{tag}"] = PInitOut(
                    f"pio{tag}", x_value=['IA', tag],
                    on_output=edzed.Event('_ctrl', 'abort', efilter=init_ctrl_filter))
            elif kind == 'init_ofunc_abort':
                def ofunc_init(value, tag=tag):
                    if isinstance(value, (list, tuple)) and value and value[0] == 'IO':
                        ctx.fatal_site('init_ofunc_abort', tag)
                    return value
                blocks[f"pio{tag}"] = PInitOut(
                    f"pio{tag}", x_value=['IO', tag], on_output=edzed.Event(f"ofi{tag}", 'put'))
                blocks[f"ofi{tag}"] = edzed.OutputFunc(
                    f"ofi{tag}", func=ofunc_init, on_error=edzed.Event.abort())
            elif kind == 'init_early_int':
                if 'pid' in blocks:
                    raise PlanError('two init_early_int faults')
                if s.get('via') == 'restore':
                    blk = blocks['prs'] = PRestoreSender(
                        'prs', x_ctx=ctx, persistent=True, on_output=edzed.Event('pid', 'put'))
                    storage[blk.key] = 'stored'
                    ctx.need_storage = True
                else:
                    blocks['pse'] = PInitSender('pse', x_ctx=ctx, x_ev=edzed.Event('pid', 'put'))
                blocks['pid'] = PInitDest('pid', x_ctx=ctx, x_tag=tag,
                                          x_after=bool(s.get('after_output')))
            elif kind == 'init':
                if 'pi' in blocks:
                    raise PlanError('two init faults')
                if s.get('ifv'):
                    blocks['pi'] = PInitV('pi', x_ctx=ctx, x_tag=tag, initdef=1)
                else:
                    blocks['pi'] = PInit('pi', x_ctx=ctx, x_tag=tag)
            elif kind == 'init_early':
                if 'pie' in blocks:
                    raise PlanError('two init_early faults')
                blocks['pie'] = PInitEarly('pie', x_ctx=ctx, x_tag=tag,
                                           x_after=bool(s.get('after_output')))
            elif kind == 'handler_init':
                if 'pis' in blocks:
                    raise PlanError('two handler_init faults')
                blocks['pis'] = PInitSend('pis', x_ctx=ctx, x_tag=tag,
                                          x_ev=edzed.Event('hp', 'fail'))
            elif kind in ('task_raise', 'task_return'):
                name = f"mt{tag}"
                blocks[name] = PMain(name, x_ctx=ctx, x_mode=kind, x_tag=tag, stop_timeout=5.0)
            elif kind == 'vpoll':
                if 'vp' in blocks:
                    raise PlanError('two vpoll faults')
                blocks['vp'] = edzed.ValuePoll(
                    'vp', func=mk_vpfunc(ctx, s), interval=VP_INTERVAL, initdef=0)
        if any(s['kind'] == 'ofunc_abort' for s in plan['sources']):
            def ofunc(value):
                if isinstance(value, (list, tuple)) and value and value[0] == 'O':
                    ctx.fatal_site('ofunc_abort', value[1])
                return value
            blocks['of'] = edzed.OutputFunc('of', func=ofunc, on_error=edzed.Event.abort())
        if any(s['kind'] == 'oasync_abort' for s in plan['sources']):
            async def ocoro(value):
                if isinstance(value, (list, tuple)) and value and value[0] == 'O':
                    ctx.fatal_site('oasync_abort', value[1])
                return value
            blocks['oa'] = edzed.OutputAsync('oa', coro=ocoro, mode='start', stop_timeout=5.0,
                                             on_error=edzed.Event.abort())
        if plan.get('mtc'):
            blocks['mtc'] = PMain('mtc', x_ctx=ctx, x_mode='raise_on_cancel',
                                  x_tag=plan['mtc']['tag'], stop_timeout=5.0)
        if plan.get('stopf'):
            blocks['ps'] = PStop('ps', x_ctx=ctx, x_spec=plan['stopf'],
                                 x_ev=edzed.Event('hp', 'fail'))
        blocks['zz'] = ZLast('zz', x_ctx=ctx)
    except PlanError:
        raise
    except Exception as err:
        raise PlanError(f"build failed: {type(err).__name__}: {err}") from None
    return blocks


def mk_vpfunc(ctx, spec):
    n_fail = int(round(spec['t'] / VP_INTERVAL)) + 1
    calls = {'n': 0}
    tag = spec['tag']

    def step():
        calls['n'] += 1
        if calls['n'] == n_fail:
            ctx.fatal_site('vpoll', tag)
        return calls['n']
    if spec.get('async'):
        async def afunc():
            return step()
        return afunc
    return step


def execute(plan, trace=False):
    run = Run(plan['knobs'])
    ctx = Ctx(run, plan)
    circuit = None
    try:
        loop = run.loop
        storage = SimStorage(clock=lambda: loop._ns)
        entry = plan['entry']
        if entry not in KINDS:
            raise PlanError(f"unknown entry {entry}")
        tags = [s.get('tag') for s in plan['sources']] + [p.get('tag') for p in plan['pre']]
        for extra in ('stopf', 'mtc', 'sup_cancel'):
            if plan.get(extra):
                tags.append(plan[extra].get('tag'))
        if len(set(tags)) != len(tags) or any(not isinstance(t, int) or t < 1 or t > 40
                                              for t in tags):
            raise PlanError('bad tags')
        for n in plan['nonfatal']:
            if n.get('kind') not in NONFATAL:
                raise PlanError(f"unknown non-fatal kind {n.get('kind')}")
        for s in plan['sources']:
            if s['kind'] not in KINDS[entry]:
                raise PlanError(f"kind {s['kind']} not applicable to entry {entry}")
            if s['kind'] in ('cancel', 'cancel_run') and s['t'] < 0.1:
                raise PlanError('raw cancel before the simulation runs')
        blocks = build(ctx, plan, storage)
        circuit = edzed.get_circuit()
        ctx.circuit = circuit
        if plan.get('persist') or ctx.need_storage:
            circuit.set_persistent_data(storage)
        orig_abort = circuit.abort

        def abort_wrapper(exc):
            # pass-through: records the call, never the outcome
            if not ctx.closed:
                if isinstance(exc, asyncio.CancelledError):
                    ctx.rec('cancel', why=str(exc)[:60])
                else:
                    run.log('abort-call', ctx.classify(exc))
            return orig_abort(exc)
        circuit.abort = abort_wrapper

        info = {'entry_task': None, 'simtask': None, 'result': None, 'done': False,
                'final_err': None}
        sup_specs = []
        if entry == 'run':
            for s in plan['sources']:
                if s['kind'] in SUP_KINDS:
                    sup_specs.append({'name': f"sup{s['tag']}", 'mode': s['kind'], 'tag': s['tag']})
            if plan.get('sup_cancel'):
                sup_specs.append({'name': 'supc', 'mode': 'raise_on_cancel',
                                  'tag': plan['sup_cancel']['tag']})
            sup_specs.append({'name': 'supidle', 'mode': 'idle', 'tag': None})

        def safe(fn, *args):
            try:
                fn(*args)
            except PlanError as err:
                ctx.plan_error = str(err)   # (asyncio would swallow it in a callback)
            except Exception as err:    # pylint: disable=broad-except
                import traceback
                ctx.harness_fail = (f"{type(err).__name__}: {err} in {fn.__name__}\n"
                                    + traceback.format_exc(limit=6))

        def sched(t, hops, fn, *args):
            def hop(n):
                if n <= 0:
                    safe(fn, *args)
                else:
                    loop.call_soon(hop, n - 1)
            run.at(t, hop, hops)

        def ext(dest, etype, **data):
            """External event; returns ('ret', value) / ('refused',) / ('exc', err)."""
            try:
                return ('ret', edzed.ExtEvent(blocks[dest], etype).send(**data))
            except edzed.EdzedInvalidState:
                return ('refused',)
            except Exception as err:    # pylint: disable=broad-except
                return ('exc', err)

        def release(name):
            ctx.released.add(name)
            fut = ctx.futs.get(name)
            if fut is not None and not fut.done():
                fut.set_result(None)

        async def do_shutdown(label):
            try:
                await circuit.shutdown()
            except asyncio.CancelledError:
                raise
            except Exception as err:    # pylint: disable=broad-except
                ctx.shut.append({'label': label, 'res': 'exc', 'err': err, 'i': len(ctx.D)})
                run.log('shutdown()', label, 'raised', ctx.classify(err))
            else:
                ctx.shut.append({'label': label, 'res': 'ret', 'err': None, 'i': len(ctx.D)})
                run.log('shutdown()', label, 'returned')

        def spawn_shutdown(label):
            ctx.rec('req', kind='shutdown', label=label)
            ctx.htasks.append(loop.create_task(do_shutdown(label)))

        def terminating_before():
            return any(e['k'] in ('fatal', 'cancel', 'creq', 'req', 'sup', 'early')
                       for e in ctx.D)

        def fire(s):
            kind, tag = s['kind'], s['tag']
            run.log('op', kind, tag)
            if kind in ('handler', 'handler_caught', 'handler_relay'):
                if kind == 'handler':
                    res = ext('hp', 'fail', tag=tag, kind=kind)
                else:
                    res = ext('relay', 'relay', tag=tag, kind=kind,
                              catch=(kind == 'handler_caught'))
                run.log('op-result', kind, res[0], ctx.classify(res[1]) if res[0] == 'exc' else None)
            elif kind in ('calc', 'calc_abort', 'handler_cblock') or kind in SIM_CODES:
                code = {'calc': 'C', 'calc_abort': 'CA', 'handler_cblock': 'H', **SIM_CODES}[kind]
                res = ext('inp', 'put', value=[code, tag])
                run.log('op-result', kind, res[0])
            elif kind in ('task_raise', 'task_return'):
                release(f"mt{tag}")
            elif kind in SUP_KINDS:
                release(f"sup{tag}")
            elif kind in ('ofunc_abort', 'oasync_abort'):
                # library output blocks with the documented on_error=Event.abort()
                res = ext('of' if kind == 'ofunc_abort' else 'oa', 'put', value=['O', tag])
                run.log('op-result', kind, res[0])
            elif kind == 'init_early':
                res = ext('pie', 'put', value=1)
                run.log('op-result', kind, res[0],
                        ctx.classify(res[1]) if res[0] == 'exc' else None)
            elif kind == 'vpoll' or kind in INIT_KINDS:
                pass        # fire on their own
            elif kind == 'abort':
                circuit.abort(ctx.fatal_rec('abort', tag))
            elif kind == 'ctrl_abort':
                ctx.as_str[tag] = bool(s.get('as_str'))
                res = ext('trig', 'fire', which='abort', tag=tag, as_str=bool(s.get('as_str')))
                run.log('op-result', kind, res[0])
            elif kind == 'ctrl_shutdown':
                res = ext('trig', 'fire', which='shutdown_doc' if s.get('doc') else 'shutdown')
                run.log('op-result', kind, res[0])
            elif kind == 'shutdown':
                spawn_shutdown(f"src{tag}")
            elif kind == 'sigterm':
                handler = signal.getsignal(signal.SIGTERM)
                if callable(handler):
                    ctx.rec('req', kind='sigterm')
                    run.fired('fault:sigterm')
                    handler(signal.SIGTERM, None)
                else:
                    run.log('op-result', kind, 'no-handler')
            elif kind == 'cancel' or (kind == 'cancel_run' and entry == 'run0'):
                # raw cancellation of the simulation task (edzed.run() without supporting
                # coroutines awaits run_forever() in its own task)
                task = info['simtask']
                if task is None or task.done() or terminating_before():
                    run.log('op-result', kind, 'skipped')
                    return
                ctx.creq_n += 1
                n = ctx.creq_n
                e = ctx.rec('creq', id=n)
                e['init_phase'] = not e['initd']
                run.fired('fault:cancel')
                task.cancel()
                loop.call_soon(lambda: ctx.rec('cmark', id=n))
            elif kind == 'cancel_run':
                task = info['entry_task']
                if task is None or task.done() or terminating_before():
                    run.log('op-result', kind, 'skipped')
                    return
                ctx.rec('req', kind='cancel_run')
                run.fired('fault:cancel_run')
                task.cancel()
            else:
                raise PlanError(f"unknown kind {kind}")

        def fire_nonfatal(n):
            kind = n['kind']
            if not any(e['k'] == 'started' for e in ctx.D):
                return      # not started yet: would only be refused
            mark = ctx.rec('nonfatal-op', kind=kind)
            if kind == 'unknown':
                res = ext('hp', 'nosuch', value=1)
                want = edzed.EdzedUnknownEvent
            elif kind == 'missing':
                res = ext('hp', 'need')
                want = TypeError
            elif kind == 'extra':
                res = ext('hp', 'strict', value=1, extra=2)
                want = TypeError
            else:
                raise PlanError(f"unknown non-fatal kind {kind}")
            if res[0] == 'refused':
                mark['refused'] = True
                run.log('nonfatal-result', kind, 'refused')
                return
            run.fired(f"fault:nonfatal:{kind}")
            if res[0] == 'exc':
                ctx.nonfatal.append((kind, res[1]))
            mark['result'] = res
            mark['want'] = want
            run.log('nonfatal-result', kind, res[0],
                    type(res[1]).__name__ if res[0] == 'exc' else None)
            ctx.rec('post', kind=kind)

        def do_pre_abort(p):
            exc = ctx.fatal_rec('abort', p['tag'], pre=p['when'])
            run.fired('reach:abort_before_start' if p['when'] == 'before'
                      else 'reach:abort_before_first_step')
            circuit.abort(exc)

        async def sup(spec):
            name, mode, tag = spec['name'], spec['mode'], spec['tag']
            fut = loop.create_future()
            ctx.futs[name] = fut
            if name in ctx.released:
                fut.set_result(None)
            try:
                await fut
            except asyncio.CancelledError:
                if mode == 'raise_on_cancel':
                    exc = ctx._new_exc('sup_raise', tag)
                    ctx.rec('sup', tag=tag, kind='sup_raise_on_cancel')
                    run.fired('fault:sup_raise_on_cancel')
                    raise exc from None
                raise
            if mode == 'sup_raise':
                exc = ctx._new_exc('sup_raise', tag)
                ctx.rec('sup', tag=tag, kind='sup_raise')
                run.fired('fault:sup_raise')
                raise exc
            if mode == 'sup_shutdown':
                # the documented way of stopping from a supporting coroutine
                ctx.rec('req', kind='shutdown', label=name)
                run.fired('fault:sup_shutdown')
                me = asyncio.current_task()
                try:
                    await circuit.shutdown()
                except asyncio.CancelledError:
                    # this supporting task was cancelled by run() while it awaited shutdown()
                    ctx.awaiter_cancelled = True
                    run.log('shutdown()', name, 'caller-cancelled')
                    raise
                except Exception as err:
                    if me.cancelling():
                        ctx.awaiter_cancelled = True
                    ctx.shut.append({'label': name, 'res': 'exc', 'err': err, 'i': len(ctx.D)})
                    run.log('shutdown()', name, 'raised', ctx.classify(err))
                    raise
                if me.cancelling():
                    ctx.awaiter_cancelled = True
                ctx.shut.append({'label': name, 'res': 'ret', 'err': None, 'i': len(ctx.D)})
                run.log('shutdown()', name, 'returned', bool(me.cancelling()))
                return
            ctx.rec('req', kind='sup_return')
            run.fired('fault:sup_return')

        def late_shutdown():
            if not ctx.ended and not info['entry_task'].done():
                spawn_shutdown('late')

        async def main():
            for s in plan['sources']:
                sched(s['t'], s.get('hops', 0), fire, s)
            for n in plan['nonfatal']:
                sched(n['t'], n.get('hops', 0), fire_nonfatal, n)
            for t in plan['polls']:
                run.at(t, safe, ctx.poll)
            run.at(plan['t_late'], safe, late_shutdown)
            for p in plan['pre']:
                if p['when'] == 'before':
                    do_pre_abort(p)
            if entry == 'rf':
                task = asyncio.create_task(circuit.run_forever())
                info['simtask'] = task
            elif entry == 'run':
                task = asyncio.create_task(edzed.run(*[sup(spec) for spec in sup_specs]))
            else:
                task = asyncio.create_task(edzed.run())
                info['simtask'] = task
            info['entry_task'] = task
            for p in plan['pre']:
                if p['when'] != 'before':
                    do_pre_abort(p)
            done, _pending = await asyncio.wait([task], timeout=plan['t_late'] + 14.0)
            ctx.ended = True
            if not done:
                info['done'] = False
                ctx.rec('not-ended')
                task.cancel()
                await asyncio.wait([task], timeout=20.0)
                return
            info['done'] = True
            try:
                info['result'] = ('ret', task.result())
            except (Exception, asyncio.CancelledError) as err:  # pylint: disable=broad-except
                info['result'] = ('exc', err)
            ctx.rec('ended')
            run.log('entry-ended', info['result'][0],
                    ctx.classify(info['result'][1]) if info['result'][0] == 'exc'
                    else repr(info['result'][1]))
            ctx.poll()
            await do_shutdown('post1')
            ctx.poll()
            await asyncio.sleep(0.5)
            await do_shutdown('post2')
            ctx.poll()
            if ctx.htasks:
                await asyncio.wait(ctx.htasks, timeout=10.0)
            ctx.poll()

        run.run(main())
        if ctx.plan_error is not None:
            raise PlanError(ctx.plan_error)
        if run.harness_error is None and ctx.harness_fail is None:
            run.run_more(3.0)
            ctx.poll(after=True)
        info['final_err'] = circuit.error
        if ctx.harness_fail and not run.harness_error:
            run.harness_error = f"HARNESS-OP: {ctx.harness_fail}"
        if run.main_exc is not None and not run.harness_error:
            if isinstance(run.main_exc, PlanError):
                raise run.main_exc
            run.harness_error = f"HARNESS-MAIN: {type(run.main_exc).__name__}: {run.main_exc}"
        nontrivial = False
        if run.harness_error is None:
            nontrivial = judge(run, ctx, plan, info)
        res = run.result()
        if not nontrivial:
            res['behaviour'] = None
        if trace:
            res['trace'] = run.trace
        return res
    finally:
        ctx.closed = True
        if circuit is not None:
            try:
                del circuit.abort
            except AttributeError:
                pass
        run.close()


# --------------------------------------------------------------------------- oracle

def judge(run, ctx, plan, info):
    D = ctx.D
    entry = plan['entry']
    deliv = [e for e in D if e['k'] in ('fatal', 'cancel', 'creq', 'early')]
    final_err = info['final_err']

    def kind_of_spec(spec):
        return 'cancel' if spec[0] == 'cancel' else ctx.kind_of[spec[1]]

    if not info['done']:
        first = kind_of_spec(('tag', deliv[0]['tag'])) if deliv and deliv[0]['k'] == 'fatal' \
            else (deliv[0]['k'] if deliv else 'nothing')
        run.violate(f"C09/not-terminated/after-{first}",
                    f"the entry point ({entry}) did not finish within {plan['t_late'] + 14.0}s "
                    f"although a termination was delivered/requested (first: {first})")
        return True
    if not deliv:
        run.violate(f"C09/unexpected-termination/{ctx.classify(final_err).split('#')[0]}",
                    f"the simulation ended with {final_err!r} but no terminating source fired")
        return True

    # ---- the acceptable first deliveries
    def accept_at(rec):
        if rec['k'] == 'fatal':
            return [('tag', rec['tag'])]
        if rec['k'] == 'cancel':
            return [('cancel',)]
        out = [('cancel',)]     # raw Task.cancel(): delivered when the task next runs
        for e in D[rec['i'] + 1:]:
            if e['k'] == 'cmark' and e['id'] == rec['id'] and not rec['init_phase']:
                break
            if e['k'] == 'early':
                out.append(('early', e['tag']))     # may or may not count as delivered
                continue
            if e['k'] == 'fatal':
                out.append(('tag', e['tag']))
                run.fired('reach:raw_cancel_raced')
                break
            if e['k'] == 'cancel':
                break
        return out

    first = deliv[0]
    if first['k'] == 'early':
        # An initialisation routine failed while event() ran it early for an external event:
        # the exception went to the sender only. The simulation must still terminate: with
        # that exception (raw or wrapped), or with edzed's own error about the block left
        # uninitialised when the initialisation phase is over; until then another delivery
        # may legitimately come first.
        accept = [('early', first['tag'])]
        nxt_d = next((e for e in deliv if e['i'] > first['i'] and e['k'] != 'early'), None)
        if nxt_d is not None and not nxt_d['initd']:
            accept.extend(accept_at(nxt_d))
    else:
        accept = accept_at(first)
    sup_failed = [e for e in D if e['k'] == 'sup']

    # ---- observations
    obs = [('Circuit.error', 'exc', final_err)]
    if entry == 'rf':
        obs.append(('run_forever', info['result'][0], info['result'][1]))
    else:
        obs.append(('run', info['result'][0], info['result'][1]))
    for sh in ctx.shut:
        obs.append((f"shutdown", sh['res'], sh['err']))

    def ok(spec, ob):
        where, res, val = ob
        if spec[0] == 'early':
            exc = ctx.exc[spec[1]]
            return res == 'exc' and val is not None and (
                val is exc or getattr(val, '__cause__', None) is exc
                or (isinstance(val, edzed.EdzedCircuitError) and val.__cause__ is None))
        if where in ('Circuit.error', 'run_forever'):
            if res != 'exc' or val is None:
                return False
            if spec[0] == 'cancel':
                return isinstance(val, asyncio.CancelledError)
            return ctx.matches(val, spec[1])
        if where == 'shutdown':
            if spec[0] == 'cancel':
                return res == 'ret'
            return res == 'exc' and ctx.matches(val, spec[1])
        # run()
        if spec[0] != 'cancel':
            return res == 'exc' and ctx.matches(val, spec[1])
        if sup_failed:
            return res == 'exc' and any(val is ctx.exc[e['tag']] for e in sup_failed)
        return res == 'ret' and val is None

    def describe(ob):
        where, res, val = ob
        if res == 'ret':
            return 'returned' if val is None else f"returned-{type(val).__name__}"
        return ctx.classify(val)

    best = None
    for spec in accept:
        bad = [ob for ob in obs if not ok(spec, ob)]
        if best is None or len(bad) < len(best[1]):
            best = (spec, bad)
    spec, bad = best
    exp_kind = kind_of_spec(spec)
    nxt = D[first['i'] + 1] if first['i'] + 1 < len(D) else None
    seen_sigs = set()
    if ctx.awaiter_cancelled:
        run.fired('reach:shutdown_awaiter_cancelled')
    if (bad and ctx.awaiter_cancelled and spec[0] == 'tag' and ok(spec, obs[0])
            and all(describe(ob).split('#')[0] in ('cancel', 'returned', 'sup_raise')
                    for ob in bad)):
        # diagnosed site: the first error was delivered and is held in Circuit.error, but the
        # entry point / shutdown() report a normal stop (or a supporting task's error): run()
        # cancelled a supporting task that was awaiting Circuit.shutdown(); the cancellation
        # went through `await self._simtask` into the simulation task and cut its clean-up
        order = [(e['k'], e.get('kind'), e.get('label') or e.get('tag')) for e in D
                 if e['k'] in ('fatal', 'cancel', 'req', 'sup')][:8]
        run.violate('C09/first-error-lost/shutdown-awaiter-cancelled',
                    f"entry {entry}: first delivered is {exp_kind} and Circuit.error holds it, "
                    f"but {', '.join(f'{ob[0]} gave {describe(ob)}' for ob in bad)}: a "
                    f"supporting task awaiting shutdown() was cancelled by run() and the "
                    f"cancellation reached the simulation task; recorded order {order}")
        bad = []
    later_d = next((e for e in deliv if e['i'] > first['i'] and e['k'] != 'early'
                    and e['initd']), None) if first['k'] == 'early' else None
    if (bad and later_d is not None
            and any(all(ok(alt, ob) for ob in obs) for alt in accept_at(later_d))):
        # diagnosed site: the simulation went on after the failed early initialisation and
        # was ended by something delivered after the initialisation phase (at the latest by
        # the harness's own shutdown())
        run.violate('C09/init-routine-error-not-fatal/early-init-by-external-event',
                    f"entry {entry}: init_regular() of a block raised (after setting the "
                    f"output: {first.get('after')}) while event() was initialising the block "
                    f"early for an external event; the sender got the exception, the "
                    f"simulation was not terminated ({', '.join(f'{ob[0]} gave {describe(ob)}' for ob in bad)})")
        bad = []
    for ob in bad:
        got = describe(ob)
        got_kind = got.split('#')[0]
        relation = 'wrong-error'
        if got_kind.startswith('nonfatal-'):
            relation = 'nonfatal-terminated'
        elif '#' in got:
            gtag = int(got.split('#')[1])
            if spec[0] == 'tag' and gtag == spec[1]:
                relation = 'wrapping'
            elif ctx.kind_of.get(gtag) == 'sup_raise':
                relation = 'sup-error-preferred' if spec[0] == 'tag' else 'wrong-error'
            elif any(e['k'] == 'fatal' and e['tag'] == gtag and e['i'] > first['i'] for e in D):
                relation = 'later-replaced-first'
        elif got_kind in ('cancel', 'returned'):
            if (first['k'] == 'fatal' and nxt is not None and nxt['err'] is None
                    and nxt['k'] != 'ended'):
                relation = 'not-delivered'
            elif any(e['k'] in ('cancel', 'creq') and e['i'] > first['i'] for e in D):
                relation = 'later-replaced-first'
        sig = f"C09/{ob[0]}/{relation}/expected-{exp_kind}/got-{got_kind}"
        if sig in seen_sigs:
            continue
        seen_sigs.add(sig)
        order = [(e['k'], e.get('kind'), e.get('tag')) for e in D
                 if e['k'] in ('fatal', 'cancel', 'creq', 'cmark', 'req', 'sup')][:8]
        run.violate(sig, f"entry {entry}: first delivered is {exp_kind} "
                         f"(acceptable: {[kind_of_spec(s) for s in accept]}), but {ob[0]} gave "
                         f"{got} ({ob[2]!r}); recorded order {order}")

    # ---- a delivered error / cancellation ends the simulation by itself, in bounded time
    #      (bound: the longest clean-up, about 1 s here - not the init routines' time-outs),
    #      and a stop delivered before the second initialisation pass keeps the circuit from
    #      ever reaching the running state
    d0 = next((e for e in deliv if e['k'] in ('fatal', 'cancel', 'creq')), None)
    ended_rec = next((e for e in D if e['k'] == 'ended'), None)
    if d0 is not None and ended_rec is not None:
        what = d0.get('kind') or ('raw-cancel' if d0['k'] == 'creq' else 'cancel')
        phase = 'running' if d0['initd'] else 'initialising'
        took = (ended_rec['ns'] - d0['ns']) / 1e9
        if took > 2.5:
            run.violate(f"C09/not-terminated-promptly/{what}/{phase}",
                        f"entry {entry}: {d0['k']} {what} was delivered at {d0['ns'] / 1e9:.3f}s "
                        f"({phase}), the entry point ended {took:.3f}s later; the longest "
                        f"clean-up here takes about 1 s (init time-outs: 10 s"
                        f"{', ' + str(plan['pa2'].get('init_timeout')) + ' s' if plan.get('pa2') else ''})")
        if not d0['initd'] and any(e['k'] == 'started' and e['i'] < d0['i'] for e in D):
            if d0.get('kind') not in INIT_KINDS:
                # (the faults of INIT_KINDS fire inside an initialisation pass, which may then
                # run to its end)
                nxt2 = next((e for e in D[d0['i'] + 1:] if e['k'] == 'init2'), None)
                if nxt2 is not None:
                    run.violate(f"C09/initialisation-continued-after-stop/{what}",
                                f"entry {entry}: {d0['k']} {what} was delivered at "
                                f"{d0['ns'] / 1e9:.3f}s before the second synchronous "
                                f"initialisation pass, which was run nevertheless "
                                f"(at {nxt2['ns'] / 1e9:.3f}s)")
            run_state = next((e for e in D[d0['i'] + 1:] if e['initd']), None)
            if run_state is not None:
                run.violate(f"C09/reached-running-state-after-stop/{what}",
                            f"entry {entry}: {d0['k']} {what} was delivered at "
                            f"{d0['ns'] / 1e9:.3f}s during the initialisation, yet the circuit "
                            f"was fully initialised and simulating at record {run_state['i']} "
                            f"({run_state['ns'] / 1e9:.3f}s)")
    late = next((e for e in D if e['k'] == 'req' and e.get('label') == 'late'), None)
    if late is not None:
        # (the harness's late shutdown() is only issued while the entry point is running)
        pending = next((e for e in deliv if e['k'] in ('fatal', 'cancel', 'creq')
                        and e['i'] < late['i']
                        and e['ns'] + 3_000_000_000 <= late['ns']), None)
        if pending is not None:
            what = pending.get('kind') or ('raw-cancel' if pending['k'] == 'creq' else 'cancel')
            run.violate(f"C09/not-terminated-by-itself/{what}",
                        f"entry {entry}: {pending['k']} {what} was delivered at "
                        f"{pending['ns'] / 1e9:.3f}s (Circuit.error then "
                        f"{ctx.classify(D[pending['i'] + 1]['err'])}), but the entry point was "
                        f"still running {(late['ns'] - pending['ns']) / 1e9:.3f}s later (the "
                        "longest clean-up here takes about 1 s); it ended only when the "
                        "harness intervened")

    # ---- Circuit.error never changes once set
    seen = [e for e in D if e['err'] is not None]
    for a, b in zip(seen, seen[1:]):
        if a['err'] is not b['err']:
            run.violate('C09/Circuit.error/changed',
                        f"Circuit.error changed from {ctx.classify(a['err'])} to "
                        f"{ctx.classify(b['err'])} between records {a['i']} and {b['i']} "
                        f"({b['k']} {b.get('kind')})")
            break
    if seen and seen[-1]['err'] is not final_err:
        run.violate('C09/Circuit.error/changed',
                    f"Circuit.error changed from {ctx.classify(seen[-1]['err'])} to "
                    f"{ctx.classify(final_err)} at the very end")

    # ---- is_ready()
    started = next((e for e in D if e['k'] == 'started'), None)
    if started is not None and any(e['k'] == 'fatal' and e.get('pre') for e in D):
        run.violate('C09/abort-before-start/started-anyway',
                    "abort() was called before the start, yet the blocks were started "
                    "(the start did not fail)")
    term_i = next((e['i'] for e in D
                   if e['k'] in ('fatal', 'cancel', 'creq', 'req', 'sup', 'early')), len(D))
    if started is not None:
        last_nf = 'none'
        for e in D[started['i'] + 1:term_i + 1]:
            if e['k'] in ('nonfatal', 'nonfatal-op') and not e.get('refused'):
                last_nf = e['kind']
            if not e['ready']:
                run.violate(f"C09/is_ready/false-while-running/after-{last_nf}",
                            f"is_ready() is false at record {e['i']} ({e['k']} {e.get('kind')}) "
                            f"although nothing terminating was delivered or requested yet "
                            f"(last non-fatal fault: {last_nf}, error {ctx.classify(e['err'])})")
                break
            if e['k'] == 'post':
                run.fired('reach:nonfatal_still_ready')
    # from the first delivery on (its record shows the state just before it): stopping
    real_first = next((e for e in deliv if e['k'] != 'early'), None)
    stop_i = None
    if real_first is not None and real_first['k'] in ('fatal', 'cancel'):
        stop_i = real_first['i'] + 1
    elif real_first is not None and not real_first['init_phase']:
        stop_i = next((e['i'] for e in D if e['k'] == 'cmark' and e['id'] == real_first['id']),
                      None)
    if stop_i is not None:
        for e in D[stop_i:]:
            if e['ready']:
                run.violate('C09/is_ready/true-while-stopping',
                            f"is_ready() is true at record {e['i']} ({e['k']} {e.get('kind')}) "
                            f"although {real_first['k']} {real_first.get('kind')} was delivered "
                            f"at record {real_first['i']}")
                break
    ended = next((e for e in D if e['k'] == 'ended'), None)
    if ended is not None:
        for e in D[ended['i']:]:
            if e['ready']:
                run.violate('C09/is_ready/true-after-stop',
                            f"is_ready() is true at record {e['i']} ({e['k']}) after the entry "
                            f"point finished")
                break
            if e['err'] is None:
                run.violate('C09/Circuit.error/none-after-stop',
                            f"Circuit.error is None at record {e['i']} after the entry point "
                            "finished")
                break

    # ---- non-fatal external events are reported to the caller
    for e in D:
        if e['k'] == 'nonfatal-op' and 'result' in e:
            res = e['result']
            if res[0] != 'exc' or not isinstance(res[1], e['want']):
                got = 'returned' if res[0] == 'ret' else type(res[1]).__name__
                run.violate(f"C09/nonfatal/not-reported-to-caller/{e['kind']}",
                            f"external event fault '{e['kind']}': expected {e['want'].__name__} "
                            f"raised to the caller, got {got}")

    # ---- reach probes and behaviour
    planned = [e for e in D if e['k'] in ('fatal', 'cancel', 'creq', 'req', 'sup')
               and not (e['k'] == 'req' and e.get('label') == 'late')]
    real = [e for e in planned if e['k'] != 'cancel']
    fatals = [e for e in D if e['k'] == 'fatal']
    later = [e for e in deliv if e['i'] > first['i']]
    if len(deliv) >= 2:
        for a, b in zip(deliv, deliv[1:]):
            if a['ns'] == b['ns']:
                run.fired('reach:two_deliveries_same_instant')
                break
    by_tag = {s['tag']: (idx, s) for idx, s in enumerate(plan['sources'])}
    fired_src = [(e['i'], by_tag[e['tag']]) for e in fatals if e.get('tag') in by_tag]
    for (_i1, (idx1, s1)), (_i2, (idx2, s2)) in zip(fired_src, fired_src[1:]):
        if s1['t'] == s2['t'] and idx1 > idx2:
            run.fired('reach:tie_order_reversed')
            break
    if len({e['tag'] for e in fatals if e.get('tag') in by_tag}) + \
            len({(e.get('kind', e['k']), e.get('label')) for e in D
                 if e['k'] in ('req', 'creq', 'sup') and e.get('label') != 'late'}) >= 3:
        run.fired('reach:three_sources_fired')
    if first['k'] == 'fatal' and any(e['k'] == 'fatal' for e in later):
        run.fired('reach:later_error_ignored')
    if first['k'] in ('cancel', 'creq') and any(e['k'] == 'fatal' for e in later):
        run.fired('reach:cancel_first_then_error')
    if first['k'] == 'fatal' and any(e['k'] in ('cancel', 'creq') for e in later):
        run.fired('reach:error_first_then_cancel')
    if started is not None and first['i'] > started['i'] and not first['initd']:
        run.fired('reach:delivery_during_async_init')
    if ended is not None:
        in_cleanup = [e for e in later if e['i'] < ended['i'] and e['ns'] > first['ns']]
        if in_cleanup:
            run.fired('reach:delivery_during_cleanup')
            if any(e['k'] == 'fatal' for e in in_cleanup):
                run.fired('reach:error_in_cleanup_ignored')
        for sh in ctx.shut:
            if first['i'] < sh['i'] <= ended['i'] and sh['label'].startswith('src'):
                run.fired('reach:shutdown_during_cleanup')
    if any(e['k'] == 'early' for e in D):
        run.fired('reach:init_error_in_early_init')
    if (plan.get('pa2') and plan.get('pa') and started is not None and not first['initd']
            and first['i'] > started['i'] and first.get('kind') not in INIT_KINDS
            and 0 < first['ns'] - started['ns'] < 3_000_000_000):
        run.fired('reach:stop_while_init_task_awaited_other_pending')
    if any(e['k'] == 'fatal' and e['kind'] in ('init_abort', 'init_ctrl_abort', 'init_ofunc_abort')
           for e in D):
        run.fired('reach:abort_during_sync_init_nothing_raised')
    if any(e['k'] == 'fatal' and e['kind'] in SIM_CODES for e in D):
        run.fired('reach:abort_inside_simtask_nothing_raised')
    if any(e['k'] == 'fatal' and e['kind'] == 'handler_cblock' for e in D):
        run.fired('reach:handler_error_in_simtask')
    if any(sh['res'] == 'exc' for sh in ctx.shut):
        run.fired('reach:shutdown_reraised')
    if any(sh['res'] == 'ret' for sh in ctx.shut):
        run.fired('reach:shutdown_returned')
    if entry != 'rf':
        res = info['result']
        if res[0] == 'ret':
            run.fired('reach:run_returned_none')
        elif sup_failed and spec[0] == 'cancel':
            run.fired('reach:sup_error_reported_by_run')
        elif sup_failed:
            run.fired('reach:sim_error_preferred_over_sup')
    reqs = [e for e in D if e['k'] == 'req' and e['i'] < first['i']]
    if reqs and first['k'] == 'fatal':
        run.fired('reach:request_overtaken')
    same = []
    for a, b in zip(planned, planned[1:]):
        same.append(a['ns'] == b['ns'])
    run.beh(entry,
            [(e['k'], e.get('kind')) for e in D
             if e['k'] in ('fatal', 'cancel', 'creq', 'cmark', 'req', 'sup', 'nonfatal',
                           'nonfatal-op', 'started', 'ended')],
            same, exp_kind, [describe(ob).split('#')[0] for ob in obs], len(bad))
    return bool(real)
