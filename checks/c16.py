"""
C16 - event filters form an ordered pipeline that can edit or veto an event.

One run = one real circuit on the virtual loop with
 * a sender block 'src' owning 1-4 Event objects with pipelines of 0-3 filters (bundled
   filters Edge / not_from_undef / Delta / IfOutput / NotIfInitialized / DataEdit chains of
   <= 4 operations in class- and instance-call form, and scripted user filters that pass,
   veto, return a new dict, the same dict mutated, a non-dict MutableMapping, a read-only
   Mapping, a dict with a non-string key, or raise); every delivery is a real
   Event.send() made by the block while it handles an external 'fire' event,
 * 0-2 Input blocks whose real on_output / on_every_output events go through pipelines
   (the natural habitat of Edge, not_from_undef and Delta),
 * control Inputs toggled by the driver for IfOutput (by object, by name, through the
   '_not_NAME' inverter, which is stale until the simulator task ran) and add_output,
 * optionally the documented initialisation race: InitAsync -> Input with the
   NotIfInitialized filter while external updates arrive before / in the same instant as /
   after the async completion (also: coroutine failure or time-out with/without initdef).

Oracle: models/filter_model.py = the equivalent dictionary operations left to right,
exceptions included; compared are the value returned by Event.send() and what the recorder
block received, delivery by delivery. The race is judged by a monitor: a pass-through probe
filter in front of NotIfInitialized records the control block's state at that moment; the
init event is delivered iff the block was uninitialised then, and an update delivered
earlier must have made it initialised.

Finding F7 (genuine, documented API missing): docs/filters.rst documents
edzed.NotIfInitialized, the pinned tree only has the misspelt edzed.IfNotIitialized.
Signature C16/documented-api-missing/NotIfInitialized; when the documented name is absent
the check falls back to the misspelt one so that the rest of the oracle still runs.

Second finding (genuine, minor; documented "A non-string key will cause a TypeError"):
when the offending filter is a callable object (no __name__ - like every bundled filter
class) Event.send() fails with AttributeError while formatting the TypeError message.
Signature C16/nonstring-key-error/filter-without-__name__.

Sensitivity (VERIF_RUNS=30000 of the quick tier against mutated scratch copies of the tree
with both repairs; all 21 caught, typical signature in brackets):
  M1a Event.send delivers although a filter vetoed                      [veto-ignored/*]
  M1b pipeline keeps calling later filters after a veto, rejects at the
      end (visible through Delta's state / exceptions of later filters)  [unexpected-exception/*, veto-ignored/*]
  M2  every filter is called with the original data                     [wrong-data/*]
  M3  Edge: u_rise defaults to False instead of 'same as rise'          [wrongly-rejected/edge]
  M4  Delta compares with the previous value                            [veto-ignored/delta]
  M5  DataEdit.setdefault overwrites                                    [wrong-data/*]
  M6  DataEdit class-call form shares one instance                      [wrongly-rejected/*, unexpected-exception/*]
      (needs two class-form chains in one circuit)
  M7  NotIfInitialized inverted                                         [nii-race/*]
  M8  IfOutput tests 'is not UNDEF'                                     [veto-ignored/ifout]
  M9  DataEdit.modify: REJECT deletes the item instead of rejecting     [veto-ignored/edit]
  M10 Edge: fall also passes False->False                               [veto-ignored/edge]
  M11 DataEdit.rename keeps the source key                              [wrong-data/edit]
  M12 Event.send takes any Mapping (not only MutableMapping) as data    [wrong-data/custom:proxy]
  M13 DataEdit.__call__ stops after the first operation                [missing-exception/edit, wrong-data/*]
  M14 not_from_undef tests 'previous is not None'                       [veto-ignored/nfu]
  M15 'source' not added before the filters run                         [wrong-data/*]
  M16 IfOutput caches the control block's output of its first call      [wrongly-rejected/ifout*]
      (needs a toggle of the control block between two deliveries)
  M17 Delta uses '>' instead of '>='                                    [wrongly-rejected/delta]
  M18 DataEdit.permit always keeps 'source'                             [wrong-data/edit]
  M19 DataEdit.add_output reads the block's output once                 [wrong-data/edit*]
      (needs a toggle of the source block between two deliveries)
  seeded/C16-s4 IfOutput returns the control block's output itself: needs a control block whose
      output is a non-empty dict (it would replace the event data)      [wrong-data/ifout*]
  seeded/C16-s12 add_output leaves the data unchanged when the source's output is UNDEF: needs
      an Input created (initialised) before the control blocks, so that its first output
      event passes add_output while the source is UNDEF; the control blocks' outputs are
      snapshotted by a probe filter at the head of every output-event pipeline, which makes
      the init-time verdicts independent of the initialisation order    [wrong-data/*edit*]
  M20 NotIfInitialized tests 'init_steps_completed >= 2' (a different
      notion of initialised)                                            [nii-race/dropped-for-uninitialised]
      (needs: coroutine failure/time-out, InitAsync initdef, target without initdef created first)
"""

from __future__ import annotations

import asyncio
import re
import collections
import types

from simkit import seams
from simkit.runner import Run, PlanError, canon, gen_knobs
from models import filter_model as fm
from checks import fsmlib

edzed = seams.install()

_ADDR = re.compile(r' at 0x[0-9a-fA-F]+')


def _noaddr(args):
    """Exception arguments without object addresses (they differ from run to run)."""
    return tuple(_ADDR.sub(' at 0x..', a) if isinstance(a, str) else a for a in args)

PROP = 'C16'
LEVEL = 'exploration'
RUNS = {'quick': 100000, 'thorough': 3000000}
CHUNK = 500
RULE = ("one run = one circuit: sender block with 1-4 Events x pipelines of 0-3 filters "
        "(Edge, not_from_undef, Delta, IfOutput by object/name/_not_ inverter, "
        "NotIfInitialized, DataEdit chains of <=4 ops in class/instance form, scripted user "
        "filters: pass/veto/new dict/same dict mutated/in-place+truth value/UserDict/read-only "
        "Mapping/unrelated dict/non-string key/raise), 0-2 Inputs with on_output or "
        "on_every_output events through pipelines, control Inputs toggled by the driver, "
        "optionally the InitAsync->Input NotIfInitialized race (update before/at/after the "
        "async completion, failure, time-out, initdef) x 3-16 driver operations (fire with "
        "generated data, put, toggle, yield) x loop knobs; run indices below 48 walk all Edge "
        "flag combinations (rise x fall x u_rise in {omitted,None,False,True} x u_fall in "
        "{omitted,False,True}) each against all 13x13 (previous, value) pairs over UNDEF, 6 "
        "falsy and 6 truthy values; 6 % of the DataEdit chains fill one key from two different "
        "blocks (add_output, copy/rename, add_output); non-trivial = at least one delivery "
        "consulted a filter; "
        "distinct = hash of (pipeline shapes, per delivery: outcome kind and index of the "
        "deciding filter, race pattern)")
REACH_EXPECTED = ['veto_mid_pipeline', 'edit_seen_by_later_filter', 'delta_last_passed_matters',
                  'edge_from_undef', 'edge_same_level', 'ifoutput_pass', 'ifoutput_veto',
                  'ifoutput_pass_mapping_output', 'ctrl_undef_at_filter_time',
                  'ifoutput_stale_inverter', 'edit_keyerror', 'modify_reject', 'modify_delete',
                  'nonstring_key', 'readonly_mapping', 'userdict', 'empty_dict_replaces',
                  'class_form', 'instance_form', 'filter_raises', 'add_output',
                  'nii_update_before', 'nii_update_after', 'nii_same_instant', 'nii_dropped',
                  'nii_delivered', 'nii_initdef_event', 'nii_tie_update_first',
                  'nii_tie_init_first', 'real_output_event', 'every_output_same',
                  'chain4', 'pipeline3', 'no_filters', 'setdefault_existing']
ASSUMPTIONS = [
    "docs/events.rst is taken as the precise reading of 'a filter returning a mapping': a "
    "MutableMapping replaces the data, a read-only Mapping is judged by its truth value",
    "Edge / not_from_undef / Delta without their required items, and Delta with non-numeric "
    "values, are unspecified: no verdict",
    "exceptions raised by user supplied functions are compared by type only; KeyError of the "
    "documented 'must exist' operations by type and key",
    "no order is demanded between different Event objects of one block",
]

FALSY = [0, False, None, '', [], 0.0]
TRUTHY = [1, True, 'x', [0], 2.5, -1]
UM = fm.UNDEF_MARK
POOL = FALSY + TRUTHY
# outputs of the control blocks: also containers, in particular mappings (an Input that
# holds a settings dict) - a filter result that is a MutableMapping would replace the data
CTRL_POOL = POOL + [{}, {'k': 1}, {'value': 9, 'x': 'y'}, {'source': 'forged'}, [1, 2], [[]]]
KEYS = ['a', 'b', 'c', 'value', 'previous']
NUMS = [-2, -1, -0.5, 0, 0.25, 0.5, 1, 1.5, 2, 2.5, 3, 4, 5.5]
DELTAS = [0, 0.5, 1, 1, 2, 2.5]
EDGE_UR = ['omit', None, False, True]
EDGE_UF = ['omit', False, True]


class Injected(Exception):
    pass


# --------------------------------------------------------------------------- generation

def gen_edit_ops(rng, safe=False):
    if rng.random() < 0.06:
        # the same key filled from two different blocks within one chain, the first value
        # moved away in between: each operation must read its own source
        key, k2 = rng.choice(['out', 'a', 'b']), rng.choice(['c', 'd'])
        first = rng.choice(['c0', 'c1'])
        return [['add_output', key, first, rng.choice(['name', 'obj'])],
                ['copy' if safe or rng.random() < 0.5 else 'rename', key, k2],
                ['add_output', key, 'c1' if first == 'c0' else 'c0', rng.choice(['name', 'obj'])]]
    ops = []
    n = rng.choice([1, 1, 2, 2, 3, 3, 4, 4])
    for _ in range(n):
        r = rng.random()
        if r < 0.16:
            ops.append(['add', {rng.choice(KEYS): rng.choice(POOL)
                                for _ in range(rng.randint(1, 2))}])
        elif r < 0.32:
            ops.append(['setdefault', {rng.choice(KEYS): rng.choice(POOL)
                                       for _ in range(rng.randint(1, 2))}])
        elif r < 0.44:
            ops.append(['copy', rng.choice(['value', 'previous'] if safe else KEYS + ['source']),
                        rng.choice(KEYS + ['d'])])
        elif r < 0.56:
            if safe:
                ops.append(['copy', 'value', rng.choice(['a', 'b'])])
            else:
                ops.append(['rename', rng.choice(KEYS + ['source']), rng.choice(KEYS + ['d'])])
        elif r < 0.68:
            pool = ['a', 'b', 'c', 'trigger'] if safe else KEYS + ['source', 'zz']
            ops.append(['delete', [rng.choice(pool) for _ in range(rng.randint(1, 2))]])
        elif r < 0.78:
            keep = [k for k in KEYS + ['source'] if rng.random() < 0.6]
            if safe:
                keep = sorted(set(keep) | {'value', 'previous'})
            ops.append(['permit', keep])
        elif r < 0.92:
            funcs = (['neg', 'const', 'wrap', 'reject', 'reject_falsy'] if safe
                     else list(fm.FUNCS))
            ops.append(['modify', rng.choice(['a', 'b'] if safe and rng.random() < 0.5
                                             else (['value'] if safe else KEYS)),
                        rng.choice(funcs)])
            if safe and ops[-1][1] in ('a', 'b'):
                ops.insert(len(ops) - 1, ['add', {ops[-1][1]: rng.choice(POOL)}])
        else:
            key = rng.choice(KEYS + ['out'])
            if rng.random() < 0.3:
                ops.append(['add', {key: 'stale'}])         # must be overwritten
            ops.append(['add_output', key, rng.choice(['c0', 'c1']),
                        rng.choice(['name', 'obj'])])
            if rng.random() < 0.3:
                ops.append(['setdefault', {key: 'dflt'}])   # must not replace the output
    return ops[:4]


def gen_custom(rng, safe=False):
    kinds = ['ret'] * 5 + ['newdict', 'newdict', 'same', 'same', 'inplace', 'inplace',
                           'userdict', 'proxy', 'replace']
    if not safe:
        kinds += ['badkey', 'raise']
    kind = rng.choice(kinds)
    spec = {'f': 'custom', 'kind': kind}
    if kind == 'ret':
        spec['val'] = rng.choice(POOL + [True, True, 1])
    elif kind == 'replace':
        spec['data'] = rng.choice([{}, {'k': 1}, {'value': 3, 'previous': 1},
                                   {'value': 0, 'previous': UM, 'source': 'forged'}])
    elif kind not in ('badkey', 'raise'):
        addkeys = ['a', 'b', 'c'] if safe else KEYS + ['source']
        spec['add'] = {rng.choice(addkeys): rng.choice(POOL) for _ in range(rng.randint(0, 2))}
        spec['del'] = [rng.choice(['a', 'b', 'c', 'zz'] if safe else KEYS + ['source'])
                       for _ in range(rng.randint(0, 1))]
        if kind == 'inplace':
            spec['val'] = rng.choice(POOL + [True, True])
        if kind == 'proxy':
            spec['empty'] = rng.random() < 0.3
    if rng.random() < 0.2:
        spec['callable_obj'] = True     # a callable object instead of a function
    return spec


def gen_filter(rng, safe=False, numeric=True):
    r = rng.random()
    if r < 0.14:
        return {'f': 'edge', 'rise': rng.random() < 0.6, 'fall': rng.random() < 0.5,
                'u_rise': rng.choice(EDGE_UR), 'u_fall': rng.choice(EDGE_UF)}
    if r < 0.20:
        return {'f': 'nfu'}
    if r < 0.32 and numeric:
        return {'f': 'delta', 'delta': rng.choice(DELTAS)}
    if r < 0.44:
        return {'f': 'ifout', 'ctrl': rng.choice(['c0', 'c1']),
                'ref': rng.choice(['obj', 'name'] if safe else ['obj', 'name', 'not', 'not'])}
    if r < 0.47:
        return {'f': 'nii', 'ctrl': rng.choice(['c0', 'c1']), 'ref': rng.choice(['obj', 'name'])}
    if r < 0.75:
        return {'f': 'edit', 'form': rng.choice(['cls', 'cls', 'inst']),
                'ops': gen_edit_ops(rng, safe)}
    return gen_custom(rng, safe)


def gen_pipe(rng, safe=False, numeric=True):
    n = rng.choice([0, 1, 1, 2, 2, 2, 3, 3, 3])
    filters = [gen_filter(rng, safe, numeric) for _ in range(n)]
    form = 'list'
    if n == 0:
        form = rng.choice(['none', 'list', 'tuple'])
    elif n == 1:
        form = rng.choice(['single', 'list', 'tuple'])
    else:
        form = rng.choice(['list', 'tuple'])
    return {'filters': filters, 'form': form}


def has_kind(pipe, kind):
    return any(f['f'] == kind for f in pipe['filters'])


def gen_fire_data(rng, pipe, walk):
    data = {}
    numeric = has_kind(pipe, 'delta')
    need_pv = numeric or has_kind(pipe, 'edge') or has_kind(pipe, 'nfu')
    for k in ['a', 'b', 'c']:
        if rng.random() < 0.45:
            data[k] = rng.choice(POOL)
    if need_pv or rng.random() < 0.6:
        if rng.random() < 0.97:
            if numeric:
                if rng.random() < 0.7:
                    walk[0] = walk[0] + rng.choice([-1, -0.5, -0.25, 0, 0.25, 0.5, 1, 2])
                else:
                    walk[0] = rng.choice(NUMS)
                data['value'] = walk[0]
            else:
                data['value'] = rng.choice(POOL)
        if rng.random() < 0.97:
            data['previous'] = rng.choice(POOL + [UM, UM, UM])
    if rng.random() < 0.08:
        data['source'] = 'given'
    return data


def gen_nii(rng):
    dur = rng.choice([0.0, 0.5, 1.0, 1.0, 2.0])
    timeout = rng.choice([5.0, 5.0, 5.0, 0.4, None])
    nii = {
        'dur': dur, 'timeout': timeout, 'result': rng.choice(['R', 7, 0, None, [1]]),
        'fail': rng.random() < 0.15,
        'ia_initdef': rng.choice([None, None, {'v': 'IDEF'}, {'v': 0}]),
        'tgt_initdef': rng.choice([None, None, {'v': 'TDEF'}]),
        'order': rng.choice(['tgt_first', 'ia_first']),
        'by_name': rng.random() < 0.5,
        'probe': rng.random() < 0.9,
        'updates': [],
    }
    if nii['order'] == 'ia_first':
        nii['by_name'] = True
    k = rng.choice([0, 1, 1, 1, 2])
    for i in range(k):
        off = rng.choice([-0.3, -0.001, 0.0, 0.0, 0.0, 0.001, 0.3])
        nii['updates'].append({'t': max(0.0, round(dur + off, 6)), 'value': f"U{i}",
                               'hops': rng.choice([0, 0, 1, 2, 3])})
    nii['updates'].sort(key=lambda u: u['t'])
    no_event = (nii['fail'] or (timeout is not None and timeout < dur)) and not nii['ia_initdef']
    if (no_event or nii['result'] is None) and not nii['tgt_initdef']:
        # result None == the placeholder output of InitAsync: no change, no event
        nii['tgt_initdef'] = {'v': 'TDEF'}
    return nii


def gen(rng, tier, index=0):
    if index < 48:
        k = index
        rise = bool(k % 2)
        k //= 2
        fall = bool(k % 2)
        k //= 2
        ur = EDGE_UR[k % 4]
        k //= 4
        uf = EDGE_UF[k % 3]
        pipe = {'filters': [{'f': 'edge', 'rise': rise, 'fall': fall, 'u_rise': ur, 'u_fall': uf}],
                'form': rng.choice(['single', 'list', 'tuple'])}
        vals = [UM] + FALSY + TRUTHY
        ops = [{'op': 'fire', 'pipe': 0, 'data': {'previous': p, 'value': v}}
               for p in vals for v in vals]
        return {'knobs': gen_knobs(rng, latency=False, cost=False, ties=False),
                'ctrl': {'c0': 1, 'c1': 0}, 'pipes': [pipe], 'vins': [], 'nii': None,
                'ops': ops, 'table': True}
    exact = rng.random() < 0.6
    knobs = gen_knobs(rng, latency=not exact, cost=not exact, ties=True)
    ctrl = {'c0': rng.choice(CTRL_POOL), 'c1': rng.choice(CTRL_POOL)}
    pipes = [gen_pipe(rng) for _ in range(rng.choice([1, 1, 2, 2, 3, 4]))]
    vins = []
    for i in range(rng.choice([0, 0, 1, 1, 2])):
        numeric = rng.random() < 0.5
        vpipes = [gen_pipe(rng, safe=True, numeric=numeric) for _ in range(rng.choice([1, 1, 2]))]
        vin = {'name': f"v{i}", 'numeric': numeric,
               'trigger': rng.choice(['on_output', 'on_output', 'on_every_output']),
               'initdef': rng.choice(NUMS if numeric else POOL), 'pipes': vpipes}
        vins.append(vin)
    nii = gen_nii(rng) if rng.random() < 0.35 else None
    # the Inputs may be created (hence initialised) before the control blocks: their first
    # output event then passes IfOutput / add_output while the control block is still UNDEF
    vins_first = bool(vins) and rng.random() < 0.4
    ops = []
    walk = [rng.choice(NUMS)]
    focus = rng.randrange(len(pipes))
    for _ in range(rng.randint(3, 16)):
        r = rng.random()
        if r < 0.58 or (not vins and r < 0.75):
            pi = focus if rng.random() < 0.7 else rng.randrange(len(pipes))
            ops.append({'op': 'fire', 'pipe': pi, 'data': gen_fire_data(rng, pipes[pi], walk)})
        elif r < 0.75:
            vi = rng.randrange(len(vins))
            vin = vins[vi]
            ops.append({'op': 'put', 'vin': vi,
                        'value': rng.choice(NUMS if vin['numeric'] else POOL)})
        elif r < 0.9:
            ops.append({'op': 'ctrl', 'name': rng.choice(['c0', 'c1']), 'value': rng.choice(CTRL_POOL)})
        else:
            ops.append({'op': 'yield'})
    return {'knobs': knobs, 'ctrl': ctrl, 'pipes': pipes, 'vins': vins, 'nii': nii, 'ops': ops,
            'vins_first': vins_first}


# --------------------------------------------------------------------------- real filters

def nii_class(run, used):
    """The documented class; fall back to the misspelt name of the pinned tree (F7)."""
    cls = getattr(edzed, 'NotIfInitialized', None)
    if cls is None:
        if used and not run.x_f7:
            run.x_f7 = True
            run.violate('C16/documented-api-missing/NotIfInitialized',
                        "docs/filters.rst documents the event filter edzed.NotIfInitialized, "
                        "but the package has no such name"
                        + (" (only the misspelt edzed.IfNotIitialized)"
                           if hasattr(edzed, 'IfNotIitialized') else ''))
        cls = getattr(edzed, 'IfNotIitialized', None)
    return cls


def conv_marker(value):
    if value is fm.DELETE:
        return edzed.DataEdit.DELETE
    if value is fm.REJECT:
        return edzed.DataEdit.REJECT
    return value


def real_modify_func(name):
    func = fm.FUNCS[name]
    return lambda x: conv_marker(func(x))


def real_edit(spec, blocks):
    cur = edzed.DataEdit if spec.get('form') == 'cls' else edzed.DataEdit()
    for op in spec['ops']:
        name = op[0]
        if name in ('add', 'setdefault'):
            cur = getattr(cur, name)(**fm.decode(op[1], edzed.UNDEF))
        elif name in ('copy', 'rename'):
            cur = getattr(cur, name)(op[1], op[2])
        elif name in ('delete', 'permit'):
            cur = getattr(cur, name)(*op[1])
        elif name == 'modify':
            cur = cur.modify(op[1], real_modify_func(op[2]))
        elif name == 'add_output':
            src = op[2] if (len(op) < 4 or op[3] == 'name') else blocks[op[2]]
            cur = cur.add_output(op[1], src)
        else:
            raise PlanError(f"bad DataEdit op {name}")
    if cur is edzed.DataEdit:
        cur = edzed.DataEdit()      # chain without operations
    return cur


class CallableFilter:
    """A user filter that is a callable object (has no __name__)."""

    def __init__(self, func):
        self._func = func

    def __call__(self, data):
        return self._func(data)


def real_custom(spec, notes):
    func = _real_custom(spec, notes)
    if spec.get('callable_obj'):
        return CallableFilter(func)
    return func


def _real_custom(spec, notes):
    kind = spec['kind']
    undef = edzed.UNDEF
    add = fm.decode(spec.get('add', {}), undef)
    dels = list(spec.get('del', []))

    def edit(data):
        for k, v in add.items():
            data[k] = v
        for k in dels:
            data.pop(k, None)

    if kind == 'ret':
        val = fm.decode(spec['val'], undef)
        return lambda data: val
    if kind == 'raise':
        def f_raise(data):
            raise ValueError('boom')
        return f_raise
    if kind == 'replace':
        return lambda data: dict(fm.decode(spec['data'], undef))
    if kind == 'badkey':
        def f_badkey(data):
            new = dict(data)
            new[1] = 'one'
            return new
        return f_badkey
    if kind == 'newdict':
        def f_new(data):
            new = dict(data)
            edit(new)
            return new
        return f_new
    if kind == 'userdict':
        def f_ud(data):
            new = collections.UserDict(data)
            edit(new)
            return new
        return f_ud
    if kind == 'same':
        def f_same(data):
            edit(data)
            return data
        return f_same
    if kind == 'inplace':
        val = fm.decode(spec['val'], undef)

        def f_inplace(data):
            edit(data)
            return val
        return f_inplace
    if kind == 'proxy':
        def f_proxy(data):
            if spec.get('empty'):
                return types.MappingProxyType({})
            new = dict(data)
            edit(new)
            new['proxy_only'] = 1       # must never reach anybody
            return types.MappingProxyType(new)
        return f_proxy
    if kind == 'probe':
        return lambda data: True
    raise PlanError(f"bad custom kind {kind}")


def real_filter(run, spec, blocks, notes):
    kind = spec['f']
    try:
        if kind == 'edge':
            kw = {'rise': spec['rise'], 'fall': spec['fall']}
            if spec.get('u_rise', 'omit') != 'omit':
                kw['u_rise'] = spec['u_rise']
            if spec.get('u_fall', 'omit') != 'omit':
                kw['u_fall'] = spec['u_fall']
            return edzed.Edge(**kw)
        if kind == 'nfu':
            return edzed.not_from_undef
        if kind == 'delta':
            return edzed.Delta(spec['delta'])
        if kind == 'ifout':
            ref = spec.get('ref', 'obj')
            if ref == 'obj':
                return edzed.IfOutput(blocks[spec['ctrl']])
            if ref == 'name':
                return edzed.IfOutput(spec['ctrl'])
            return edzed.IfOutput('_not_' + spec['ctrl'])
        if kind == 'nii':
            cls = nii_class(run, True)
            if cls is None:
                raise PlanError("no NotIfInitialized filter at all")
            return cls(blocks[spec['ctrl']] if spec.get('ref') == 'obj' else spec['ctrl'])
        if kind == 'edit':
            return real_edit(spec, blocks)
        if kind == 'custom':
            return real_custom(spec, notes)
    except PlanError:
        raise
    except (KeyError, TypeError, ValueError, AttributeError) as err:
        raise PlanError(f"filter construction failed: {type(err).__name__}: {err}") from None
    raise PlanError(f"bad filter {kind}")


def real_pipe(run, pipe, blocks, notes):
    filters = [real_filter(run, f, blocks, notes) for f in pipe['filters']]
    form = pipe.get('form', 'list')
    if form == 'none' and not filters:
        return None
    if form == 'single' and len(filters) == 1:
        return filters[0]
    if form == 'tuple':
        return tuple(filters)
    return filters


def pipe_shape(pipe):
    out = []
    for f in pipe['filters']:
        if f['f'] == 'custom':
            out.append('custom:' + f['kind'])
        elif f['f'] == 'edit':
            out.append('edit:' + ','.join(op[0] for op in f['ops']))
        else:
            out.append(f['f'])
    return out


def kind_of(f):
    return 'custom:' + f['kind'] if f['f'] == 'custom' else f['f']


# --------------------------------------------------------------------------- probe blocks

class Src(edzed.SBlock):
    """Sends its events on request; reports what Event.send() did."""

    def init_regular(self):
        self.set_output(0)

    def _event_fire(self, *, idx, data, **_kw):
        try:
            res = self.x_events[idx].send(self, **data)
        except Exception as err:    # pylint: disable=broad-except
            return ['exc', type(err).__name__, _noaddr(err.args)]
        return ['ok', res]


async def init_coro(dur, result, fail):
    await asyncio.sleep(dur)
    if fail:
        raise Injected('init coroutine failed')
    return result


class Env:
    """Facts for the model that lie outside the pipeline."""

    def __init__(self, circuit, ctrl):
        self.circuit = circuit
        self.ctrl = dict(ctrl)      # model of the control Inputs' outputs
        self.run = None
        self.snap = None            # outputs of the control blocks observed by the probe
                                    # filter at the head of the pipeline (this delivery)

    def output(self, name, spec=None):
        if spec is not None and spec.get('ref') == 'not':
            # the inverter is a CBlock: its output follows when the simulator task ran;
            # what it shows now is observed (C01 is about its correctness)
            out = self.circuit.findblock('_not_' + name).output
            if bool(out) == bool(self.ctrl[name]):
                self.run.fired('reach:ifoutput_stale_inverter')
            return out
        if self.snap is not None and name in self.snap:
            # whatever the block's output was at that moment - UNDEF included
            if self.snap[name] is edzed.UNDEF:
                self.run.fired('reach:ctrl_undef_at_filter_time')
            return self.snap[name]
        return self.ctrl[name]

    def initialized(self, name):
        if self.snap is not None and name in self.snap:
            return self.snap[name] is not edzed.UNDEF
        return True     # generic pipelines are exercised after the initialisation

    def set(self, name, value):
        if not self.ctrl[name] == value:
            self.ctrl[name] = value


# --------------------------------------------------------------------------- execution

def compare_exc(exp, got):
    """exp = (type name, args|None); got = ['exc', type name, args]."""
    if got[1] != exp[0]:
        return False
    if exp[1] is not None and tuple(got[2]) != tuple(exp[1]):
        return False
    return True


def execute(plan, trace=False):
    run = Run(plan['knobs'])
    run.x_f7 = False
    try:
        undef = edzed.UNDEF
        circuit = edzed.get_circuit()
        recorded = collections.defaultdict(list)      # etype -> [data]
        notes = {}
        consulted_total = [0]

        def sink(_blk, etype, data):
            recorded[etype].append(dict(data))

        try:
            blocks = {}
            snaps = collections.defaultdict(list)     # etype -> [{ctrl name: output}]
            rec = fsmlib.Recorder('rec', x_sink=sink)
            env = Env(circuit, {n: fm.decode(v, undef) for n, v in plan['ctrl'].items()})
            env.run = run

            def mk_ctrl():
                for name in ('c0', 'c1'):
                    blocks[name] = edzed.Input(name,
                                               initdef=fm.decode(plan['ctrl'][name], undef))

            def mk_probe(etype):
                def head_probe(data):
                    snaps[etype].append({name: circuit.findblock(name).output
                                         for name in ('c0', 'c1')})
                    return True
                return head_probe

            def by_name(pipe):
                """The same pipeline with all block references given by name."""
                out = {'form': pipe.get('form', 'list'), 'filters': []}
                for f in pipe['filters']:
                    f = dict(f)
                    if f.get('ref') == 'obj':
                        f['ref'] = 'name'
                    if f['f'] == 'edit':
                        f['ops'] = [op[:3] + ['name'] if op[0] == 'add_output' else op
                                    for op in f['ops']]
                    out['filters'].append(f)
                return out

            def mk_vins():
                for vin in plan['vins']:
                    vevents, vmodels = [], []
                    for j, pipe in enumerate(vin['pipes']):
                        etype = f"{vin['name']}_{j}"
                        rpipe = by_name(pipe) if plan.get('vins_first') else pipe
                        flt = real_pipe(run, dict(rpipe, form='list'), blocks, notes)
                        vevents.append(edzed.Event(rec, etype,
                                                   efilter=[mk_probe(etype)] + list(flt)))
                        vmodels.append(fm.PipelineModel(pipe['filters'], undef, env))
                    blk = edzed.Input(vin['name'], initdef=fm.decode(vin['initdef'], undef),
                                      **{vin['trigger']: vevents})
                    vins.append({'blk': blk, 'models': vmodels, 'out': undef, 'spec': vin,
                                 'nsent': [0] * len(vmodels)})

            vins = []
            if plan.get('vins_first'):
                mk_vins()
                mk_ctrl()
            else:
                mk_ctrl()
                mk_vins()
            events = []
            models = []
            for i, pipe in enumerate(plan['pipes']):
                events.append(edzed.Event(rec if i % 2 else 'rec', f"p{i}",
                                          efilter=real_pipe(run, pipe, blocks, notes)))
                models.append(fm.PipelineModel(pipe['filters'], undef, env))
            src = Src('src', x_events=events)
        except PlanError:
            raise
        except (KeyError, TypeError, ValueError, IndexError) as err:
            raise PlanError(f"circuit construction failed: {type(err).__name__}: {err}") from None

        # ---- the initialisation race scene
        nii = plan.get('nii')
        scene = None
        if nii:
            cls = nii_class(run, True)
            if cls is not None:
                scene = {'log': [], 'tgt': None}
                log = scene['log']

                def probe(data):
                    log.append(['filter', scene['tgt'].is_initialized(), canon(data.get('value'))])
                    return True

                def mk_tgt():
                    kw = {}
                    if nii.get('tgt_initdef'):
                        kw['initdef'] = nii['tgt_initdef']['v']
                    scene['tgt'] = edzed.Input('tgt', **kw)

                def mk_ia():
                    ref = 'tgt' if nii.get('by_name', True) else scene['tgt']
                    if not nii.get('by_name', True) and scene['tgt'] is None:
                        raise PlanError('target block referenced before its creation')
                    kw = {}
                    if nii.get('ia_initdef'):
                        kw['initdef'] = nii['ia_initdef']['v']
                    if nii.get('timeout') is not None:
                        kw['init_timeout'] = nii['timeout']
                    flt = [probe, cls(ref)] if nii.get('probe', True) else cls(ref)
                    edzed.InitAsync(
                        'ia', init_coro=[init_coro, nii['dur'], nii['result'], nii['fail']],
                        on_output=edzed.Event(ref, 'put', efilter=flt), **kw)
                try:
                    if nii.get('order') == 'ia_first':
                        mk_ia()
                        mk_tgt()
                    else:
                        mk_tgt()
                        mk_ia()
                except PlanError:
                    raise
                except (TypeError, ValueError) as err:
                    raise PlanError(f"scene construction failed: {err}") from None

                def tgt_hook(phase, _blk, _etype, arg):
                    if phase == 'pre':
                        log.append(['deliver', arg.get('source'), canon(arg.get('value'))])
                fsmlib.hook_events(scene['tgt'], tgt_hook)

        info = {'dead': False, 'init_failed': False}

        # ---- judging one delivery through a src pipeline
        unjudged = set()    # src pipelines whose stateful filters left the specified domain

        def judge_fire(n, op):
            pi = op['pipe']
            if pi in unjudged:
                return
            pipe = plan['pipes'][pi]
            model = models[pi]
            etype = f"p{pi}"
            data = fm.decode(op['data'], undef)
            before = len(recorded[etype])
            others = {k: len(v) for k, v in recorded.items() if k != etype}
            # facts for reach probes only
            delta_prev = [(st.have, st.last) for st in model.state
                          if isinstance(st, fm.DeltaModel)]
            out = model.send(data, 'src')
            try:
                got = edzed.ExtEvent(src, 'fire').send(idx=pi, data=dict(data))
            except Exception as err:    # pylint: disable=broad-except
                got = ['send-exc', type(err).__name__, _noaddr(err.args)]
            new = recorded[etype][before:]
            stray = sorted(k for k, v in recorded.items() if k != etype and len(v) != others.get(k, 0))
            kinds = [kind_of(f) for f in pipe['filters']]
            site = kinds[out.at] if out.at is not None else ('+'.join(kinds) or 'none')
            run.log('fire', n, pi, canon(data), out.kind, out.at, canon(got), canon(new))
            run.beh('f', pipe_shape(pipe), out.kind, out.at)
            consulted_total[0] += out.consulted
            label = f"op {n}: pipeline {pipe_shape(pipe)} data {canon(data)}"
            reach_fire(pipe, out, data, delta_prev)
            if stray:
                run.violate('C16/stray-delivery', f"{label}: other events delivered: {stray}")
            if out.kind == 'unspec':
                run.fired('unspecified')
                if any(f['f'] == 'delta' for f in pipe['filters']):
                    unjudged.add(pi)    # the state of Delta is unknown from now on
                return
            if got[0] == 'send-exc':
                run.violate('C16/fire-failed', f"{label}: the sender's handler failed: {canon(got)}")
                info['dead'] = True
                return
            if out.kind == 'exc':
                if got[0] != 'exc':
                    run.violate(f"C16/missing-exception/{site}",
                                f"{label}: expected {out.exc[0]}{canon(out.exc[1])} from filter "
                                f"#{out.at}, send() returned {canon(got)}; delivered {canon(new)}")
                elif (not compare_exc(out.exc, got) and site == 'custom:badkey'
                      and got[1] == 'AttributeError' and '__name__' in str(got[2])):
                    run.violate('C16/nonstring-key-error/filter-without-__name__',
                                f"{label}: a filter that is a callable object returned a dict "
                                f"with a non-string key: documented TypeError, got {canon(got)}")
                elif not compare_exc(out.exc, got):
                    run.violate(f"C16/exception-mismatch/{site}",
                                f"{label}: expected {out.exc[0]}{canon(out.exc[1])} from filter "
                                f"#{out.at}, got {canon(got)}")
                if new:
                    run.violate(f"C16/delivered-despite-exception/{site}",
                                f"{label}: destination received {canon(new)}")
                return
            if got[0] == 'exc':
                run.violate(f"C16/unexpected-exception/{site}",
                            f"{label}: Event.send raised {canon(got)}; the model says {out.kind} "
                            f"{canon(out.data)}")
                return
            if out.kind == 'veto':
                if new:
                    run.violate(f"C16/veto-ignored/{site}",
                                f"{label}: filter #{out.at} must reject, but the destination "
                                f"received {canon(new)}")
                if got[1] is not False:
                    run.violate(f"C16/send-result/{site}",
                                f"{label}: rejected by filter #{out.at}, send() returned "
                                f"{canon(got[1])} instead of False")
                return
            # sent
            if not new:
                run.violate(f"C16/wrongly-rejected/{site}",
                            f"{label}: the event must be delivered with {canon(out.data)}; "
                            f"nothing arrived, send() returned {canon(got[1])}")
                return
            if len(new) != 1:
                run.violate(f"C16/duplicate-delivery/{site}", f"{label}: delivered {canon(new)}")
            if new[0] != out.data or canon(new[0]) != canon(out.data):
                run.violate(f"C16/wrong-data/{site}",
                            f"{label}: destination received {canon(new[0])}, expected "
                            f"{canon(out.data)}")
            if got[1] is not True:
                run.violate(f"C16/send-result/{site}",
                            f"{label}: delivered, but send() returned {canon(got[1])} instead "
                            "of True")

        def reach_fire(pipe, out, data, delta_prev):
            filters = pipe['filters']
            if not filters:
                run.fired('reach:no_filters')
            if len(filters) == 3 and out.consulted == 3:
                run.fired('reach:pipeline3')
            if out.kind == 'veto' and out.at is not None and out.at < len(filters) - 1:
                run.fired('reach:veto_mid_pipeline')
            if out.kind == 'exc':
                f = filters[out.at]
                if f['f'] == 'edit' and out.exc[0] == 'KeyError':
                    run.fired('reach:edit_keyerror')
                if f['f'] == 'custom' and f['kind'] == 'raise':
                    run.fired('reach:filter_raises')
                if f['f'] == 'custom' and f['kind'] == 'badkey':
                    run.fired('reach:nonstring_key')
            editing = ('edit', 'custom:newdict', 'custom:same', 'custom:inplace',
                       'custom:userdict', 'custom:replace')
            for i, f in enumerate(filters[:out.consulted]):
                k = kind_of(f)
                if k in editing and i + 1 < out.consulted:
                    run.fired('reach:edit_seen_by_later_filter')
                if i + 1 > out.consulted:
                    break
                passed = out.kind == 'sent' or (out.at is not None and i < out.at)
                if k == 'custom:proxy' and (passed or out.at == i):
                    run.fired('reach:readonly_mapping')
                if k == 'custom:userdict' and passed:
                    run.fired('reach:userdict')
                if k == 'custom:replace' and passed and not f['data']:
                    run.fired('reach:empty_dict_replaces')
                if k == 'ifout':
                    if passed:
                        run.fired('reach:ifoutput_pass')
                        if f.get('ref') != 'not' and isinstance(env.ctrl.get(f['ctrl']), dict):
                            run.fired('reach:ifoutput_pass_mapping_output')
                    elif out.at == i and out.kind == 'veto':
                        run.fired('reach:ifoutput_veto')
                if k == 'edit' and (passed or out.at == i):
                    run.fired('reach:class_form' if f.get('form') == 'cls'
                              else 'reach:instance_form')
                    if len(f['ops']) == 4 and passed:
                        run.fired('reach:chain4')
                    for op in f['ops']:
                        if op[0] == 'add_output':
                            run.fired('reach:add_output')
                        if op[0] == 'setdefault' and passed and any(kk in data for kk in op[1]):
                            run.fired('reach:setdefault_existing')
                        if op[0] == 'modify' and op[2] in ('reject', 'reject_falsy') \
                                and out.at == i and out.kind == 'veto':
                            run.fired('reach:modify_reject')
                        if op[0] == 'modify' and op[2] in ('delete', 'delete_truthy') and passed:
                            run.fired('reach:modify_delete')
            if len(filters) >= 1 and filters[0]['f'] == 'edge' and 'previous' in data \
                    and 'value' in data and len(filters) == 1:
                if data['previous'] is edzed.UNDEF:
                    run.fired('reach:edge_from_undef')
                elif bool(data['previous']) == bool(data['value']):
                    run.fired('reach:edge_same_level')
            # Delta: verdict by the last passed value differs from verdict by the previous value
            if delta_prev and filters and filters[0]['f'] == 'delta' and 'value' in data \
                    and out.kind != 'unspec':
                last = notes.get(('dprev', id(pipe)))
                val = data['value']
                if last is not None and isinstance(val, (int, float)) and not isinstance(val, bool):
                    by_prev = abs(last - val) >= filters[0]['delta']
                    by_last = not (out.kind == 'veto' and out.at == 0)
                    if by_prev != by_last:
                        run.fired('reach:delta_last_passed_matters')
                if isinstance(val, (int, float)) and not isinstance(val, bool):
                    notes[('dprev', id(pipe))] = val

        # ---- judging the real output events of an Input
        def expect_vin(vin, value):
            """Model of set_output + output events; returns {etype: [Outcome]}."""
            prev = vin['out']
            changed = not prev == value
            if changed:
                vin['out'] = value
            exp = {}
            if changed or vin['spec']['trigger'] == 'on_every_output':
                if not changed:
                    run.fired('reach:every_output_same')
                for j, model in enumerate(vin['models']):
                    etype = f"{vin['spec']['name']}_{j}"
                    k = vin['nsent'][j]
                    vin['nsent'][j] += 1
                    # the control blocks' outputs as the probe at the head of this very
                    # delivery saw them (the model of the toggles otherwise)
                    env.snap = snaps[etype][k] if k < len(snaps[etype]) else None
                    try:
                        out = model.send({'trigger': 'output', 'previous': prev, 'value': value},
                                         vin['spec']['name'])
                    finally:
                        env.snap = None
                    exp[etype] = out
                    consulted_total[0] += out.consulted
            return exp

        skipped = set()     # etypes whose model went out of step at initialisation time

        def ctrl_dependent(pipe):
            for f in pipe['filters']:
                if f['f'] in ('ifout', 'nii'):
                    return True
                if f['f'] == 'edit' and any(op[0] == 'add_output' for op in f['ops']):
                    return True
            return False

        def judge_vin(label, vin, exp, marks, init=False):
            if any(o.kind in ('exc', 'unspec') for o in exp.values()):
                # a failing filter inside set_output aborts the delivery of the block's
                # remaining events and the simulation: not C16's business
                info['dead'] = True
                run.fired('output_event_filter_failed')
                return
            for j, pipe in enumerate(vin['spec']['pipes']):
                etype = f"{vin['spec']['name']}_{j}"
                if etype in skipped:
                    continue
                new = recorded[etype][marks.get(etype, 0):]
                out = exp.get(etype)
                kinds = [kind_of(f) for f in pipe['filters']]
                if out is None:
                    if new:
                        run.violate('C16/output-event-without-change',
                                    f"{label}: {etype} delivered {canon(new)} although the output "
                                    "did not change")
                    continue
                site = kinds[out.at] if out.at is not None else ('+'.join(kinds) or 'none')
                run.beh('v', vin['spec']['trigger'], pipe_shape(pipe), out.kind, out.at)
                run.fired('reach:real_output_event')
                if out.kind in ('exc', 'unspec'):
                    info['dead'] = True     # a failing filter inside set_output aborts: not C16
                    continue
                problem = None
                if out.kind == 'veto':
                    if new:
                        problem = (f"C16/veto-ignored/{site}",
                                   f"{label}: {etype} pipeline {pipe_shape(pipe)}: filter "
                                   f"#{out.at} must reject, destination received {canon(new)}")
                elif not new:
                    problem = (f"C16/wrongly-rejected/{site}",
                               f"{label}: {etype} pipeline {pipe_shape(pipe)}: expected delivery "
                               f"of {canon(out.data)}, nothing arrived")
                elif len(new) != 1:
                    problem = (f"C16/duplicate-delivery/{site}",
                               f"{label}: {etype} delivered {canon(new)}")
                elif new[0] != out.data or canon(new[0]) != canon(out.data):
                    problem = (f"C16/wrong-data/{site}",
                               f"{label}: {etype} pipeline {pipe_shape(pipe)}: received "
                               f"{canon(new[0])}, expected {canon(out.data)}")
                if problem:
                    # (also at initialisation time: the control blocks' outputs were observed
                    # at the head of the pipeline, so the verdict does not depend on the
                    # undocumented order in which blocks get initialised)
                    run.violate(*problem)

        def marks_now():
            return {k: len(v) for k, v in recorded.items()}

        def judge_scene():
            log = scene['log']
            run.log('scene', canon(log))
            pattern = []
            seen_delivery = False
            seen_update = False
            for i, entry in enumerate(log):
                if entry[0] == 'deliver':
                    if entry[1] == 'ia':
                        if nii.get('probe', True) and (i == 0 or log[i - 1][0] != 'filter'):
                            run.violate('C16/nii-delivery-without-filter',
                                        f"init event delivered without passing the pipeline: {log}")
                        pattern.append('I')
                    elif str(entry[1]).startswith('_ext_'):
                        pattern.append('U')
                        seen_update = True
                    else:
                        pattern.append('D')     # the Input applying its own initdef
                    seen_delivery = True
                    continue
                initialised = entry[1]
                delivered = i + 1 < len(log) and log[i + 1][0] == 'deliver' and log[i + 1][1] == 'ia'
                from_initdef = bool(nii.get('ia_initdef')) and entry[2] == canon(nii['ia_initdef']['v']) \
                    and entry[2] != canon(nii['result'])
                pattern.append('f1' if initialised else 'f0')
                if from_initdef:
                    run.fired('reach:nii_initdef_event')
                if delivered:
                    run.fired('reach:nii_delivered')
                else:
                    run.fired('reach:nii_dropped')
                if delivered == initialised:
                    run.violate('C16/nii-race/' + ('delivered-to-initialised' if delivered
                                                   else 'dropped-for-uninitialised'),
                                f"NotIfInitialized: control block initialised={initialised} when "
                                f"the init event was filtered, delivered={delivered}; history {log}")
                if seen_delivery and not initialised:
                    run.violate('C16/nii-race/uninitialised-after-update',
                                f"an update was delivered before the init event, yet the control "
                                f"block counted as uninitialised; history {log}")
                if seen_update:
                    run.fired('reach:nii_update_before')
                if seen_delivery:
                    pass
                elif not from_initdef and not nii.get('tgt_initdef') and initialised:
                    run.violate('C16/nii-race/initialised-without-cause',
                                f"no event and no initdef, yet initialised; history {log}")
            if 'U' in pattern and any(p.startswith('f') for p in pattern):
                fi = [k for k, p in enumerate(pattern) if p.startswith('f')][0]
                if any(p == 'U' for p in pattern[fi:]):
                    run.fired('reach:nii_update_after')
            if not nii.get('probe', True):
                # without the probe only the end-to-end rule: an update delivered before the
                # init event must not be overwritten by it
                dl = [e for e in log if e[0] == 'deliver']
                for i, entry in enumerate(dl):
                    if entry[1] == 'ia' and i > 0:
                        run.violate('C16/nii-race/delivered-to-initialised',
                                    f"the init event overwrote an earlier update; history {log}")
            # both orders of an update scheduled for the very instant of the async completion
            filt = [k for k, e in enumerate(log) if e[0] == 'filter']
            for upd in nii['updates']:
                if abs(upd['t'] - nii['dur']) < 1e-9 and filt:
                    pos = [k for k, e in enumerate(log)
                           if e[0] == 'deliver' and e[2] == upd['value']]
                    if pos and not nii['fail'] and (nii.get('timeout') is None
                                                    or nii['timeout'] > nii['dur']):
                        run.fired('reach:nii_tie_update_first' if pos[0] < filt[0]
                                  else 'reach:nii_tie_init_first')
            run.beh('nii', pattern)
            return pattern

        async def main():
            simtask = asyncio.create_task(circuit.run_forever())
            m0 = marks_now()
            # updates of the race scene at exact instants
            if scene:
                tgt = scene['tgt']
                for upd in nii['updates']:
                    def fire_update(upd=upd, hops=None):
                        hops = upd.get('hops', 0) if hops is None else hops
                        if hops > 0:
                            run.loop.call_soon(fire_update, upd, hops - 1)
                            return
                        if not circuit.is_ready():
                            return
                        try:
                            edzed.ExtEvent(tgt, 'put').send(upd['value'])
                        except Exception as err:    # pylint: disable=broad-except
                            run.log('update-exc', err)
                    run.at(upd['t'], fire_update)
                    if abs(upd['t'] - nii['dur']) < 1e-9:
                        run.fired('reach:nii_same_instant')
            try:
                await circuit.wait_init()
            except edzed.EdzedInvalidState as err:
                info['init_failed'] = True
                run.log('init-failed', err)
                run.fired('init_failed')
            if scene:
                # let all updates happen
                last = max([u['t'] for u in nii['updates']] + [0.0])
                if last + 0.01 > run.now():
                    await asyncio.sleep(last + 0.01 - run.now())
                judge_scene()
            if not info['init_failed']:
                # output events of the initialisation
                for vin in vins:
                    exp = expect_vin(vin, fm.decode(vin['spec']['initdef'], undef))
                    judge_vin('init', vin, exp, m0, init=True)
                for n, op in enumerate(plan['ops']):
                    if info['dead'] or not circuit.is_ready():
                        break
                    kind = op['op']
                    try:
                        if kind == 'fire':
                            if not 0 <= op['pipe'] < len(models):
                                raise PlanError('bad pipe index')
                            judge_fire(n, op)
                        elif kind == 'put':
                            if not 0 <= op['vin'] < len(vins):
                                raise PlanError('bad vin index')
                            vin = vins[op['vin']]
                            value = fm.decode(op['value'], undef)
                            marks = marks_now()
                            res = None
                            try:
                                res = edzed.ExtEvent(vin['blk'], 'put').send(value)
                            except Exception as err:    # pylint: disable=broad-except
                                res = err
                            exp = expect_vin(vin, value)
                            run.log('put', n, vin['spec']['name'], canon(value), canon(res))
                            judge_vin(f"op {n}: put {canon(value)} to {vin['spec']['name']}",
                                      vin, exp, marks)
                        elif kind == 'ctrl':
                            value = fm.decode(op['value'], undef)
                            edzed.ExtEvent(blocks[op['name']], 'put').send(value)
                            env.set(op['name'], value)
                            if blocks[op['name']].output != env.ctrl[op['name']]:
                                raise PlanError('control block model out of sync')
                            run.log('ctrl', n, op['name'], canon(value))
                        elif kind == 'yield':
                            await asyncio.sleep(0)
                        else:
                            raise PlanError(f"bad op {kind}")
                    except (KeyError, IndexError) as err:
                        raise PlanError(f"bad op {op}: {err!r}") from None
            await asyncio.sleep(0)
            err = None
            try:
                await circuit.shutdown()
            except BaseException as exc:    # pylint: disable=broad-except
                err = exc
            run.log('stopped', err)
            if err is not None and not info['dead'] and not info['init_failed']:
                run.violate('C16/simulation-aborted', f"the simulation ended with {canon(err)}")
            return simtask

        run.run(main())
        if run.main_exc is not None:
            if isinstance(run.main_exc, PlanError):
                raise run.main_exc
            run.harness_error = run.harness_error or f"main failed: {run.main_exc!r}"
        res = run.result()
        if not consulted_total[0] and not (scene and scene['log']):
            res['behaviour'] = None
        if trace:
            res['trace'] = run.trace
        return res
    finally:
        run.close()
